(* Extraction of the executable models for the correspondence checks.
   Directives used: ExtrOcamlBasic (bool, option, unit, prod, list, sumbool -> OCaml natives)
   and ExtrOcamlString (ascii -> char, string -> char list). nat, N, Z stay Coq datatypes. *)
From Coq Require Import Extraction ExtrOcamlBasic ExtrOcamlString.
From RG Require Import Pure.CanCall Pure.Rid Pure.Pattern Pure.Lcs Pure.LcsTab.
Set Extraction Optimize.
Separate Extraction
  CanCall.can_call CanCall.entries
  Rid.is_valid_rid Rid.name_of
  Pattern.pmatch
  Lcs.apply_evs LcsTab.lcs_model.
