(* Extraction of the executable models for the correspondence checks.
   Directives used: ExtrOcamlBasic (bool, option, unit, prod, list, sumbool -> OCaml natives)
   and ExtrOcamlString (ascii -> char, string -> char list). nat, N, Z stay Coq datatypes. *)
From Coq Require Import Extraction ExtrOcamlBasic ExtrOcamlString.
From RG Require Import Base.Value Pure.CanCall Pure.Rid Pure.Pattern Pure.Lcs Pure.LcsTab Pure.ModelDiff Comp.ResSub Pure.PatternParse Pure.RidPart Pure.Status Pure.Origin Pure.HttpPath Pure.Header Comp.Throttle Spec.Trace Spec.Client Spec.Monitors Spec.AccessMon Pure.Access Pure.Render Comp.Adapter Comp.Lifecycle Comp.EsQueue Pure.Subjects Comp.Gc Spec.HttpMon Comp.SubFsm Comp.CoreKv Pure.ValueDec Pure.RespDec.
Set Extraction Optimize.
Separate Extraction
  CanCall.can_call CanCall.entries
  Rid.is_valid_rid Rid.name_of
  Pattern.pmatch
  Lcs.apply_evs LcsTab.lcs_model
  ModelDiff.reset_props ModelDiff.apply_change ModelDiff.client_apply
  ResSub.run ResSub.init
  PatternParse.is_valid PatternParse.match_model
  RidPart.is_valid_part RidPart.dispatch_method RidPart.query_of
  Status.error_status Status.status_error Status.is_direct Status.is_valid_status
  Origin.matches_origins Origin.to_lower
  HttpPath.path_to_rid HttpPath.path_to_rid_action HttpPath.rid_to_path
  Header.apply_meta Header.canon
  Throttle.step
  Monitors.monitor AccessMon.amonitor
  Access.can_get Access.stored Access.expand Access.token_reset_applies
  Render.encode_get Render.encode_get_flat Render.print Render.expand Render.expandflat
  Adapter.run
  Lifecycle.step Lifecycle.init
  EsQueue.step EsQueue.init
  Subjects.requests
  Gc.remove_count Gc.try_delete
  HttpMon.hmonitor
  SubFsm.step SubFsm.init SubFsm.sst_num SubFsm.can_get
  CoreKv.kstep CoreKv.kinit CoreKv.ktruth
  ValueDec.decode ValueDec.read ValueDec.markers
  RespDec.decode_get RespDec.decode_call RespDec.proper.
