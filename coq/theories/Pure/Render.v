(* C16: models of the two HTTP API encoders (apiEncoding.go: encoderJSON.encodeSubscription/encodeValue 181-283,
   encoderJSONFlat 321-408) on a subscription graph, and the JSON tree they are supposed to print.
   Strings are byte lists. The JSON texts of hrefs (json.Marshal(RIDToPath(rid, apiPath))), of object keys
   (json.Marshal(k)), of errors, primitives and data values are inputs: the model is about structure. *)
From Coq Require Import String.
From Coq Require Import List Ascii Arith Bool.
Open Scope string_scope.
Open Scope list_scope.
Import ListNotations.

Definition str := list ascii.
Definition node := nat.

Inductive hval :=
| HPrim (raw : str)        (* primitive: raw JSON text *)
| HRef (r : node)          (* resource reference *)
| HSoft (href : str)       (* soft reference: the JSON text of its href *)
| HData (inner : str).     (* data value: the JSON text of the wrapped value *)

Inductive hres :=
| HModel (kvs : list (str * hval))     (* key JSON text, value; in the encoder's iteration order *)
| HColl (vs : list hval)
| HErr (json : str).                   (* the JSON text of the error *)

Record graph := { res : node -> hres; href : node -> str }.

Definition mem (r : node) (p : list node) : bool := existsb (Nat.eqb r) p.

Fixpoint join (sep : str) (l : list str) : str :=
  match l with
  | [] => []
  | [x] => x
  | x :: l' => x ++ sep ++ join sep l'
  end.

Definition s (x : string) : str := list_ascii_of_string x.

Section Enc.
Variable g : graph.

(* ---------- the "json" encoder: referenced resources are wrapped as {"href":..,"model"|"collection"|"error":..} *)
Fixpoint enc (fuel : nat) (path : list node) (r : node) (wrap : bool) : str :=
  match fuel with
  | O => []
  | S f =>
    let encv (v : hval) : str :=
      match v with
      | HRef r' => enc f (r :: path) r' true
      | HSoft h => s "{""href"":" ++ h ++ s "}"
      | HData i => i
      | HPrim raw => raw
      end in
    (if wrap then s "{""href"":" ++ href g r else []) ++
    (if mem r path then []                                   (* cyclic reference: href only *)
     else match res g r with
          | HErr e => (if wrap then s ",""error"":" else []) ++ e
          | HColl vs => (if wrap then s ",""collection"":" else []) ++ s "[" ++ join (s ",") (map encv vs) ++ s "]"
          | HModel kvs => (if wrap then s ",""model"":" else []) ++ s "{" ++
                          join (s ",") (map (fun kv => fst kv ++ s ":" ++ encv (snd kv)) kvs) ++ s "}"
          end) ++
    (if wrap then s "}" else [])
  end.

(* ---------- the "jsonflat" encoder: referenced resources are inlined bare; a cycle is an href object *)
Fixpoint encflat (fuel : nat) (path : list node) (r : node) : str :=
  match fuel with
  | O => []
  | S f =>
    let encv (v : hval) : str :=
      match v with
      | HRef r' => encflat f (r :: path) r'
      | HSoft h => s "{""href"":" ++ h ++ s "}"
      | HData i => i
      | HPrim raw => raw
      end in
    if mem r path then s "{""href"":" ++ href g r ++ s "}"
    else match res g r with
         | HErr e => e
         | HColl vs => s "[" ++ join (s ",") (map encv vs) ++ s "]"
         | HModel kvs => s "{" ++ join (s ",") (map (fun kv => fst kv ++ s ":" ++ encv (snd kv)) kvs) ++ s "}"
         end
  end.

(* ---------- the specification: a JSON tree and its printer *)
Inductive json :=
| JRaw (t : str)                        (* a JSON text given from outside (primitive, data, error, href string) *)
| JObj (kvs : list (str * json))        (* keys are JSON texts of strings *)
| JArr (l : list json).

Fixpoint print (j : json) : str :=
  match j with
  | JRaw t => t
  | JObj kvs => s "{" ++ join (s ",") (map (fun kv => fst kv ++ s ":" ++ print (snd kv)) kvs) ++ s "}"
  | JArr l => s "[" ++ join (s ",") (map print l) ++ s "]"
  end.

Definition href_obj (h : str) : json := JObj [(s """href""", JRaw h)].

(* the recursive expansion of resource r: nested in place; wrapped (json encoding) or bare (jsonflat);
   href only for soft references and for references that would re-enter a resource on the current path *)
Fixpoint expand (fuel : nat) (path : list node) (r : node) (wrap : bool) : json :=
  match fuel with
  | O => JRaw []
  | S f =>
    let ev (v : hval) : json :=
      match v with
      | HRef r' => expand f (r :: path) r' true
      | HSoft h => href_obj h
      | HData i => JRaw i
      | HPrim raw => JRaw raw
      end in
    let body : option (str * json) :=
      if mem r path then None
      else Some (match res g r with
                 | HErr e => (s """error""", JRaw e)
                 | HColl vs => (s """collection""", JArr (map ev vs))
                 | HModel kvs => (s """model""", JObj (map (fun kv => (fst kv, ev (snd kv))) kvs))
                 end) in
    if wrap then JObj ((s """href""", JRaw (href g r)) :: match body with Some b => [b] | None => [] end)
    else match body with Some b => snd b | None => JRaw [] end
  end.

Fixpoint expandflat (fuel : nat) (path : list node) (r : node) : json :=
  match fuel with
  | O => JRaw []
  | S f =>
    let ev (v : hval) : json :=
      match v with
      | HRef r' => expandflat f (r :: path) r'
      | HSoft h => href_obj h
      | HData i => JRaw i
      | HPrim raw => JRaw raw
      end in
    if mem r path then href_obj (href g r)
    else match res g r with
         | HErr e => JRaw e
         | HColl vs => JArr (map ev vs)
         | HModel kvs => JObj (map (fun kv => (fst kv, ev (snd kv))) kvs)
         end
  end.
End Enc.

(* the encoders as the gateway calls them: the requested resource is not wrapped, the path starts empty;
   [n] bounds the number of distinct resources of the graph *)
Definition encode_get (g : graph) (n : nat) (r : node) : str := enc g (S n) [] r false.
Definition encode_get_flat (g : graph) (n : nat) (r : node) : str := encflat g (S n) [] r.
