(* codec.Value.UnmarshalJSON (server/codec/codec.go:238-310): how the gateway classifies a value
   that a service put into a model, a collection or an event - primitive, resource reference, soft
   reference, data value, delete action - and which value objects it rejects (empty or invalid rid,
   ambiguous, unknown action, bare object or array).

   The JSON text is abstracted to what the code looks at: the first non-blank character (object, array,
   anything else) and, for an object, its members in order of appearance - key, kind of the member's
   value, and a number standing for the member's raw text. Decoding into codec.ValueObject follows
   encoding/json as it behaves here: keys match the four field names up to ASCII case, a later member
   overwrites an earlier one, null clears a pointer field and leaves a bool alone, a member of the wrong
   JSON type is a decoding error reported after all members were read, and the raw `data` field takes
   any value, null included. *)
From Coq Require Import List Ascii String NArith Bool Arith.
From RG Require Import Pure.Rid.
Import ListNotations.

Inductive jv :=
| JNull | JStr (s : list ascii) | JBool (b : bool) | JNum | JObj | JArr.

Definition member := (list ascii * jv * nat)%type.   (* key, value, raw-text id *)

Inductive top := TObj (ms : list member) | TArr | TOther.

Inductive verr := EJson | EEmptyRid | EAmbiguous | EInvalidRid | EUnknownAction | EObjectNotAllowed | EArrayNotAllowed.

Inductive outcome :=
| OPrimTop                 (* ValueTypePrimitive, RawMessage = the whole text *)
| OPrimData (id : nat)     (* ValueTypePrimitive, RawMessage = the data member's text *)
| OData (id : nat)         (* ValueTypeData, Inner = the data member's text *)
| ORef (r : list ascii)
| OSoft (r : list ascii)
| ODelete
| OErr (e : verr).

(* ASCII case folding of keys *)
Definition lower (c : ascii) : ascii :=
  let n := N_of_ascii c in
  if ((65 <=? n) && (n <=? 90))%N then ascii_of_N (n + 32) else c.
Fixpoint leqb (a b : list ascii) : bool :=
  match a, b with
  | [], [] => true
  | x :: a', y :: b' => Ascii.eqb x y && leqb a' b'
  | _, _ => false
  end.
Definition s2l (s : string) : list ascii := list_ascii_of_string s.
Definition key_is (k : list ascii) (name : string) : bool := leqb (map lower k) (s2l name).

Record fields := { f_rid : option (list ascii); f_soft : bool; f_action : option (list ascii);
                   f_data : option (jv * nat); f_err : bool }.
Definition f0 : fields := {| f_rid := None; f_soft := false; f_action := None; f_data := None; f_err := false |}.

Definition set_err (f : fields) : fields :=
  {| f_rid := f_rid f; f_soft := f_soft f; f_action := f_action f; f_data := f_data f; f_err := true |}.

Definition store (f : fields) (m : member) : fields :=
  let '(k, v, id) := m in
  if key_is k "rid" then
    match v with
    | JNull => {| f_rid := None; f_soft := f_soft f; f_action := f_action f; f_data := f_data f; f_err := f_err f |}
    | JStr s => {| f_rid := Some s; f_soft := f_soft f; f_action := f_action f; f_data := f_data f; f_err := f_err f |}
    | _ => set_err f
    end
  else if key_is k "soft" then
    match v with
    | JNull => f
    | JBool b => {| f_rid := f_rid f; f_soft := b; f_action := f_action f; f_data := f_data f; f_err := f_err f |}
    | _ => set_err f
    end
  else if key_is k "action" then
    match v with
    | JNull => {| f_rid := f_rid f; f_soft := f_soft f; f_action := None; f_data := f_data f; f_err := f_err f |}
    | JStr s => {| f_rid := f_rid f; f_soft := f_soft f; f_action := Some s; f_data := f_data f; f_err := f_err f |}
    | _ => set_err f
    end
  else if key_is k "data" then
    {| f_rid := f_rid f; f_soft := f_soft f; f_action := f_action f; f_data := Some (v, id); f_err := f_err f |}
  else f.

Definition read (ms : list member) : fields := fold_left store ms f0.

Definition is_some {A} (o : option A) : bool := match o with Some _ => true | None => false end.
Definition is_nil {A} (l : list A) : bool := match l with [] => true | _ => false end.

Definition classify (f : fields) : outcome :=
  if f_err f then OErr EJson else
  match f_rid f with
  | Some r =>
      if is_nil r then OErr EEmptyRid
      else if is_some (f_action f) || is_some (f_data f) then OErr EAmbiguous
      else if negb (is_valid_rid r true) then OErr EInvalidRid
      else if f_soft f then OSoft r else ORef r
  | None =>
      match f_action f with
      | Some a =>
          if is_some (f_data f) then OErr EAmbiguous
          else if leqb a (s2l "delete") then ODelete else OErr EUnknownAction
      | None =>
          match f_data f with
          | Some (v, id) => match v with JObj | JArr => OData id | _ => OPrimData id end
          | None => OErr EObjectNotAllowed
          end
      end
  end.

Definition decode (t : top) : outcome :=
  match t with
  | TObj ms => classify (read ms)
  | TArr => OErr EArrayNotAllowed
  | TOther => OPrimTop
  end.

(* ---- specification vocabulary ---- *)
Definition is_err (o : outcome) : bool := match o with OErr _ => true | _ => false end.
(* how many of the three mutually exclusive markers a value object carries *)
Definition markers (f : fields) : nat :=
  (if is_some (f_rid f) then 1 else 0) + (if is_some (f_action f) then 1 else 0) + (if is_some (f_data f) then 1 else 0).
