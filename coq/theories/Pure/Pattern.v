(* Feasibility sketch for C12: model of rescache.ResourcePattern.Match
   (server/rescache/resourcePattern.go:55-103) and its token-level specification. *)
From Coq Require Import List Ascii Bool Arith Lia.
Import ListNotations.

Definition dot : ascii := "."%char.
Definition star : ascii := "*"%char.
Definition gt : ascii := ">"%char.
Definition is (c d : ascii) : bool := Ascii.eqb c d.

Fixpoint leqb (a b : list ascii) : bool :=
  match a, b with
  | [], [] => true
  | x :: a', y :: b' => Ascii.eqb x y && leqb a' b'
  | _, _ => false
  end.

(* the inner loop of case '*': advance si to the next '.' (or to the end) *)
Fixpoint skip_tok (s : list ascii) : list ascii :=
  match s with [] => [] | c :: s' => if is c dot then s else skip_tok s' end.

(* the main loop; p and s are the suffixes pattern[pi:] and s[si:] *)
Fixpoint mt (fuel : nat) (p s : list ascii) : bool :=
  match fuel with
  | O => false
  | S f =>
    match p, s with
    | [], _ => false
    | _, [] => false
    | c :: p1, d :: s1 =>
      if is c gt then true
      else if is c star then
        match skip_tok s with
        | [] => match p1 with [] => true | _ => false end
        | _ :: s2 =>
            match s2 with
            | [] => match p1 with [_] => true | _ => false end
            | _ => match p1 with [] | [_] => false | _ :: p2 => mt f p2 s2 end
            end
        end
      else if negb (is c d) then false
      else match s1 with
           | [] => match p1 with [] => true | _ => false end
           | _ => match p1 with [] => false | _ => mt f p1 s1 end
           end
    end
  end.

Definition pmatch (p s : list ascii) : bool :=
  if (length s <? length p)%nat then false else mt (S (length s)) p s.

(* ---------- specification on token lists ---------- *)
Fixpoint join (ts : list (list ascii)) : list ascii :=
  match ts with
  | [] => []
  | [t] => t
  | t :: ts' => t ++ dot :: join ts'
  end.

Fixpoint spec (pt st : list (list ascii)) : bool :=
  match pt with
  | [] => match st with [] => true | _ => false end
  | t :: pt' =>
      if leqb t [gt] then (match st with [] => false | _ => true end)
      else match st with
           | [] => false
           | u :: st' => (leqb t [star] || leqb t u) && spec pt' st'
           end
  end.

Definition nodot (t : list ascii) := forallb (fun c => negb (is c dot)) t = true.
Definition name_tok (t : list ascii) := t <> [] /\ nodot t.
Definition lit_tok (t : list ascii) :=
  t <> [] /\ forallb (fun c => negb (is c dot) && negb (is c star) && negb (is c gt)) t = true.
Definition pat_tok (t : list ascii) := t = [star] \/ lit_tok t.
(* '>' only as the last token *)
Fixpoint valid_pat (pt : list (list ascii)) : Prop :=
  match pt with
  | [] => True
  | [t] => t = [gt] \/ pat_tok t
  | t :: pt' => pat_tok t /\ valid_pat pt'
  end.

(* ---------- proof ---------- *)
Lemma leqb_eq a b : leqb a b = true <-> a = b.
Proof.
  revert b; induction a as [|x a IH]; intros [|y b]; cbn; split; intros H; try discriminate; try reflexivity.
  - apply andb_prop in H as [H1 H2]. apply Ascii.eqb_eq in H1. apply IH in H2. congruence.
  - inversion H; subst. rewrite Ascii.eqb_refl. cbn. apply IH. reflexivity.
Qed.
Lemma leqb_refl a : leqb a a = true. Proof. apply leqb_eq. reflexivity. Qed.

(* fuel is irrelevant once it exceeds the remaining name length *)
Lemma skip_len s : (length (skip_tok s) <= length s)%nat.
Proof. induction s as [|c s IH]; cbn; [lia|]. destruct (is c dot); cbn; lia. Qed.

Lemma mt_fuel : forall f1 f2 p s, (length s < f1)%nat -> (length s < f2)%nat -> mt f1 p s = mt f2 p s.
Proof.
  induction f1 as [|f1 IH]; intros f2 p s H1 H2; [lia|].
  destruct f2 as [|f2]; [lia|].
  cbn [mt]. destruct p as [|c p1]; [reflexivity|]. destruct s as [|d s1]; [reflexivity|].
  destruct (is c gt); [reflexivity|].
  destruct (is c star).
  - pose proof (skip_len (d :: s1)) as Hs.
    destruct (skip_tok (d :: s1)) as [|x s2]; [reflexivity|].
    destruct s2 as [|y s2']; [reflexivity|].
    destruct p1 as [|z [|z2 p2]]; try reflexivity.
    apply IH; cbn in *; lia.
  - destruct (negb (is c d)); [reflexivity|].
    destruct s1 as [|y s1']; [reflexivity|].
    destruct p1 as [|z p1']; [reflexivity|].
    apply IH; cbn in *; lia.
Qed.

Definition M (p s : list ascii) : bool := mt (S (length s)) p s.

Lemma M_unfold p s f : (length s < f)%nat -> mt f p s = M p s.
Proof. intros H. unfold M. apply mt_fuel; lia. Qed.

(* ---------- facts about tokens ---------- *)
Lemma join_cons t ts : join (t :: ts) = t ++ match ts with [] => [] | _ => dot :: join ts end.
Proof. destruct ts; cbn; [rewrite app_nil_r|]; reflexivity. Qed.

Lemma join_name_nonempty st : Forall name_tok st -> st <> [] -> join st <> [].
Proof.
  intros H Hne. destruct st as [|u st']; [congruence|]. rewrite join_cons.
  inversion H as [|? ? [Hu _] _]; subst. destruct u; [congruence|discriminate].
Qed.

Lemma pat_tok_nonempty t : pat_tok t -> t <> [].
Proof. intros [->|[H _]]; [discriminate|exact H]. Qed.

Lemma valid_pat_tail t pt : valid_pat (t :: pt) -> pt <> [] -> pat_tok t /\ valid_pat pt.
Proof. destruct pt; [congruence|]. cbn. intros H _. exact H. Qed.

Lemma join_pat_nonempty pt : valid_pat pt -> pt <> [] -> join pt <> [].
Proof.
  intros H Hne. destruct pt as [|t pt']; [congruence|]. rewrite join_cons.
  assert (t <> []).
  { destruct pt'; cbn in H; [destruct H as [->|H]; [discriminate|apply pat_tok_nonempty; exact H]|].
    apply pat_tok_nonempty, H. }
  destruct t; [congruence|discriminate].
Qed.

Lemma skip_nodot u r : nodot u -> skip_tok (u ++ r) = skip_tok r.
Proof.
  induction u as [|c u IH]; intros H; cbn [app]; [reflexivity|].
  unfold nodot in H. cbn in H. apply andb_prop in H as [Hc Hu]. apply negb_true_iff in Hc.
  cbn [skip_tok]. rewrite Hc. apply IH. exact Hu.
Qed.

Lemma spec_nil_r pt : valid_pat pt -> spec pt [] = match pt with [] => true | _ => false end.
Proof. destruct pt as [|t pt']; cbn; [reflexivity|]. intros _. destruct (leqb t [gt]); reflexivity. Qed.

(* one loop iteration, stated for M *)
Lemma M_step_lit c p1 d s1 : is c gt = false -> is c star = false ->
  M (c :: p1) (d :: s1) =
  if negb (is c d) then false
  else match s1 with
       | [] => match p1 with [] => true | _ => false end
       | _ => match p1 with [] => false | _ => M p1 s1 end
       end.
Proof.
  intros Hg Hs. unfold M. cbn [mt length]. rewrite Hg, Hs.
  destruct (negb (is c d)); [reflexivity|]. destruct s1; [reflexivity|]. destruct p1; reflexivity.
Qed.

Lemma M_step_star p1 s : s <> [] ->
  M (star :: p1) s =
  match skip_tok s with
  | [] => match p1 with [] => true | _ => false end
  | _ :: s2 => match s2 with
               | [] => match p1 with [_] => true | _ => false end
               | _ => match p1 with [] | [_] => false | _ :: p2 => M p2 s2 end
               end
  end.
Proof.
  intros Hne. destruct s as [|d s1]; [congruence|]. unfold M at 1. cbn [mt].
  change (is star gt) with false. change (is star star) with true. cbn [negb].
  pose proof (skip_len (d :: s1)) as Hl.
  destruct (skip_tok (d :: s1)) as [|x s2]; [reflexivity|].
  destruct s2 as [|y s2']; [reflexivity|].
  destruct p1 as [|z [|z2 p2]]; try reflexivity.
  apply M_unfold. cbn in *. lia.
Qed.

Definition P (pt : list (list ascii)) := match pt with [] => [] | _ => dot :: join pt end.
Definition R (pt st : list (list ascii)) : bool :=
  match pt, st with
  | [], [] => true
  | [], _ => false
  | _, [] => false
  | _, _ => M (join pt) (join st)
  end.

Definition litc (c : ascii) := negb (is c dot) && negb (is c star) && negb (is c gt).

Lemma litc_facts c : litc c = true -> is c dot = false /\ is c star = false /\ is c gt = false.
Proof.
  unfold litc. intros H. apply andb_prop in H as [H H3]. apply andb_prop in H as [H1 H2].
  apply negb_true_iff in H1, H2, H3. auto.
Qed.

Lemma dot_facts : is dot gt = false /\ is dot star = false. Proof. split; reflexivity. Qed.

Lemma lit_cmp : forall t u pt st,
  forallb litc t = true -> t <> [] -> u <> [] -> nodot u ->
  valid_pat pt -> Forall name_tok st ->
  M (t ++ P pt) (u ++ P st) = leqb t u && R pt st.
Proof.
  induction t as [|c t IH]; intros u pt st Hl Hne Hu Hnd Hvp Hst; [congruence|].
  destruct u as [|d u]; [congruence|].
  cbn in Hl. apply andb_prop in Hl as [Hc Hl]. destruct (litc_facts c Hc) as (Hcd & Hcs & Hcg).
  unfold nodot in Hnd. cbn in Hnd. apply andb_prop in Hnd as [Hd Hnd]. apply negb_true_iff in Hd.
  cbn [app]. rewrite (M_step_lit c _ d _ Hcg Hcs). cbn [leqb]. unfold is at 1.
  destruct (Ascii.eqb c d) eqn:Ecd; cbn [negb andb]; [|reflexivity].
  destruct t as [|c2 t]; destruct u as [|d2 u]; cbn [app leqb].
  - (* both tokens end here *)
    destruct pt as [|t2 pt']; destruct st as [|u2 st']; cbn [P R]; try reflexivity.
    destruct dot_facts as [Hdg Hds].
    rewrite (M_step_lit dot _ dot _ Hdg Hds). change (is dot dot) with true. cbn [negb].
    assert (Hj1 : join (u2 :: st') <> []) by (apply join_name_nonempty; [exact Hst|discriminate]).
    assert (Hj2 : join (t2 :: pt') <> []) by (apply join_pat_nonempty; [exact Hvp|discriminate]).
    destruct (join (u2 :: st')); [congruence|]. destruct (join (t2 :: pt')); [congruence|]. reflexivity.
  - (* pattern token ends, name token continues *)
    cbn [app]. destruct pt as [|t2 pt']; cbn [P app].
    + reflexivity.
    + destruct dot_facts as [Hdg Hds].
      cbn in Hnd. apply andb_prop in Hnd as [Hd2 _]. apply negb_true_iff in Hd2.
      rewrite (M_step_lit dot _ d2 _ Hdg Hds). unfold is in *.
      assert (E : Ascii.eqb dot d2 = false).
      { destruct (Ascii.eqb dot d2) eqn:E; [|reflexivity]. apply Ascii.eqb_eq in E. subst d2. rewrite Ascii.eqb_refl in Hd2. discriminate. }
      rewrite E. reflexivity.
  - (* name token ends, pattern token continues *)
    cbn [app]. cbn in Hl. apply andb_prop in Hl as [Hc2 _]. destruct (litc_facts c2 Hc2) as (Hc2d & Hc2s & Hc2g).
    destruct st as [|u2 st']; cbn [P app].
    + reflexivity.
    + rewrite (M_step_lit c2 _ dot _ Hc2g Hc2s). rewrite Hc2d. reflexivity.
  - (* both continue *)
    change (c2 :: t ++ P pt) with ((c2 :: t) ++ P pt). change (d2 :: u ++ P st) with ((d2 :: u) ++ P st).
    apply IH; auto; try discriminate.
Qed.

Lemma lit_not_wild t : lit_tok t -> leqb t [gt] = false /\ leqb t [star] = false /\ forallb litc t = true.
Proof.
  intros [Hne Hl]. assert (Hl' : forallb litc t = true) by exact Hl.
  destruct t as [|c t]; [congruence|]. cbn in Hl'. apply andb_prop in Hl' as [Hc _].
  destruct (litc_facts c Hc) as (_ & Hs & Hg). unfold is in *. cbn [leqb]. rewrite Hs, Hg. repeat split; try reflexivity. exact Hl.
Qed.

Lemma skip_P st : skip_tok (P st) = P st.
Proof. destruct st; reflexivity. Qed.

Theorem M_spec : forall st pt,
  valid_pat pt -> Forall name_tok st -> pt <> [] -> st <> [] ->
  M (join pt) (join st) = spec pt st.
Proof.
  induction st as [|u st' IH]; intros pt Hvp Hst Hpne Hsne; [congruence|].
  destruct pt as [|t pt']; [congruence|].
  inversion Hst as [|? ? [Hune Hund] Hst']; subst.
  rewrite !join_cons. fold (P pt'). fold (P st').
  assert (Hcase : t = [gt] /\ pt' = [] \/ pat_tok t /\ valid_pat pt').
  { destruct pt' as [|t2 pt'']; cbn in Hvp.
    - destruct Hvp as [->|H]; [left; auto|right; split; [exact H|exact I]].
    - right. exact Hvp. }
  destruct Hcase as [[-> ->]|[Ht Hvp']].
  - (* ">" *)
    destruct u as [|d u']; [congruence|]. reflexivity.
  - destruct Ht as [->|Hlit].
    + (* "*" *)
      cbn [app]. rewrite M_step_star.
      2:{ destruct u; [congruence|discriminate]. }
      rewrite (skip_nodot u (P st') Hund), skip_P.
      cbn [spec]. change (leqb [star] [gt]) with false. change (leqb [star] [star]) with true. cbn [orb andb].
      destruct st' as [|u2 st'']; cbn [P].
      * rewrite (spec_nil_r pt' Hvp'). destruct pt'; reflexivity.
      * destruct pt' as [|t2 pt'']; cbn [P].
        -- assert (Hj : join (u2 :: st'') <> []) by (apply join_name_nonempty; [exact Hst'|discriminate]).
           destruct (join (u2 :: st'')); [congruence|reflexivity].
        -- assert (HIH : M (join (t2 :: pt'')) (join (u2 :: st'')) = spec (t2 :: pt'') (u2 :: st''))
             by (apply IH; auto; discriminate).
           assert (Hj : join (u2 :: st'') <> []) by (apply join_name_nonempty; [exact Hst'|discriminate]).
           assert (Hj2 : join (t2 :: pt'') <> []) by (apply join_pat_nonempty; [exact Hvp'|discriminate]).
           destruct (join (u2 :: st'')) as [|y s2']; [congruence|].
           destruct (join (t2 :: pt'')) as [|z2 p2]; [congruence|].
           exact HIH.
    + (* literal token *)
      destruct (lit_not_wild t Hlit) as (Hng & Hns & Hl). destruct Hlit as [Htne _].
      rewrite (lit_cmp t u pt' st' Hl Htne Hune Hund Hvp' Hst').
      cbn [spec]. rewrite Hng, Hns. cbn [orb].
      destruct pt' as [|t2 pt'']; destruct st' as [|u2 st'']; cbn [R spec]; try reflexivity.
      * destruct (leqb t2 [gt]); reflexivity.
      * rewrite (IH (t2 :: pt'') Hvp' Hst' ltac:(discriminate) ltac:(discriminate)). reflexivity.
Qed.

Lemma spec_len : forall pt st, valid_pat pt -> Forall name_tok st -> spec pt st = true ->
  (length (join pt) <= length (join st))%nat.
Proof.
  induction pt as [|t pt' IH]; intros st Hvp Hst Hs; [cbn; lia|].
  assert (Hcase : t = [gt] /\ pt' = [] \/ pat_tok t /\ valid_pat pt').
  { destruct pt' as [|t2 pt'']; cbn in Hvp.
    - destruct Hvp as [->|H]; [left; auto|right; split; [exact H|exact I]].
    - right. exact Hvp. }
  destruct Hcase as [[-> ->]|[Ht Hvp']].
  - cbn in Hs. destruct st as [|u st']; [discriminate|].
    inversion Hst as [|? ? [Hune _] _]; subst. change (join [[gt]]) with [gt]. rewrite join_cons, app_length.
    destruct u; [congruence|cbn [length]; lia].
  - cbn [spec] in Hs.
    assert (Hng : leqb t [gt] = false).
    { destruct Ht as [->|Hl]; [reflexivity|apply (lit_not_wild t Hl)]. }
    rewrite Hng in Hs. destruct st as [|u st']; [discriminate|].
    apply andb_prop in Hs as [Htu Hs'].
    inversion Hst as [|? ? [Hune _] Hst']; subst.
    specialize (IH st' Hvp' Hst' Hs').
    rewrite !join_cons, !app_length.
    assert (Hlen : (length t <= length u)%nat).
    { destruct Ht as [->|Hl].
      - destruct u; [congruence|cbn; lia].
      - destruct (lit_not_wild t Hl) as (_ & Hns & _). rewrite Hns in Htu. cbn in Htu. apply leqb_eq in Htu. subst. lia. }
    destruct pt' as [|t2 pt'']; destruct st' as [|u2 st'']; cbn [length] in *; try lia.
    + rewrite (spec_nil_r (t2 :: pt'') Hvp') in Hs'. discriminate.
Qed.

(* C12: for every valid pattern and valid resource name, Match is NATS wildcard matching on tokens *)
Theorem pmatch_spec : forall pt st,
  valid_pat pt -> Forall name_tok st -> pt <> [] -> st <> [] ->
  pmatch (join pt) (join st) = spec pt st.
Proof.
  intros pt st Hvp Hst Hp Hs. unfold pmatch.
  destruct (Nat.ltb_spec (length (join st)) (length (join pt))) as [Hlt|Hge].
  - destruct (spec pt st) eqn:E; [|reflexivity]. pose proof (spec_len pt st Hvp Hst E). lia.
  - apply M_spec; assumption.
Qed.
Print Assumptions pmatch_spec.

(* examples from the property text: * is exactly one token, > one or more trailing tokens *)
From Coq Require Import String.
Definition l (s : string) := list_ascii_of_string s.
Example e1 : pmatch (l "test.*") (l "test.model") = true. Proof. reflexivity. Qed.
Example e2 : pmatch (l "test.*") (l "test.model.sub") = false. Proof. reflexivity. Qed.
Example e3 : pmatch (l "test.>") (l "test.model.sub") = true. Proof. reflexivity. Qed.
Example e4 : pmatch (l "test.>") (l "test") = false. Proof. reflexivity. Qed.
Example e5 : pmatch (l "*.model.>") (l "test.model.a.b") = true. Proof. reflexivity. Qed.
(* the raw loop would accept a malformed pattern such as "te*"; ParseResourcePattern rejects those first,
   which is why the theorem is stated for valid_pat (and why parse gets its own theorem) *)
Example e6 : pmatch (l "te*") (l "test") = true. Proof. reflexivity. Qed.
