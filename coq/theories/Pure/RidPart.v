(* C14: models of codec.IsValidRIDPart (codec.go:811-819), the method split of rpc.HandleRequest
   (rpc.go:150-178), server.parseRID and the subject assembly. *)
From Coq Require Import List Ascii NArith Bool Arith Lia.
From RG Require Import Pure.Rid.
Import ListNotations.

Definition bad_part (c : ascii) : bool :=
  let n := N_of_ascii c in (n <? 33)%N || (126 <? n)%N || is c dot || is c star || is c gt || is c qm.

Definition is_valid_part (l : list ascii) : bool :=
  match l with [] => false | _ => forallb (fun c => negb (bad_part c)) l end.

(* strings.IndexByte(s, '.') split: (before, after) or None *)
Fixpoint split_first_dot (l : list ascii) : option (list ascii * list ascii) :=
  match l with
  | [] => None
  | c :: l' => if is c dot then Some ([], l')
               else match split_first_dot l' with Some (a, b) => Some (c :: a, b) | None => None end
  end.
(* strings.LastIndexByte(s, '.') split *)
Fixpoint split_last_dot (l : list ascii) : option (list ascii * list ascii) :=
  match l with
  | [] => None
  | c :: l' => match split_last_dot l' with
               | Some (a, b) => Some (c :: a, b)
               | None => if is c dot then Some ([], l') else None
               end
  end.

Fixpoint leqb (a b : list ascii) : bool :=
  match a, b with
  | [], [] => true
  | x :: a', y :: b' => Ascii.eqb x y && leqb a' b'
  | _, _ => false
  end.

Definition s_call := ["c";"a";"l";"l"]%char.
Definition s_auth := ["a";"u";"t";"h"]%char.
Definition s_get := ["g";"e";"t"]%char.
Definition s_subscribe := ["s";"u";"b";"s";"c";"r";"i";"b";"e"]%char.
Definition s_unsubscribe := ["u";"n";"s";"u";"b";"s";"c";"r";"i";"b";"e"]%char.
Definition s_new := ["n";"e";"w"]%char.
Definition s_version := ["v";"e";"r";"s";"i";"o";"n"]%char.

Inductive dispatch :=
| DVersion                                   (* "version" without a dot *)
| DInvalid                                   (* system.invalidRequest, no requester call *)
| DAction (action rid method : list ascii).  (* get/subscribe/unsubscribe/new (method = []), call/auth *)

Definition known_action (a : list ascii) : bool :=
  leqb a s_get || leqb a s_subscribe || leqb a s_unsubscribe || leqb a s_call || leqb a s_auth || leqb a s_new.

Definition dispatch_method (m : list ascii) : dispatch :=
  match split_first_dot m with
  | None => if leqb m s_version then DVersion else DInvalid
  | Some (action, rid) =>
      if leqb action s_call || leqb action s_auth then
        match split_last_dot rid with
        | None => DInvalid
        | Some (rid', meth) =>
            if negb (is_valid_part meth) then DInvalid
            else if negb (is_valid_rid rid' true) then DInvalid
            else DAction action rid' meth
        end
      else if negb (is_valid_rid rid true) then DInvalid
      else if known_action action then DAction action rid []
      else DInvalid
  end.

(* parseRID: (name, query) split at the first '?' *)
Fixpoint query_of (l : list ascii) : list ascii :=
  match l with [] => [] | c :: l' => if is c qm then l' else query_of l' end.
