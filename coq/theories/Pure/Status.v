(* C17: status tables. Models of apiHandler.errorStatus (330-358), statusError (369-431),
   codec.Meta.IsDirectResponseStatus / IsValidStatus (codec.go:361-383). Error codes are an enum. *)
From Coq Require Import ZArith Bool List.
Import ListNotations.
Open Scope Z_scope.

Inductive code :=
| AccessDenied | InternalError | InvalidParams | InvalidQuery | MethodNotFound | NoSubscription | NotFound
| Timeout | InvalidRequest | UnsupportedProtocol | SubjectTooLong | Deleted
| BadRequest | MethodNotAllowed | ServiceUnavailable | Forbidden | NotImplemented | OtherCode.

Definition error_status (c : code) : Z :=
  match c with
  | NotFound | MethodNotFound | Timeout => 404
  | AccessDenied => 401
  | MethodNotAllowed => 405
  | InternalError => 500
  | ServiceUnavailable => 503
  | Forbidden => 403
  | SubjectTooLong => 414
  | _ => 400
  end.

Definition status_error (s : Z) : code :=
  if (400 <=? s) && (s <? 500) then
    (if (s =? 401) || (s =? 402) || (s =? 407) then AccessDenied
     else if (s =? 403) || (s =? 451) then Forbidden
     else if (s =? 410) || (s =? 404) then NotFound
     else if s =? 405 then MethodNotAllowed
     else if s =? 408 then Timeout
     else BadRequest)
  else if (500 <=? s) && (s <? 600) then
    (if s =? 501 then NotImplemented
     else if s =? 503 then ServiceUnavailable
     else if s =? 504 then Timeout
     else InternalError)
  else InternalError.

(* meta status: None = no status in the meta (or no meta) *)
Definition is_direct (s : option Z) : bool :=
  match s with Some s => (300 <=? s) && (s <? 600) | None => false end.
Definition is_valid_status (s : option Z) : bool :=
  match s with Some s => (300 <=? s) && (s <? 600) | None => true end.
