(* C12: model of ResourceSubscription.processResetModel (resourceSubscription.go:498-528) followed by the
   re-filter of handleEventChange (163-218): from the cached model and the re-fetched one to the change
   event handed to subscribers and the new cached model. *)
From Coq Require Import List Arith Bool Lia.
From RG Require Import Base.Value.
Import ListNotations.

(* processResetModel: props := new; every cached key missing from it becomes a delete action;
   every entry equal to the cached one is dropped *)
Definition reset_props (old new : kv) : kv :=
  let with_del := fold_left (fun p k => if has_key k p then p else set_key k VDelete p) (keys old) new in
  filter (fun '(k, v) => match lookup k old with Some ov => negb (veq v ov) | None => true end) with_del.

(* handleEventChange: apply props to the cached map m, dropping no-op entries from props *)
Fixpoint apply_change (props : kv) (m : kv) : kv * kv :=   (* (effective props, new map) *)
  match props with
  | [] => ([], m)
  | (k, v) :: ps =>
      let '(eff, m') := apply_change ps m in
      match v with
      | VDelete => if has_key k m' then ((k, v) :: eff, remove_key k m') else (eff, m')
      | _ => match lookup k m' with
             | Some ov => if veq ov v then (eff, m') else ((k, v) :: eff, set_key k v m')
             | None => ((k, v) :: eff, set_key k v m')
             end
      end
  end.

(* what a client does with a change event (res-client-protocol: delete actions remove the key) *)
Fixpoint client_apply (props : kv) (m : kv) : kv :=
  match props with
  | [] => m
  | (k, VDelete) :: ps => remove_key k (client_apply ps m)
  | (k, v) :: ps => set_key k v (client_apply ps m)
  end.
