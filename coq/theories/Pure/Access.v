(* C04/C10: models of rescache.Access.CanGet (access.go:15-27) and wsConn.ExpandCID (wsConn.go:743-745,
   strings.Replace(rid, "{cid}", cid, -1)), and the token-reset filter of wsConn.TokenReset (748-751). *)
From Coq Require Import List Ascii Bool Arith.
Import ListNotations.

(* an access answer: an error (with its code abstracted to whether it is system.accessDenied), or a result *)
Inductive access := AErr (denied : bool) | AResult (get : bool) (call : list ascii).

Inductive verdict := Granted | Refused (is_answer_error : bool).

Definition can_get (a : access) : verdict :=
  match a with
  | AErr _ => Refused true          (* the service's (or the transport's) error is passed on *)
  | AResult true _ => Granted
  | AResult false _ => Refused false (* system.accessDenied *)
  end.

(* loadAccess stores the verdict only for an actual result or a system.accessDenied error (subscription.go:900-903) *)
Definition stored (a : access) : bool :=
  match a with AErr d => d | AResult _ _ => true end.

Theorem can_get_granted_iff : forall a, can_get a = Granted <-> exists call, a = AResult true call.
Proof.
  intros [d|g call]; cbn; split; intros H; try discriminate.
  - destruct H as [c H]; discriminate.
  - destruct g; [exists call; reflexivity|discriminate].
  - destruct H as [c H]. inversion H; subst. reflexivity.
Qed.

Theorem transient_errors_not_stored : forall a, stored a = false -> a = AErr false.
Proof. intros [[|]|g c]; cbn; intros H; try discriminate; reflexivity. Qed.

(* ---- {cid} expansion *)
Definition placeholder : list ascii := ["{"; "c"; "i"; "d"; "}"]%char.

Fixpoint has_prefix (s p : list ascii) : option (list ascii) :=
  match p, s with
  | [], _ => Some s
  | c :: p', d :: s' => if Ascii.eqb c d then has_prefix s' p' else None
  | _ :: _, [] => None
  end.

(* strings.Replace(s, "{cid}", cid, -1): leftmost non-overlapping occurrences; fuel = length s + 1 *)
Fixpoint expand_fuel (fuel : nat) (s cid : list ascii) : list ascii :=
  match fuel with
  | O => s
  | S f =>
      match has_prefix s placeholder with
      | Some rest => cid ++ expand_fuel f rest cid
      | None => match s with [] => [] | c :: s' => c :: expand_fuel f s' cid end
      end
  end.
Definition expand (s cid : list ascii) : list ascii := expand_fuel (S (length s)) s cid.

Definition brace : ascii := "{"%char.

Theorem expand_no_brace : forall s cid, forallb (fun c => negb (Ascii.eqb c brace)) s = true -> expand s cid = s.
Proof.
  intros s cid. unfold expand. generalize (S (length s)). intros fuel. revert s.
  induction fuel as [|f IH]; intros s H; [reflexivity|].
  destruct s as [|c s']; [reflexivity|].
  cbn [forallb] in H. apply andb_prop in H as [Hc Hs].
  apply negb_true_iff in Hc.
  cbn [expand_fuel has_prefix placeholder].
  assert (E : Ascii.eqb "{" c = false) by (rewrite Ascii.eqb_sym; exact Hc).
  rewrite E. rewrite IH by exact Hs. reflexivity.
Qed.

(* the token-reset filter: a connection is affected iff it has a token id and that id is listed *)
Fixpoint leqb (a b : list ascii) : bool :=
  match a, b with
  | [], [] => true
  | x :: a', y :: b' => Ascii.eqb x y && leqb a' b'
  | _, _ => false
  end.
Definition token_reset_applies (tid : list ascii) (tids : list (list ascii)) : bool :=
  match tid with [] => false | _ => existsb (leqb tid) tids end.

Theorem token_reset_needs_tid : forall tids, token_reset_applies [] tids = false.
Proof. reflexivity. Qed.
