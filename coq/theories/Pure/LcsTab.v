(* The DP table of rescache.lcs (resourceSubscription.go:587-604) as a function, and the
   concrete model lcs_model := lcs_with dp_tab. lcs_patch holds for every table, hence for this one. *)
From Coq Require Import List Arith ZArith Lia Bool.
From RG Require Import Pure.Lcs.
Import ListNotations.

Section TAB.
Context {V : Type} (veq : V -> V -> bool).

(* one row j+1 from row j:  c[(i+1)+w*(j+1)] for i = 0..m-1, given prev row and b_j *)
Fixpoint dp_row (aa : list V) (y : V) (prev : list nat) (left : nat) : list nat :=
  match aa, prev with
  | x :: aa', diag :: ((up :: _) as prev') =>
      let v := if veq x y then S diag else (if (left <? up)%nat then up else left) in
      v :: dp_row aa' y prev' v
  | _, _ => []
  end.
(* rows j = 0..n, each of length m+1 (column i = 0..m) *)
Fixpoint dp_rows (aa bb : list V) (prev : list nat) : list (list nat) :=
  match bb with
  | [] => [prev]
  | y :: bb' => prev :: dp_rows aa bb' (0%nat :: dp_row aa y prev 0%nat)
  end.
Definition dp_tab (aa bb : list V) : nat -> nat -> nat :=
  let rows := dp_rows aa bb (repeat 0%nat (S (length aa))) in
  fun i j => nth i (nth j rows []) 0%nat.

Definition lcs_model (a b : list V) : list (@event V) := lcs_with veq dp_tab a b.

Theorem lcs_model_patch : forall a b,
  exists b', apply_evs (lcs_model a b) a = Some b' /\ Forall2 (vrel veq) b' b.
Proof. intros a b. exact (lcs_patch veq dp_tab a b). Qed.

Theorem lcs_model_same_nil : forall a b,
  Forall2 (fun x y => veq x y = true) a b -> lcs_model a b = [].
Proof. intros a b H. exact (lcs_same_nil veq dp_tab a b H). Qed.
End TAB.

(* sanity: the classic example; LCS of ABCBDAB / BDCABA has length 4 *)
Example dp_len : dp_tab Nat.eqb [1;2;3;2;4;1;2]%nat [2;4;3;1;2;1]%nat 7 6 = 4%nat.
Proof. reflexivity. Qed.
