(* C17: model of config.matchesOrigins (config.go:217-241) and toLowerASCII (204-215), byte level.
   The Go loop decodes runes; on valid UTF-8 and on pure ASCII it coincides with the byte loop below.
   (On invalid UTF-8 the pinned code compared U+FFFD = U+FFFD; see finding P11.) *)
From Coq Require Import List Ascii NArith Bool Arith.
Import ListNotations.

Definition lower (c : ascii) : ascii :=
  let n := N_of_ascii c in
  if (65 <=? n)%N && (n <=? 90)%N then ascii_of_N (n + 32) else c.

Definition to_lower (s : list ascii) : list ascii := map lower s.

(* one allow-list entry s against the origin t: equal, or equal after lower-casing t's byte *)
Fixpoint match_one (s t : list ascii) : bool :=
  match s, t with
  | [], [] => true
  | c :: s', d :: t' => (Ascii.eqb c d || Ascii.eqb c (lower d)) && match_one s' t'
  | _, _ => false
  end.

Definition matches_origins (os : list (list ascii)) (o : list ascii) : bool := existsb (fun s => match_one s o) os.
