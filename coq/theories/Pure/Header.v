(* C17: model of codec.Meta.Canonicalize (codec.go:417-430) and codec.MergeHeader (385-414).
   Header names are byte strings made of valid header-token bytes (textproto.CanonicalMIMEHeaderKey
   returns other names unchanged; that case is outside the model and stated as an assumption).
   Values are abstract numbers. A header map is an association list with unique keys. *)
From Coq Require Import List Ascii NArith Bool Arith String.
Import ListNotations.

Definition hname := list ascii.
Definition hmap := list (hname * list nat).

Fixpoint leqb (a b : list ascii) : bool :=
  match a, b with
  | [], [] => true
  | x :: a', y :: b' => Ascii.eqb x y && leqb a' b'
  | _, _ => false
  end.

Definition up (c : ascii) : ascii :=
  let n := N_of_ascii c in if (97 <=? n)%N && (n <=? 122)%N then ascii_of_N (n - 32) else c.
Definition low (c : ascii) : ascii :=
  let n := N_of_ascii c in if (65 <=? n)%N && (n <=? 90)%N then ascii_of_N (n + 32) else c.
Definition dash : ascii := "-"%char.

(* textproto.CanonicalMIMEHeaderKey on a valid token *)
Fixpoint canon_from (upper : bool) (k : hname) : hname :=
  match k with
  | [] => []
  | c :: k' => (if upper then up c else low c) :: canon_from (Ascii.eqb c dash) k'
  end.
Definition canon (k : hname) : hname := canon_from true k.

Fixpoint hget (k : hname) (h : hmap) : option (list nat) :=
  match h with
  | [] => None
  | (k', v) :: h' => if leqb k k' then Some v else hget k h'
  end.
Fixpoint hdel (k : hname) (h : hmap) : hmap :=
  match h with
  | [] => []
  | (k', v) :: h' => if leqb k k' then hdel k h' else (k', v) :: hdel k h'
  end.
Definition hset (k : hname) (v : list nat) (h : hmap) : hmap := (k, v) :: hdel k h.

(* Canonicalize: entries whose name is not canonical are appended to the canonical name's entry.
   Processing order is the list order (Go: map order; the harness compares such values as multisets). *)
Fixpoint canonicalize_go (todo : hmap) (h : hmap) : hmap :=
  match todo with
  | [] => h
  | (k, v) :: todo' =>
      let nk := canon k in
      if leqb nk k then canonicalize_go todo' h
      else
        let cur := match hget nk h with Some w => w | None => [] end in
        canonicalize_go todo' (hdel k (hset nk (cur ++ v) h))
  end.
Definition canonicalize (h : hmap) : hmap := canonicalize_go h h.

Definition s2l (s : string) : hname := list_ascii_of_string s.
Definition protected_names : list hname :=
  [s2l "Sec-Websocket-Extensions"; s2l "Sec-Websocket-Protocol"; s2l "Access-Control-Allow-Credentials";
   s2l "Access-Control-Allow-Origin"; s2l "Content-Type"].
Definition is_protected (k : hname) : bool := existsb (leqb k) protected_names.
Definition set_cookie : hname := s2l "Set-Cookie".

(* MergeHeader(a, b) *)
Fixpoint merge (a : hmap) (b : hmap) : hmap :=
  match b with
  | [] => a
  | (k, v) :: b' =>
      if is_protected k then merge a b'
      else if leqb k set_cookie
           then merge (hset k ((match hget k a with Some w => w | None => [] end) ++ v) a) b'
           else merge (hset k v a) b'
  end.

(* what the gateway does with a service meta header: canonicalize, then merge into the response header *)
Definition apply_meta (resp meta : hmap) : hmap := merge resp (canonicalize meta).
