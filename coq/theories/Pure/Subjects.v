(* C14 / C10: the requests a client request turns into (wsConn.SubscribeResource / GetResource / CallResource /
   AuthResource, Subscription.NewSubscription, parseRID, ExpandCID, rescache.Cache.Access/Call/Auth and
   codec.CreateRequest): subject = type.name(.method) with every {cid} tag replaced by the connection id and the
   name cut at the FIRST '?', the rest travelling as the payload's query. *)
From Coq Require Import List Ascii String Bool.
From RG Require Import Pure.Rid Pure.RidPart Pure.Access.
Import ListNotations.

Inductive ckind := CSubscribe | CGet | CCall | CAuth.

Definition str (s : string) : list ascii := list_ascii_of_string s.

(* (subject, query) pairs, in the order the gateway issues them when every access check is granted *)
Definition requests (k : ckind) (rid cid meth : list ascii) : list (list ascii * list ascii) :=
  if negb (is_valid_rid rid true) then [] else
  let e := expand rid cid in
  let nm := name_of e in
  let q := query_of e in
  match k with
  | CSubscribe | CGet => [(str "access." ++ nm, q); (str "get." ++ nm, q)]
  | CCall => [(str "access." ++ nm, q); (str "call." ++ nm ++ [dot] ++ meth, q)]
  | CAuth => [(str "auth." ++ nm ++ [dot] ++ meth, q)]
  end.

(* the name part never contains a '?': whatever follows the first one is query *)
Lemma name_of_no_qm : forall l, forallb (fun c => negb (is c qm)) (name_of l) = true.
Proof.
  induction l as [|c l IH]; cbn; [reflexivity|].
  destruct (is c qm) eqn:E; cbn; [reflexivity|]. rewrite E. cbn. exact IH.
Qed.

(* name and query partition the expanded id at its first '?' *)
Lemma name_query_split : forall l,
  l = name_of l \/ l = name_of l ++ [qm] ++ query_of l.
Proof.
  induction l as [|c l IH]; cbn; [left; reflexivity|].
  destruct (is c qm) eqn:E.
  - right. unfold is in E. apply Ascii.eqb_eq in E. subst c. reflexivity.
  - destruct IH as [IH|IH]; [left|right]; cbn; f_equal; exact IH.
Qed.

(* every request of one client request names the same resource and carries the same query *)
Theorem requests_same_name_and_query : forall k rid cid meth s1 q1 s2 q2,
  In (s1, q1) (requests k rid cid meth) -> In (s2, q2) (requests k rid cid meth) -> q1 = q2.
Proof.
  intros k rid cid meth s1 q1 s2 q2. unfold requests.
  destruct (negb (is_valid_rid rid true)); [intros []|].
  destruct k; cbn; intros H1 H2;
    repeat match goal with
           | H : _ \/ _ |- _ => destruct H
           | H : False |- _ => destruct H
           | H : (_, _) = (_, _) |- _ => inversion H; clear H; subst
           end; reflexivity.
Qed.
