(* codec.DecodeGetResponse (server/codec/codec.go:459-499) and codec.DecodeCallResponse (697-724): what
   the gateway makes of a service's answer to a get request and to a call / auth / new request.

   The payload is abstracted to the fields the code looks at after encoding/json filled the response
   struct (a field given as JSON null is absent for the pointer, map and slice fields and present, with
   text "null", for the raw `result` of a call response). Values of a model or collection are given by
   their classification (Pure/ValueDec.v); a value the value decoder rejects makes the whole payload a
   decoding error. *)
From Coq Require Import List Ascii String Bool Arith.
From RG Require Import Pure.Rid Pure.ValueDec.
Import ListNotations.

(* ---- get response ---- *)
Record get_result := { g_model : option (list outcome); g_coll : option (list outcome) }.
Record get_payload := { gp_syntax_ok : bool; gp_error : option nat; gp_result : option get_result }.

Inductive get_out :=
| GModel (n : nat) | GColl (n : nat)        (* accepted, with the number of values *)
| GService (e : nat)                         (* the service's own error, passed on *)
| GJson | GMissingResult | GInvalid.

Definition proper (o : outcome) : bool := match o with ODelete | OErr _ => false | _ => true end.
Definition rejected (o : outcome) : bool := is_err o.

Definition values_of (r : get_result) : list outcome :=
  match g_model r with Some m => m | None => [] end ++ match g_coll r with Some c => c | None => [] end.

Definition decode_get (p : get_payload) : get_out :=
  if negb (gp_syntax_ok p) then GJson
  else if match gp_result p with Some r => existsb rejected (values_of r) | None => false end then GJson
  else match gp_error p with
  | Some e => GService e
  | None =>
    match gp_result p with
    | None => GMissingResult
    | Some r =>
      match g_model r, g_coll r with
      | Some m, Some _ => GInvalid
      | Some m, None => if forallb proper m then GModel (List.length m) else GInvalid
      | None, Some c => if forallb proper c then GColl (List.length c) else GInvalid
      | None, None => GInvalid
      end
    end
  end.

(* ---- call / auth / new response ---- *)
Record call_payload := { cp_syntax_ok : bool; cp_error : option nat; cp_resource : option (list ascii);
                         cp_result : option nat (* id of the raw text *) }.

Inductive call_out :=
| CResult (id : nat) | CResource (r : list ascii) | CService (e : nat) | CJson | CMissingResult | CInvalid.

Definition decode_call (p : call_payload) : call_out :=
  if negb (cp_syntax_ok p) then CJson
  else match cp_error p with
  | Some e => CService e
  | None =>
    match cp_resource p with
    | Some r => if is_valid_rid r true then CResource r else CInvalid
    | None => match cp_result p with Some id => CResult id | None => CMissingResult end
    end
  end.
