(* Feasibility sketch for C12: model of rescache.lcs (server/rescache/resourceSubscription.go:542-651)
   and the theorem that its edit script, applied in order, turns a into b (up to Value.Equal),
   for an ARBITRARY table c (correctness does not depend on the DP being right). *)
From Coq Require Import List Arith ZArith Lia Bool.
Import ListNotations.
Open Scope Z_scope.

Section LCS.
Context {V : Type} (veq : V -> V -> bool).

Inductive event := Remove (idx : Z) | Add (idx : Z) (v : V).

(* ---------- applying events (the RES client / cache semantics) ---------- *)
Fixpoint remove_at (n : nat) (l : list V) : option (list V) :=
  match n, l with
  | O, _ :: t => Some t
  | S n', x :: t => option_map (cons x) (remove_at n' t)
  | _, [] => None
  end.
Fixpoint insert_at (n : nat) (v : V) (l : list V) : option (list V) :=
  match n, l with
  | O, _ => Some (v :: l)
  | S n', x :: t => option_map (cons x) (insert_at n' v t)
  | S _, [] => None
  end.
Definition apply_ev (e : event) (l : list V) : option (list V) :=
  match e with
  | Remove i => if i <? 0 then None else remove_at (Z.to_nat i) l
  | Add i v => if i <? 0 then None else insert_at (Z.to_nat i) v l
  end.
Fixpoint apply_evs (es : list event) (l : list V) : option (list V) :=
  match es with
  | [] => Some l
  | e :: es' => match apply_ev e l with Some l' => apply_evs es' l' | None => None end
  end.

(* ---------- the model, mirroring the Go control flow ---------- *)
Fixpoint cpre (a b : list V) : nat :=
  match a, b with
  | x :: a', y :: b' => if veq x y then S (cpre a' b') else O
  | _, _ => O
  end.

Definition eqat (aa bb : list V) (i j : nat) : bool :=
  match nth_error aa (i - 1), nth_error bb (j - 1) with
  | Some x, Some y => veq x y
  | _, _ => false
  end.

Section BT.
Variable c : nat -> nat -> nat.   (* c i j = c[i + w*j] *)
Variables aa bb : list V.

(* the Loop: of the Go code; (rems, adds, r) are its accumulators, idx its index variable *)
Fixpoint bt (fuel : nat) (i j : nat) (idx r : Z)
         (rems : list event) (adds : list (nat * Z * Z)) : list event * list (nat * Z * Z) * Z :=
  match fuel with
  | O => (rems, adds, r)
  | S f =>
    if (0 <? i)%nat && (0 <? j)%nat && eqat aa bb i j then
      bt f (i - 1)%nat (j - 1)%nat (idx - 1) r rems adds
    else if (0 <? j)%nat && ((i =? 0)%nat || (c (i - 1) j <=? c i (j - 1))%nat) then
      bt f i (j - 1)%nat idx r rems (adds ++ [((j - 1)%nat, idx, r)])
    else if (0 <? i)%nat && ((j =? 0)%nat || (c i (j - 1) <? c (i - 1) j)%nat) then
      bt f (i - 1)%nat j (idx - 1) (r + 1) (rems ++ [Remove (idx - 1)]) adds
    else (rems, adds, r)
  end.

(* "Do the adds": for i := l; i >= 0; i-- *)
Fixpoint emit_adds (k : Z) (l r : Z) (adds_rev : list (nat * Z * Z)) : list event :=
  match adds_rev with
  | [] => []
  | (n, idx, ar) :: rest =>
      match nth_error bb n with
      | Some v => Add (idx - r + ar + l - k) v :: emit_adds (k - 1) l r rest
      | None => emit_adds (k - 1) l r rest
      end
  end.
End BT.

Definition lcs_with (c : list V -> list V -> nat -> nat -> nat) (a b : list V) : list event :=
  let s := cpre a b in
  if ((s =? length a) && (s =? length b))%nat then [] else
  let a1 := skipn s a in let b1 := skipn s b in
  let t := cpre (rev a1) (rev b1) in
  let aa := firstn (length a1 - t) a1 in
  let bb := firstn (length b1 - t) b1 in
  let m := length aa in let n := length bb in
  let '(rems, adds, r) := bt (c aa bb) aa bb (m + n) m n (Z.of_nat (m + s)) 0 [] [] in
  let l := Z.of_nat (length adds) - 1 in
  rems ++ emit_adds bb l l r (rev adds).

(* ---------- proof ---------- *)

(* steps of the alignment, in backtrack order, with the positions the Go code uses *)
Inductive step := SK | SD (p : nat) | SI (n : nat).

Section PROOF.
Variable c : nat -> nat -> nat.
Variables aa bb : list V.

Fixpoint align (fuel i j : nat) : list step :=
  match fuel with
  | O => []
  | S f =>
    if (0 <? i)%nat && (0 <? j)%nat && eqat aa bb i j then SK :: align f (i - 1) (j - 1)
    else if (0 <? j)%nat && ((i =? 0)%nat || (c (i - 1) j <=? c i (j - 1))%nat) then SI (j - 1) :: align f i (j - 1)
    else if (0 <? i)%nat && ((j =? 0)%nat || (c i (j - 1) <? c (i - 1) j)%nat) then SD (i - 1) :: align f (i - 1) j
    else []
  end.

Definition nK (L : list step) := length (filter (fun s => match s with SK => true | _ => false end) L).
Definition nD (L : list step) := length (filter (fun s => match s with SD _ => true | _ => false end) L).
Definition nI (L : list step) := length (filter (fun s => match s with SI _ => true | _ => false end) L).

(* replay of the accumulators over a step list *)
Fixpoint acc (L : list step) (i : nat) (s : nat) (r : Z) (rems : list event) (adds : list (nat * Z * Z)) :=
  match L with
  | [] => (rems, adds, r)
  | SK :: L' => acc L' (i - 1) s r rems adds
  | SI n :: L' => acc L' i s r rems (adds ++ [(n, Z.of_nat (i + s), r)])
  | SD p :: L' => acc L' (i - 1) s (r + 1) (rems ++ [Remove (Z.of_nat (i + s) - 1)]) adds
  end.

Lemma bt_acc : forall fuel i j s r rems adds,
  bt c aa bb fuel i j (Z.of_nat (i + s)) r rems adds = acc (align fuel i j) i s r rems adds.
Proof.
  induction fuel as [|f IH]; intros i j s r rems adds; cbn [bt align acc]; [reflexivity|].
  destruct ((0 <? i)%nat && (0 <? j)%nat && eqat aa bb i j) eqn:E1.
  - cbn [acc]. apply andb_prop in E1 as [E1 _]. apply andb_prop in E1 as [Hi Hj].
    apply Nat.ltb_lt in Hi.
    replace (Z.of_nat (i + s) - 1) with (Z.of_nat ((i - 1) + s)) by lia. apply IH.
  - destruct ((0 <? j)%nat && ((i =? 0)%nat || (c (i - 1) j <=? c i (j - 1))%nat)) eqn:E2.
    + cbn [acc]. apply IH.
    + destruct ((0 <? i)%nat && ((j =? 0)%nat || (c i (j - 1) <? c (i - 1) j)%nat)) eqn:E3.
      * cbn [acc]. apply andb_prop in E3 as [Hi _]. apply Nat.ltb_lt in Hi.
        replace (Z.of_nat (i + s) - 1) with (Z.of_nat ((i - 1) + s)) by lia. apply IH.
      * reflexivity.
Qed.

(* validity of a step list in backtrack order: from (i,j) down to (0,0) *)
Inductive bwd : list step -> nat -> nat -> Prop :=
| bwd_nil : bwd [] 0 0
| bwd_K : forall L i j x y,
    nth_error aa i = Some x -> nth_error bb j = Some y -> veq x y = true ->
    bwd L i j -> bwd (SK :: L) (S i) (S j)
| bwd_D : forall L i j x,
    nth_error aa i = Some x -> bwd L i j -> bwd (SD i :: L) (S i) j
| bwd_I : forall L i j y,
    nth_error bb j = Some y -> bwd L i j -> bwd (SI j :: L) i (S j).

Lemma align_bwd : forall fuel i j,
  (i <= length aa)%nat -> (j <= length bb)%nat -> (i + j <= fuel)%nat ->
  bwd (align fuel i j) i j.
Proof.
  induction fuel as [|f IH]; intros i j Hi Hj Hf.
  - assert (i = 0%nat) by lia. assert (j = 0%nat) by lia. subst. cbn. constructor.
  - cbn [align].
    destruct ((0 <? i)%nat && (0 <? j)%nat && eqat aa bb i j) eqn:E1.
    + apply andb_prop in E1 as [E1 Heq]. apply andb_prop in E1 as [Hi0 Hj0].
      apply Nat.ltb_lt in Hi0. apply Nat.ltb_lt in Hj0.
      destruct i as [|i']; [lia|]. destruct j as [|j']; [lia|].
      unfold eqat in Heq.
      replace (S i' - 1)%nat with i' in * by lia. replace (S j' - 1)%nat with j' in * by lia.
      destruct (nth_error aa i') as [x|] eqn:Ex; [|discriminate].
      destruct (nth_error bb j') as [y|] eqn:Ey; [|discriminate].
      eapply bwd_K; eauto. apply IH; lia.
    + destruct ((0 <? j)%nat && ((i =? 0)%nat || (c (i - 1) j <=? c i (j - 1))%nat)) eqn:E2.
      * apply andb_prop in E2 as [Hj0 _]. apply Nat.ltb_lt in Hj0.
        destruct j as [|j']; [lia|].
        replace (S j' - 1)%nat with j' in * by lia.
        destruct (nth_error bb j') as [y|] eqn:Ey.
        2:{ apply nth_error_None in Ey. lia. }
        eapply bwd_I; eauto. apply IH; lia.
      * destruct ((0 <? i)%nat && ((j =? 0)%nat || (c i (j - 1) <? c (i - 1) j)%nat)) eqn:E3.
        -- apply andb_prop in E3 as [Hi0 _]. apply Nat.ltb_lt in Hi0.
           destruct i as [|i']; [lia|].
           replace (S i' - 1)%nat with i' in * by lia.
           destruct (nth_error aa i') as [x|] eqn:Ex.
           2:{ apply nth_error_None in Ex. lia. }
           eapply bwd_D; eauto. apply IH; lia.
        -- assert (i = 0%nat /\ j = 0%nat) as [Hi00 Hj00].
           { clear E1 IH.
             destruct (Nat.ltb_spec 0 j), (Nat.eqb_spec i 0),
                      (Nat.leb_spec (c (i - 1) j) (c i (j - 1))),
                      (Nat.ltb_spec 0 i), (Nat.eqb_spec j 0),
                      (Nat.ltb_spec (c i (j - 1)) (c (i - 1) j));
               cbn in E2, E3; try discriminate E2; try discriminate E3; lia. }
           subst i j. constructor.
Qed.

Lemma bwd_counts : forall L i j, bwd L i j ->
  (i = nK L + nD L /\ j = nK L + nI L)%nat.
Proof.
  induction 1; unfold nK, nD, nI in *; cbn [filter length] in *; lia.
Qed.

(* closed form of the accumulators *)
Fixpoint R (L : list step) (i s : nat) : list event :=
  match L with
  | [] => []
  | SK :: L' => R L' (i - 1) s
  | SI _ :: L' => R L' i s
  | SD _ :: L' => Remove (Z.of_nat (i + s) - 1) :: R L' (i - 1) s
  end.
Fixpoint A (L : list step) (i s : nat) (r : Z) : list (nat * Z * Z) :=
  match L with
  | [] => []
  | SK :: L' => A L' (i - 1) s r
  | SI n :: L' => (n, Z.of_nat (i + s), r) :: A L' i s r
  | SD _ :: L' => A L' (i - 1) s (r + 1)
  end.

Lemma acc_closed : forall L i s r rems adds,
  acc L i s r rems adds = (rems ++ R L i s, adds ++ A L i s r, r + Z.of_nat (nD L)).
Proof.
  induction L as [|st L IH]; intros; cbn [acc R A].
  - unfold nD; cbn. rewrite !app_nil_r. f_equal. lia.
  - destruct st; rewrite IH; unfold nD; cbn [filter length]; rewrite <- ?app_assoc; cbn [app]; f_equal; lia.
Qed.

Lemma A_length : forall L i s r, length (A L i s r) = nI L.
Proof.
  induction L as [|st L IH]; intros; cbn [A]; unfold nI in *; cbn [filter length]; [reflexivity|].
  destruct st; cbn [length]; rewrite ?IH; reflexivity.
Qed.

(* the adds the Go code finally emits, in emission order *)
Fixpoint addsF (L : list step) (s : nat) : list event :=
  match L with
  | [] => []
  | SK :: L' => addsF L' s
  | SD _ :: L' => addsF L' s
  | SI n :: L' => addsF L' s ++ match nth_error bb n with Some v => [Add (Z.of_nat (s + n)) v] | None => [] end
  end.

Lemma emit_adds_app : forall xs ys k l r,
  emit_adds bb k l r (xs ++ ys) = emit_adds bb k l r xs ++ emit_adds bb (k - Z.of_nat (length xs)) l r ys.
Proof.
  induction xs as [|[[n idx] ar] xs IH]; intros; cbn [app emit_adds length].
  - f_equal. lia.
  - replace (k - Z.of_nat (S (length xs))) with (k - 1 - Z.of_nat (length xs)) by lia.
    destruct (nth_error bb n); cbn [app]; rewrite IH; reflexivity.
Qed.

(* the index arithmetic of "Do the adds" always lands on s + n *)
Lemma emit_spec : forall L i j, bwd L i j -> forall s r0 kpre,
  forall l rT, l = kpre + Z.of_nat (nI L) - 1 -> rT = r0 + Z.of_nat (nD L) ->
  emit_adds bb (kpre + Z.of_nat (nI L) - 1) l rT (rev (A L i s r0)) = addsF L s.
Proof.
  induction 1 as [|L i j x y Hx Hy Hxy Hb IH|L i j x Hx Hb IH|L i j y Hy Hb IH];
    intros s r0 kpre l rT Hl HrT.
  - reflexivity.
  - cbn [A addsF]. replace (S i - 1)%nat with i by lia.
    unfold nI, nD in *; cbn [filter length] in *. apply IH; auto.
  - cbn [A addsF]. replace (S i - 1)%nat with i by lia.
    unfold nI, nD in *; cbn [filter length] in *.
    replace rT with ((r0 + 1) + Z.of_nat (length (filter (fun s0 => match s0 with SD _ => true | _ => false end) L))) by lia.
    apply IH; auto.
  - cbn [A addsF rev]. rewrite emit_adds_app, rev_length, A_length.
    pose proof (bwd_counts _ _ _ Hb) as [Hci Hcj].
    unfold nI, nD in *; cbn [filter length] in *.
    f_equal.
    + replace (kpre + Z.of_nat (S (length (filter (fun s0 => match s0 with SI _ => true | _ => false end) L))) - 1)
        with ((kpre + 1) + Z.of_nat (length (filter (fun s0 => match s0 with SI _ => true | _ => false end) L)) - 1) by lia.
      apply IH; auto; lia.
    + cbn [emit_adds]. rewrite Hy. f_equal. f_equal. unfold nK in *. lia.
Qed.

(* ---------- realisation: removes (descending), then adds (ascending) ---------- *)
Definition opt (o : option V) : list V := match o with Some x => [x] | None => [] end.

Fixpoint kept (L : list step) (i : nat) : list V :=
  match L with
  | [] => []
  | SK :: L' => kept L' (i - 1) ++ opt (nth_error aa (i - 1))
  | SD _ :: L' => kept L' (i - 1)
  | SI _ :: L' => kept L' i
  end.
Fixpoint tgt (L : list step) (i : nat) : list V :=
  match L with
  | [] => []
  | SK :: L' => tgt L' (i - 1) ++ opt (nth_error aa (i - 1))
  | SD _ :: L' => tgt L' (i - 1)
  | SI n :: L' => tgt L' i ++ opt (nth_error bb n)
  end.

Lemma firstn_S_nth : forall (l : list V) i x, nth_error l i = Some x -> firstn (S i) l = firstn i l ++ [x].
Proof.
  induction l as [|h t IH]; intros [|i] x H; cbn in *; try discriminate.
  - inversion H; reflexivity.
  - f_equal. apply IH; assumption.
Qed.

Lemma remove_at_app : forall (p : list V) x q, remove_at (length p) (p ++ x :: q) = Some (p ++ q).
Proof. induction p as [|h t IH]; intros; cbn; [reflexivity|]. rewrite IH. reflexivity. Qed.

Lemma insert_at_app : forall (p : list V) v q, insert_at (length p) v (p ++ q) = Some (p ++ v :: q).
Proof.
  induction p as [|h t IH]; intros; cbn.
  - destruct q; reflexivity.
  - rewrite IH. reflexivity.
Qed.

Lemma apply_evs_app : forall es1 es2 l l1,
  apply_evs es1 l = Some l1 -> apply_evs (es1 ++ es2) l = apply_evs es2 l1.
Proof.
  induction es1 as [|e es IH]; intros es2 l l1 H; cbn in *.
  - inversion H; reflexivity.
  - destruct (apply_ev e l) as [l'|]; [|discriminate]. eapply IH; eassumption.
Qed.

Lemma nth_error_lt : forall (l : list V) i x, nth_error l i = Some x -> (i < length l)%nat.
Proof. intros l i x H. apply nth_error_Some. congruence. Qed.

Lemma rem_ok : forall L i j, bwd L i j -> forall s pre rest, length pre = s ->
  apply_evs (R L i s) (pre ++ firstn i aa ++ rest) = Some (pre ++ kept L i ++ rest).
Proof.
  induction 1 as [|L i j x y Hx Hy Hxy Hb IH|L i j x Hx Hb IH|L i j y Hy Hb IH]; intros s pre rest Hs.
  - reflexivity.
  - cbn [R kept]. replace (S i - 1)%nat with i by lia. rewrite Hx. cbn [opt].
    rewrite (firstn_S_nth _ _ _ Hx), <- !app_assoc. cbn [app]. apply IH; assumption.
  - cbn [R kept apply_evs]. replace (S i - 1)%nat with i by lia.
    rewrite (firstn_S_nth _ _ _ Hx), <- app_assoc. cbn [app].
    pose proof (nth_error_lt _ _ _ Hx) as Hlt.
    unfold apply_ev.
    replace (Z.of_nat (S i + s) - 1) with (Z.of_nat (length (pre ++ firstn i aa))).
    2:{ rewrite app_length, firstn_length_le by lia. lia. }
    destruct (Z.of_nat (length (pre ++ firstn i aa)) <? 0) eqn:Eneg; [apply Z.ltb_lt in Eneg; lia|].
    rewrite Nat2Z.id, app_assoc, remove_at_app, <- app_assoc. apply IH; assumption.
  - cbn [R kept]. apply IH; assumption.
Qed.

Lemma add_ok : forall L i j, bwd L i j -> forall s pre rest, length pre = s ->
  apply_evs (addsF L s) (pre ++ kept L i ++ rest) = Some (pre ++ tgt L i ++ rest) /\ length (tgt L i) = j.
Proof.
  induction 1 as [|L i j x y Hx Hy Hxy Hb IH|L i j x Hx Hb IH|L i j y Hy Hb IH]; intros s pre rest Hs.
  - split; reflexivity.
  - cbn [addsF kept tgt]. replace (S i - 1)%nat with i by lia. rewrite Hx. cbn [opt].
    rewrite <- !app_assoc. cbn [app]. destruct (IH s pre (x :: rest) Hs) as [H1 H2]. split; [exact H1|].
    rewrite app_length. cbn. lia.
  - cbn [addsF kept tgt]. replace (S i - 1)%nat with i by lia. apply IH; assumption.
  - cbn [addsF kept tgt]. rewrite Hy. cbn [opt]. destruct (IH s pre rest Hs) as [H1 H2]. split.
    + rewrite (apply_evs_app _ _ _ _ H1). cbn [apply_evs apply_ev].
      destruct (Z.of_nat (s + j) <? 0) eqn:Eneg; [apply Z.ltb_lt in Eneg; lia|].
      rewrite Nat2Z.id. replace (s + j)%nat with (length (pre ++ tgt L i)) by (rewrite app_length; lia).
      rewrite app_assoc, insert_at_app, <- !app_assoc. reflexivity.
    + rewrite app_length. cbn. lia.
Qed.

Definition vrel (x y : V) : Prop := x = y \/ veq x y = true.

Lemma tgt_rel : forall L i j, bwd L i j -> Forall2 vrel (tgt L i) (firstn j bb).
Proof.
  induction 1 as [|L i j x y Hx Hy Hxy Hb IH|L i j x Hx Hb IH|L i j y Hy Hb IH].
  - constructor.
  - cbn [tgt]. replace (S i - 1)%nat with i by lia. rewrite Hx, (firstn_S_nth _ _ _ Hy). cbn [opt].
    apply Forall2_app; [assumption|]. constructor; [right; assumption|constructor].
  - cbn [tgt]. replace (S i - 1)%nat with i by lia. assumption.
  - cbn [tgt]. rewrite Hy, (firstn_S_nth _ _ _ Hy). cbn [opt].
    apply Forall2_app; [assumption|]. constructor; [left; reflexivity|constructor].
Qed.

(* core statement: the trimmed problem, embedded between an untouched prefix and suffix *)
Theorem core_patch : forall s pre rest, length pre = s ->
  let m := length aa in let n := length bb in
  let '(rems, adds, r) := bt c aa bb (m + n) m n (Z.of_nat (m + s)) 0 [] [] in
  let l := Z.of_nat (length adds) - 1 in
  exists mid, apply_evs (rems ++ emit_adds bb l l r (rev adds)) (pre ++ aa ++ rest) = Some (pre ++ mid ++ rest)
              /\ Forall2 vrel mid bb.
Proof.
  intros s pre rest Hs m n.
  rewrite bt_acc, acc_closed. cbn [app].
  set (L := align (m + n) m n).
  assert (Hb : bwd L m n) by (apply align_bwd; lia).
  rewrite A_length.
  exists (tgt L m). split.
  - pose proof (rem_ok _ _ _ Hb s pre rest Hs) as Hr.
    unfold m in Hr at 2. rewrite firstn_all in Hr.
    rewrite (apply_evs_app _ _ _ _ Hr).
    replace (Z.of_nat (nI L) - 1) with (0 + Z.of_nat (nI L) - 1) by lia.
    rewrite (emit_spec _ _ _ Hb s 0 0); try lia.
    apply (add_ok _ _ _ Hb s pre rest Hs).
  - pose proof (tgt_rel _ _ _ Hb) as Ht. unfold n in Ht. rewrite firstn_all in Ht. exact Ht.
Qed.

End PROOF.

(* ---------- top level: prefix / suffix trimming ---------- *)

Lemma cpre_spec : forall a b,
  Forall2 vrel (firstn (cpre a b) a) (firstn (cpre a b) b) /\
  (cpre a b <= length a)%nat /\ (cpre a b <= length b)%nat.
Proof.
  induction a as [|x a IH]; intros [|y b]; cbn; try (repeat split; try constructor; lia).
  destruct (veq x y) eqn:E; cbn.
  - destruct (IH b) as (H1 & H2 & H3). repeat split; try lia.
    constructor; [right; assumption|assumption].
  - repeat split; try constructor; lia.
Qed.

Lemma Forall2_rev' : forall (l1 l2 : list V), Forall2 vrel l1 l2 -> Forall2 vrel (rev l1) (rev l2).
Proof.
  induction 1; cbn; [constructor|]. apply Forall2_app; [assumption|]. constructor; [assumption|constructor].
Qed.

Theorem lcs_patch : forall (c : list V -> list V -> nat -> nat -> nat) (a b : list V),
  exists b', apply_evs (lcs_with c a b) a = Some b' /\ Forall2 vrel b' b.
Proof.
  intros c a b. unfold lcs_with.
  destruct (cpre_spec a b) as (Hpre & Hsa & Hsb).
  set (s := cpre a b) in *.
  destruct ((s =? length a)%nat && (s =? length b)%nat) eqn:Eall.
  - apply andb_prop in Eall as [Ea Eb]. apply Nat.eqb_eq in Ea. apply Nat.eqb_eq in Eb.
    exists a. split; [reflexivity|]. rewrite Ea in Hpre at 1. rewrite Eb in Hpre. rewrite !firstn_all in Hpre. exact Hpre.
  - set (a1 := skipn s a). set (b1 := skipn s b).
    destruct (cpre_spec (rev a1) (rev b1)) as (Hsuf & Hta & Htb).
    set (t := cpre (rev a1) (rev b1)) in *.
    rewrite !rev_length in Hta, Htb.
    rewrite !firstn_rev in Hsuf. apply Forall2_rev' in Hsuf. rewrite !rev_involutive in Hsuf.
    set (aa := firstn (length a1 - t) a1). set (bb := firstn (length b1 - t) b1).
    set (sa := skipn (length a1 - t) a1) in *. set (sb := skipn (length b1 - t) b1) in *.
    assert (Ha : a = firstn s a ++ aa ++ sa).
    { unfold aa, sa, a1. rewrite firstn_skipn, firstn_skipn. reflexivity. }
    assert (Hb : b = firstn s b ++ bb ++ sb).
    { unfold bb, sb, b1. rewrite firstn_skipn, firstn_skipn. reflexivity. }
    assert (Hls : length (firstn s a) = s) by (apply firstn_length_le; assumption).
    pose proof (core_patch (c aa bb) aa bb s (firstn s a) sa Hls) as Hcore. cbn zeta in Hcore.
    destruct (bt (c aa bb) aa bb (length aa + length bb) (length aa) (length bb)
                 (Z.of_nat (length aa + s)) 0 [] []) as [[rems adds] r] eqn:Ebt.
    destruct Hcore as (mid & Happ & Hmid).
    exists (firstn s a ++ mid ++ sa). split.
    + rewrite Ha at 1. exact Happ.
    + rewrite Hb. apply Forall2_app; [exact Hpre|]. apply Forall2_app; [|exact Hsuf].
      exact Hmid.
Qed.

(* unchanged content yields no event *)
Theorem lcs_same_nil : forall c a b,
  Forall2 (fun x y => veq x y = true) a b -> lcs_with c a b = [].
Proof.
  intros c a b H. unfold lcs_with.
  assert (E : cpre a b = length a /\ length a = length b).
  { induction H as [|x y a b Hxy H IH]; cbn; [split; reflexivity|]. rewrite Hxy. destruct IH; split; lia. }
  destruct E as [E1 E2]. rewrite E1, <- E2, Nat.eqb_refl. reflexivity.
Qed.

End LCS.

Print Assumptions lcs_patch.
Print Assumptions lcs_same_nil.

(* non-vacuity / sanity: run the model on a concrete pair with an always-zero table *)
Definition zero_tab (_ _ : list nat) (_ _ : nat) : nat := 0%nat.
Eval vm_compute in lcs_with Nat.eqb zero_tab [1;2;3;4;2]%nat [1;3;2;5;2]%nat.
Eval vm_compute in apply_evs (lcs_with Nat.eqb zero_tab [1;2;3;4;2]%nat [1;3;2;5;2]%nat) [1;2;3;4;2]%nat.
