(* C14/C16: models of server.PathToRID, PathToRIDAction, RIDToPath (apiEncoding.go:42-127) with
   net/url's PathUnescape / PathEscape (modelled: url.go unescape/escape in encodePathSegment mode). *)
From Coq Require Import List Ascii NArith Bool Arith Lia.
Import ListNotations.

Definition is (c d : ascii) : bool := Ascii.eqb c d.
Definition dot : ascii := "."%char.
Definition slash : ascii := "/"%char.
Definition pct : ascii := "%"%char.
Definition qm : ascii := "?"%char.

Definition hexval (c : ascii) : option N :=
  let n := N_of_ascii c in
  if (48 <=? n)%N && (n <=? 57)%N then Some (n - 48)%N
  else if (97 <=? n)%N && (n <=? 102)%N then Some (n - 87)%N
  else if (65 <=? n)%N && (n <=? 70)%N then Some (n - 55)%N
  else None.

(* url.PathUnescape: None on a malformed escape *)
Fixpoint unescape (s : list ascii) : option (list ascii) :=
  match s with
  | [] => Some []
  | c :: s' =>
      if is c pct then
        match s' with
        | h :: l :: s'' =>
            match hexval h, hexval l, unescape s'' with
            | Some a, Some b, Some r => Some (ascii_of_N (a * 16 + b) :: r)
            | _, _, _ => None
            end
        | _ => None
        end
      else match unescape s' with Some r => Some (c :: r) | None => None end
  end.

Definition hexdigit (n : N) : ascii :=
  if (n <? 10)%N then ascii_of_N (48 + n) else ascii_of_N (55 + n).

(* url.shouldEscape(c, encodePathSegment) *)
Definition should_escape (c : ascii) : bool :=
  let n := N_of_ascii c in
  if ((97 <=? n) && (n <=? 122) || (65 <=? n) && (n <=? 90) || (48 <=? n) && (n <=? 57))%N then false
  else if is c "-" || is c "_" || is c "." || is c "~" then false
  else if is c "$" || is c "&" || is c "+" || is c ":" || is c "=" || is c "@" then false
  else true.

Fixpoint escape (s : list ascii) : list ascii :=
  match s with
  | [] => []
  | c :: s' =>
      if should_escape c then
        let n := N_of_ascii c in pct :: hexdigit (n / 16) :: hexdigit (n mod 16) :: escape s'
      else c :: escape s'
  end.

Fixpoint has_prefix (s p : list ascii) : option (list ascii) :=   (* Some rest *)
  match p, s with
  | [], _ => Some s
  | c :: p', d :: s' => if is c d then has_prefix s' p' else None
  | _ :: _, [] => None
  end.

Fixpoint split_slash (l cur : list ascii) : list (list ascii) :=
  match l with
  | [] => [rev cur]
  | c :: l' => if is c slash then rev cur :: split_slash l' [] else split_slash l' (c :: cur)
  end.

Fixpoint unescape_all (ps : list (list ascii)) : option (list (list ascii)) :=
  match ps with
  | [] => Some []
  | p :: ps' => match unescape p, unescape_all ps' with
                | Some a, Some r => Some (a :: r)
                | _, _ => None
                end
  end.

Fixpoint join_dot (ps : list (list ascii)) : list ascii :=
  match ps with
  | [] => []
  | [p] => p
  | p :: ps' => p ++ dot :: join_dot ps'
  end.

Definition add_query (rid query : list ascii) : list ascii :=
  match query with [] => rid | _ => rid ++ qm :: query end.

(* the common front part: strip the prefix, refuse dots, drop one leading slash, split *)
Definition path_parts (path prefix : list ascii) : option (list (list ascii)) :=
  if Nat.eqb (length path) (length prefix) then None else
  match has_prefix path prefix with
  | None => None
  | Some rest =>
      if existsb (fun c => is c dot) rest then None else
      let rest := match rest with c :: r => if is c slash then r else rest | [] => rest end in
      unescape_all (split_slash rest [])
  end.

Definition path_to_rid (path query prefix : list ascii) : list ascii :=
  match path_parts path prefix with
  | None => []
  | Some parts => add_query (join_dot parts) query
  end.

Definition path_to_rid_action (path query prefix : list ascii) : list ascii * list ascii :=
  match path_parts path prefix with
  | None => ([], [])
  | Some parts =>
      match rev parts with
      | [] | [_] => ([], [])
      | act :: rinit => (add_query (join_dot (rev rinit)) query, act)
      end
  end.

Definition rid_to_path (rid prefix : list ascii) : list ascii :=
  match rid with
  | [] => []
  | _ => prefix ++ map (fun c => if is c dot then slash else c) (escape rid)
  end.
