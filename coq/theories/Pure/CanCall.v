(* Feasibility sketch for C05: model of rescache.Access.CanCall's list scanner
   (server/rescache/access.go:30-61) and its specification for all strings. *)
From Coq Require Import List Ascii String Bool Arith Lia.
Import ListNotations.

Definition comma : ascii := ","%char.
Definition star : ascii := "*"%char.

Fixpoint leqb (a b : list ascii) : bool :=
  match a, b with
  | [], [] => true
  | x :: a', y :: b' => Ascii.eqb x y && leqb a' b'
  | _, _ => false
  end.
Lemma leqb_eq a b : leqb a b = true <-> a = b.
Proof.
  revert b; induction a as [|x a IH]; intros [|y b]; cbn; split; intros H; try discriminate; try reflexivity.
  - apply andb_prop in H as [H1 H2]. apply Ascii.eqb_eq in H1. apply IH in H2. congruence.
  - inversion H; subst. rewrite Ascii.eqb_refl. cbn. apply IH. reflexivity.
Qed.

(* The Go loop walks i from len(s)-1 down to -1, e marks the end of the current entry.
   Structurally: walk the reversed string, accumulating the current entry. *)
Fixpoint scan (r seg act : list ascii) : bool :=
  match r with
  | [] => leqb seg act                                   (* i == -1 *)
  | c :: r' => if Ascii.eqb c comma
               then (if leqb seg act then true else scan r' [] act)   (* s[i] == ',' *)
               else scan r' (c :: seg) act
  end.

Definition can_call (call act : list ascii) : bool :=
  if leqb call [star] then true
  else match call with [] => false | _ => scan (rev call) [] act end.

(* specification: the comma separated entries, left to right *)
Fixpoint split_c (l cur : list ascii) : list (list ascii) :=
  match l with
  | [] => [rev cur]
  | c :: l' => if Ascii.eqb c comma then rev cur :: split_c l' [] else split_c l' (c :: cur)
  end.
Definition entries (l : list ascii) := split_c l [].

Definition comma_free (l : list ascii) := forallb (fun c => negb (Ascii.eqb c comma)) l = true.

Lemma split_free : forall seg cur, comma_free seg -> split_c seg cur = [rev cur ++ seg].
Proof.
  induction seg as [|c seg IH]; intros cur H; cbn.
  - rewrite app_nil_r. reflexivity.
  - unfold comma_free in H. cbn in H. apply andb_prop in H as [Hc Hs].
    apply negb_true_iff in Hc. rewrite Hc. rewrite IH by exact Hs. cbn. rewrite <- app_assoc. reflexivity.
Qed.

Lemma split_app_comma : forall l cur seg, comma_free seg ->
  split_c (l ++ comma :: seg) cur = split_c l cur ++ [seg].
Proof.
  induction l as [|c l IH]; intros cur seg H; cbn.
  - rewrite (split_free seg [] H). reflexivity.
  - destruct (Ascii.eqb c comma); cbn; rewrite IH by exact H; reflexivity.
Qed.

Lemma scan_spec : forall l1 seg act, comma_free seg ->
  scan (rev l1) seg act = existsb (fun e => leqb e act) (entries (l1 ++ seg)).
Proof.
  induction l1 as [|c l1 IH] using rev_ind; intros seg act Hf.
  - cbn. unfold entries. rewrite (split_free seg [] Hf). cbn. rewrite orb_false_r. reflexivity.
  - rewrite rev_app_distr. cbn [rev app scan].
    destruct (Ascii.eqb c comma) eqn:Ec.
    + apply Ascii.eqb_eq in Ec. subst c. rewrite <- app_assoc. cbn [app].
      unfold entries. rewrite (split_app_comma l1 [] seg Hf), existsb_app. cbn.
      rewrite orb_false_r. specialize (IH [] act eq_refl). rewrite app_nil_r in IH. unfold entries in IH.
      destruct (leqb seg act); [rewrite orb_true_r; reflexivity|]. rewrite orb_false_r. exact IH.
    + rewrite <- app_assoc. cbn [app]. apply IH.
      unfold comma_free in *. cbn. rewrite Ec. cbn. exact Hf.
Qed.

(* C05: granted iff the list is exactly "*" or the method is an exact entry of a non-empty list *)
Theorem can_call_spec : forall call act,
  can_call call act = true <-> call = [star] \/ (call <> [] /\ In act (entries call)).
Proof.
  intros call act. unfold can_call.
  destruct (leqb call [star]) eqn:Es.
  - apply leqb_eq in Es. split; auto.
  - assert (Hns : call <> [star]) by (intros E; apply leqb_eq in E; congruence).
    destruct call as [|c call].
    + split; [discriminate|]. intros [H|[H _]]; [discriminate|congruence].
    + pose proof (scan_spec (c :: call) [] act eq_refl) as Hs. rewrite app_nil_r in Hs. rewrite Hs.
      rewrite existsb_exists. split.
      * intros (e & Hin & He). apply leqb_eq in He. subst. right. split; [discriminate|exact Hin].
      * intros [H|[_ Hin]]; [congruence|]. exists act. split; [exact Hin|]. apply leqb_eq. reflexivity.
Qed.
Print Assumptions can_call_spec.

(* non-vacuity and the boundary cases named in the property *)
Definition s2l (s : string) := list_ascii_of_string s.
Example ex1 : can_call (s2l "set,foo,bar") (s2l "foo") = true. Proof. reflexivity. Qed.
Example ex2 : can_call (s2l "set,foobar") (s2l "foo") = false. Proof. reflexivity. Qed.   (* prefix *)
Example ex3 : can_call (s2l "xfoo,bar") (s2l "foo") = false. Proof. reflexivity. Qed.     (* suffix *)
Example ex4 : can_call (s2l "") (s2l "foo") = false. Proof. reflexivity. Qed.
Example ex5 : can_call (s2l "*") (s2l "anything") = true. Proof. reflexivity. Qed.
Example ex6 : can_call (s2l "a,*") (s2l "b") = false. Proof. reflexivity. Qed.            (* star only alone *)
