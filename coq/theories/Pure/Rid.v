(* Feasibility sketch for C14: model of codec.IsValidRID (server/codec/codec.go:786-809), byte level,
   and the statement that an accepted rid yields a clean NATS subject part. *)
From Coq Require Import List Ascii NArith Bool Arith Lia.
Import ListNotations.

Definition is (c d : ascii) : bool := Ascii.eqb c d.
Definition dot : ascii := "."%char.
Definition qm : ascii := "?"%char.
Definition star : ascii := "*"%char.
Definition gt : ascii := ">"%char.

(* r < 33 || r > 126 || r == '*' || r == '>'   (bytes >= 0x80 decode to runes > 126) *)
Definition bad (c : ascii) : bool :=
  let n := N_of_ascii c in (n <? 33)%N || (126 <? n)%N || is c star || is c gt.

Fixpoint vrid (l : list ascii) (allowQuery start : bool) : bool :=
  match l with
  | [] => negb start
  | c :: l' =>
      if is c qm then allowQuery && negb start
      else if bad c then false
      else if is c dot then (if start then false else vrid l' allowQuery true)
      else vrid l' allowQuery false
  end.
Definition is_valid_rid (l : list ascii) (allowQuery : bool) : bool := vrid l allowQuery true.

(* parseRID: the resource name is everything before the first '?' *)
Fixpoint name_of (l : list ascii) : list ascii :=
  match l with [] => [] | c :: l' => if is c qm then [] else c :: name_of l' end.

(* specification: a clean subject part *)
Definition okc (c : ascii) : bool :=
  let n := N_of_ascii c in (33 <=? n)%N && (n <=? 126)%N && negb (is c star) && negb (is c gt) && negb (is c qm) && negb (is c dot).
Fixpoint split_dot (l cur : list ascii) : list (list ascii) :=
  match l with
  | [] => [rev cur]
  | c :: l' => if is c dot then rev cur :: split_dot l' [] else split_dot l' (c :: cur)
  end.
Definition tok_ok (t : list ascii) : Prop := t <> [] /\ forallb okc t = true.
Definition clean (name : list ascii) : Prop := Forall tok_ok (split_dot name []).

Lemma okc_of c : is c qm = false -> bad c = false -> is c dot = false -> okc c = true.
Proof.
  unfold bad, okc. intros Hq Hb Hd. apply orb_false_iff in Hb as [Hb Hg]. apply orb_false_iff in Hb as [Hb Hs].
  apply orb_false_iff in Hb as [H1 H2]. apply N.ltb_ge in H1. apply N.ltb_ge in H2.
  rewrite Hq, Hd, Hs, Hg. cbn [negb]. rewrite !andb_true_r.
  apply andb_true_intro; split; apply N.leb_le; assumption.
Qed.

Lemma vrid_clean : forall l aq cur,
  forallb okc cur = true ->
  vrid l aq (match cur with [] => true | _ => false end) = true ->
  Forall tok_ok (split_dot (name_of l) cur).
Proof.
  induction l as [|c l IH]; intros aq cur Hcur H; cbn in *.
  - destruct cur as [|x cur]; [discriminate|]. constructor; [|constructor]. split.
    + intros E. apply (f_equal (@length ascii)) in E. rewrite rev_length in E. discriminate.
    + rewrite forallb_forall in *. intros y Hy. apply Hcur. apply in_rev. exact Hy.
  - destruct (is c qm) eqn:Eq.
    + apply andb_prop in H as [_ H]. cbn. destruct cur as [|x cur]; [discriminate|].
      constructor; [|constructor]. split.
      * intros E. apply (f_equal (@length ascii)) in E. rewrite rev_length in E. discriminate.
      * rewrite forallb_forall in *. intros y Hy. apply Hcur. apply in_rev. exact Hy.
    + destruct (bad c) eqn:Eb; [discriminate|].
      destruct (is c dot) eqn:Ed; cbn [split_dot]; rewrite Ed.
      * destruct cur as [|x cur]; [discriminate|]. constructor.
        -- split.
           ++ intros E. apply (f_equal (@length ascii)) in E. rewrite rev_length in E. discriminate.
           ++ rewrite forallb_forall in *. intros y Hy. apply Hcur. apply in_rev. exact Hy.
        -- apply (IH aq []); [reflexivity|exact H].
      * apply (IH aq (c :: cur)).
        -- cbn. rewrite (okc_of c Eq Eb Ed). exact Hcur.
        -- exact H.
Qed.

(* C14: every accepted resource id has a name that is a clean subject part:
   non-empty dot-separated tokens of printable non-space ASCII without * > ? *)
Theorem valid_rid_subject_clean : forall l aq, is_valid_rid l aq = true -> clean (name_of l).
Proof. intros l aq H. apply (vrid_clean l aq []); [reflexivity|exact H]. Qed.
Print Assumptions valid_rid_subject_clean.

From Coq Require Import String.
Definition s2l (s : string) := list_ascii_of_string s.
Example v1 : is_valid_rid (s2l "test.model?a=1&b=*") true = true. Proof. reflexivity. Qed.
Example v2 : is_valid_rid (s2l "test.model?a=1") false = false. Proof. reflexivity. Qed.
Example v3 : is_valid_rid (s2l "test..model") true = false. Proof. reflexivity. Qed.
Example v4 : is_valid_rid (s2l "test.*") true = false. Proof. reflexivity. Qed.
Example v5 : is_valid_rid (s2l "test.mo del") true = false. Proof. reflexivity. Qed.
Example v6 : is_valid_rid (s2l "?q") true = false. Proof. reflexivity. Qed.
Example v7 : name_of (s2l "test.model?a.b") = s2l "test.model". Proof. reflexivity. Qed.
