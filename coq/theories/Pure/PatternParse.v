(* C12: model of rescache.ParseResourcePattern (resourcePattern.go:11-47) and of the complete
   ResourcePattern.Match (55-103, including the no-wildcard string comparison). Byte level: the Go
   loop ranges over runes, but rejects every rune > 126 at once, and every byte >= 0x80 decodes to
   a rune >= 0x80, so accept/reject coincide with the byte scan. *)
From Coq Require Import List Ascii NArith Bool Arith Lia.
From RG Require Import Pure.Pattern.
Import ListNotations.

Definition qm : ascii := "?"%char.
Definition badc (c : ascii) : bool :=
  let n := N_of_ascii c in (n <? 33)%N || (126 <? n)%N || is c qm.

(* loop state: start, alone, hasWild; [rest] is p[i:] so "i < l-1" is "rest has more than one byte" *)
Fixpoint pscan (p : list ascii) (start alone wild : bool) : option bool :=
  match p with
  | [] => Some wild
  | c :: p' =>
      if is c dot then (if start then None else pscan p' true false wild)
      else if alone || badc c then None
      else if is c gt then
        (if negb start || (match p' with [] => false | _ => true end) then None else pscan p' false alone true)
      else if is c star then
        (if negb start then None else pscan p' false true true)
      else pscan p' false alone wild
  end.

(* Some hasWild for a valid pattern, None for an invalid one *)
Definition parse (p : list ascii) : option bool :=
  match p with
  | [] => None
  | _ => if is (last p dot) dot then None else pscan p true false false
  end.

Definition is_valid (p : list ascii) : bool := match parse p with Some _ => true | None => false end.

(* Match on the parsed pattern *)
Definition match_model (p s : list ascii) : bool :=
  match parse p with
  | None => false
  | Some false => leqb s p
  | Some true => pmatch p s
  end.
