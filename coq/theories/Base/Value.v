(* RES values as the gateway classifies them (codec.Value / ValueType, codec.go:196-330).
   Payloads are abstract: a primitive or data value is identified by a number standing for its JSON
   text, a reference by the number of its resource id. Value.Equal is veq. *)
From Coq Require Import List Arith Bool.
Import ListNotations.

Inductive value :=
| VPrim (n : nat)      (* ValueTypePrimitive: compared by raw JSON bytes *)
| VRef (r : nat)       (* ValueTypeReference: compared by rid *)
| VSoft (r : nat)      (* ValueTypeSoftReference *)
| VData (n : nat)      (* ValueTypeData *)
| VDelete.             (* ValueTypeDelete: the delete action *)

Definition veq (a b : value) : bool :=
  match a, b with
  | VPrim x, VPrim y => Nat.eqb x y
  | VRef x, VRef y => Nat.eqb x y
  | VSoft x, VSoft y => Nat.eqb x y
  | VData x, VData y => Nat.eqb x y
  | VDelete, VDelete => true
  | _, _ => false
  end.

Definition is_proper (v : value) : bool := match v with VDelete => false | _ => true end.

Lemma veq_refl v : veq v v = true.
Proof. destruct v; cbn; auto using Nat.eqb_refl. Qed.

Lemma veq_eq a b : veq a b = true <-> a = b.
Proof.
  destruct a, b; cbn; split; intros H; try discriminate; try reflexivity;
    try (apply Nat.eqb_eq in H; congruence); try (inversion H; apply Nat.eqb_refl).
Qed.

Lemma veq_sym a b : veq a b = veq b a.
Proof. destruct a, b; cbn; auto using Nat.eqb_sym. Qed.

(* association lists with nat keys: Go maps *)
Definition kv := list (nat * value).

Fixpoint lookup (k : nat) (m : kv) : option value :=
  match m with
  | [] => None
  | (k', v) :: m' => if Nat.eqb k k' then Some v else lookup k m'
  end.

Fixpoint remove_key (k : nat) (m : kv) : kv :=
  match m with
  | [] => []
  | (k', v) :: m' => if Nat.eqb k k' then remove_key k m' else (k', v) :: remove_key k m'
  end.

(* insertion keeps the list sorted by key when it was (canonical form for comparison) *)
Fixpoint set_key (k : nat) (v : value) (m : kv) : kv :=
  match m with
  | [] => [(k, v)]
  | (k', v') :: m' =>
      if Nat.eqb k k' then (k, v) :: m'
      else if Nat.ltb k k' then (k, v) :: (k', v') :: m'
      else (k', v') :: set_key k v m'
  end.

Definition keys (m : kv) : list nat := map fst m.
Definition has_key (k : nat) (m : kv) : bool := match lookup k m with Some _ => true | None => false end.
