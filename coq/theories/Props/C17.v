(* C17 — HTTP status mapping and meta limits. Property theorems only. *)
From Coq Require Import ZArith List.
From RG Require Import Pure.Status Proofs.StatusProofs.
Import ListNotations.
Open Scope Z_scope.

Theorem C17_error_status_table : forall c,
  error_status c =
    match c with
    | NotFound | MethodNotFound | Timeout => 404
    | AccessDenied => 401
    | Forbidden => 403
    | MethodNotAllowed => 405
    | SubjectTooLong => 414
    | InternalError => 500
    | ServiceUnavailable => 503
    | InvalidParams | InvalidQuery | NoSubscription | InvalidRequest | UnsupportedProtocol | Deleted
    | BadRequest | NotImplemented | OtherCode => 400
    end.
Proof. exact error_status_table. Qed.
Print Assumptions C17_error_status_table.

Theorem C17_meta_status_honoured_iff_300_599 : forall s, is_direct (Some s) = true <-> 300 <= s <= 599.
Proof. exact direct_iff_range. Qed.
Print Assumptions C17_meta_status_honoured_iff_300_599.

Theorem C17_meta_status_valid_iff : forall o,
  is_valid_status o = true <-> match o with None => True | Some s => 300 <= s <= 599 end.
Proof. exact valid_iff_absent_or_range. Qed.
Print Assumptions C17_meta_status_valid_iff.

Theorem C17_status_error_class : forall s,
  (400 <= s <= 499 -> In (status_error s) [AccessDenied; Forbidden; NotFound; MethodNotAllowed; Timeout; BadRequest]) /\
  (500 <= s <= 599 -> In (status_error s) [NotImplemented; ServiceUnavailable; Timeout; InternalError]) /\
  (s < 400 \/ 600 <= s -> status_error s = InternalError).
Proof. exact status_error_class. Qed.
Print Assumptions C17_status_error_class.
