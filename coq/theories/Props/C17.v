(* C17 — HTTP status mapping and meta limits. Property theorems only. *)
From Coq Require Import ZArith List.
From RG Require Import Pure.Status Proofs.StatusProofs.
Import ListNotations.
Open Scope Z_scope.

Theorem C17_error_status_table : forall c,
  error_status c =
    match c with
    | NotFound | MethodNotFound | Timeout => 404
    | AccessDenied => 401
    | Forbidden => 403
    | MethodNotAllowed => 405
    | SubjectTooLong => 414
    | InternalError => 500
    | ServiceUnavailable => 503
    | InvalidParams | InvalidQuery | NoSubscription | InvalidRequest | UnsupportedProtocol | Deleted
    | BadRequest | NotImplemented | OtherCode => 400
    end.
Proof. exact error_status_table. Qed.
Print Assumptions C17_error_status_table.

Theorem C17_meta_status_honoured_iff_300_599 : forall s, is_direct (Some s) = true <-> 300 <= s <= 599.
Proof. exact direct_iff_range. Qed.
Print Assumptions C17_meta_status_honoured_iff_300_599.

Theorem C17_meta_status_valid_iff : forall o,
  is_valid_status o = true <-> match o with None => True | Some s => 300 <= s <= 599 end.
Proof. exact valid_iff_absent_or_range. Qed.
Print Assumptions C17_meta_status_valid_iff.

Theorem C17_status_error_class : forall s,
  (400 <= s <= 499 -> In (status_error s) [AccessDenied; Forbidden; NotFound; MethodNotAllowed; Timeout; BadRequest]) /\
  (500 <= s <= 599 -> In (status_error s) [NotImplemented; ServiceUnavailable; Timeout; InternalError]) /\
  (s < 400 \/ 600 <= s -> status_error s = InternalError).
Proof. exact status_error_class. Qed.
Print Assumptions C17_status_error_class.

From Coq Require Import Ascii.
From RG Require Import Pure.Header Pure.Origin Proofs.HeaderProofs Proofs.OriginProofs.

(* Whatever header names, in whatever letter case, a service puts in its meta: after canonicalisation and merge the
   response's value for each protected name (Content-Type, Access-Control-Allow-Origin,
   Access-Control-Allow-Credentials, Sec-Websocket-Extensions, Sec-Websocket-Protocol) is untouched. *)
Theorem C17_protected_never_replaced : forall resp meta k,
  is_protected k = true -> hget k (apply_meta resp meta) = hget k resp.
Proof. exact protected_never_replaced. Qed.
Print Assumptions C17_protected_never_replaced.

(* Every key the merge adds is canonical and unprotected: no second spelling ("content-type") can sneak in. *)
Theorem C17_merged_keys_canonical : forall resp meta k v,
  In (k, v) (apply_meta resp meta) -> (exists v', In (k, v') resp) \/ (canon k = k /\ is_protected k = false).
Proof. exact merged_keys_canonical. Qed.
Print Assumptions C17_merged_keys_canonical.

(* Set-Cookie values accumulate. *)
Theorem C17_set_cookie_accumulates : forall resp b,
  NoDup (map fst b) ->
  hget set_cookie (merge resp b) =
    match hget set_cookie b with
    | Some v => Some ((match hget set_cookie resp with Some w => w | None => [] end) ++ v)
    | None => hget set_cookie resp
    end.
Proof. exact set_cookie_accumulates. Qed.
Print Assumptions C17_set_cookie_accumulates.

(* With a lower-cased allow-list (the configuration lower-cases it), an origin is admitted iff it equals a listed
   origin ignoring ASCII case, for all byte strings. *)
Theorem C17_origin_match_spec : forall os o, Forall is_lower os ->
  (matches_origins os o = true <-> In (to_lower o) os).
Proof. exact origin_match_spec. Qed.
Print Assumptions C17_origin_match_spec.
