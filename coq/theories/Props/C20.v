(* C20 — fail-stop. Property theorems only. *)
From Coq Require Import List Arith.
From RG Require Import Comp.Lifecycle.
Import ListNotations.

(* A connection (WebSocket or the temporary connection behind an HTTP request) is accepted exactly while the service is
   started and not stopping. *)
Theorem C20_conn_only_while_serving : forall s, snd (step s NewConn) = Ok <-> (running s = true /\ stopping s = false).
Proof. exact conn_only_while_serving. Qed.
Print Assumptions C20_conn_only_while_serving.

(* A completed Stop (also the one triggered by loss of the messaging connection) leaves no connection behind, reports
   its cause exactly once, refuses new connections, and Start makes the service accept connections again. *)
Theorem C20_stop_sequence : forall s c, running s = true -> stopping s = false ->
  let s1 := fst (step s (StopBegin c)) in
  let s2 := fst (step s1 StopClose) in
  let s3 := fst (step s2 (StopEnd c)) in
  conns s3 = 0 /\ reported s3 = reported s ++ [c] /\ running s3 = false /\ stopping s3 = false /\
  snd (step s3 NewConn) = Refused /\
  snd (step (fst (step s3 Start)) NewConn) = Ok.
Proof. exact stop_sequence. Qed.
Print Assumptions C20_stop_sequence.

Theorem C20_stop_idempotent : forall s c, (running s = false \/ stopping s = true) -> step s (StopBegin c) = (s, Ignored).
Proof. exact stop_idempotent. Qed.
Print Assumptions C20_stop_idempotent.

(* Start/Stop may be repeated: a restarted service begins with an empty cache, so nothing cached before the stop (which it
   could not keep current while stopped) is ever served. *)
Theorem C20_restart_empty_cache : forall s, snd (step s Start) = Ok -> cached (fst (step s Start)) = 0.
Proof. exact start_empties_cache. Qed.
Print Assumptions C20_restart_empty_cache.
