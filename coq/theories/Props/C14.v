(* C14 — subject hygiene. Property theorems only. *)
From Coq Require Import List Ascii.
From RG Require Import Pure.Rid.
Import ListNotations.

(* For every byte string accepted as a resource id, the resource name (the part before '?') consists solely of
   non-empty dot-separated tokens of bytes 33..126 without '*', '>' and '?'. *)
Theorem C14_valid_rid_subject_clean : forall l aq, is_valid_rid l aq = true -> clean (name_of l).
Proof. exact valid_rid_subject_clean. Qed.
Print Assumptions C14_valid_rid_subject_clean.

From RG Require Import Pure.RidPart Pure.HttpPath Proofs.RidPartProofs Proofs.HttpPathProofs.

(* A method name accepted by the part validator is one clean subject token. *)
Theorem C14_valid_part_clean : forall p, is_valid_part p = true -> Rid.tok_ok p.
Proof. exact valid_part_clean. Qed.
Print Assumptions C14_valid_part_clean.

(* Whatever the WebSocket dispatcher forwards is a known action with a subject-clean resource name and method,
   and action.rid[.method] re-assembles to exactly the client's method string; every other method string is
   answered system.invalidRequest (DInvalid) without reaching a requester call. *)
Theorem C14_dispatch_forwards_clean : forall m a rid meth,
  dispatch_method m = DAction a rid meth ->
  known_action a = true /\
  is_valid_rid rid true = true /\
  Rid.clean (Rid.name_of rid) /\
  (meth = [] \/ Rid.tok_ok meth) /\
  m = a ++ Rid.dot :: rid ++ (match meth with [] => [] | _ => Rid.dot :: meth end).
Proof. exact dispatch_forwards_clean. Qed.
Print Assumptions C14_dispatch_forwards_clean.

(* HTTP: validation happens after unescaping, so a path accepted by the validator yields a clean subject
   whatever percent-encodings it contained. *)
Theorem C14_http_path_subject_clean : forall path query prefix,
  Rid.is_valid_rid (path_to_rid path query prefix) true = true ->
  Rid.clean (Rid.name_of (path_to_rid path query prefix)).
Proof. exact path_rid_subject_clean. Qed.
Print Assumptions C14_http_path_subject_clean.

(* A valid resource id survives the trip to an HTTP path (Location header, href) and back, for every apiPath. *)
Theorem C14_rid_path_roundtrip : forall rid prefix,
  Rid.is_valid_rid rid false = true -> path_to_rid (rid_to_path rid prefix) [] prefix = rid.
Proof. exact rid_path_roundtrip. Qed.
Print Assumptions C14_rid_path_roundtrip.

From RG Require Import Pure.Subjects.

(* The requests one client request turns into (model of the subject construction, tied to the gateway by the
   `subjects` correspondence stage): the resource name is cut at the FIRST '?', so it never contains one ... *)
Theorem C14_request_name_has_no_query_mark : forall l, forallb (fun c => negb (Rid.is c Rid.qm)) (Rid.name_of l) = true.
Proof. exact name_of_no_qm. Qed.
Print Assumptions C14_request_name_has_no_query_mark.

(* ... and every request issued for one client request carries the same query in its payload. *)
Theorem C14_requests_same_query : forall k rid cid meth s1 q1 s2 q2,
  In (s1, q1) (requests k rid cid meth) -> In (s2, q2) (requests k rid cid meth) -> q1 = q2.
Proof. exact requests_same_name_and_query. Qed.
Print Assumptions C14_requests_same_query.
