(* C16 — HTTP rendering. Property theorems only. *)
From Coq Require Import String.
From Coq Require Import List Ascii Arith.
From RG Require Import Pure.Render Proofs.RenderProofs.
Import ListNotations.
Open Scope list_scope.

(* For every resource graph (cyclic or not), path and fuel, the "json" encoder's bytes are exactly the printed form of
   the expansion tree: referenced resources nested in place as {"href":..,"model"|"collection"|"error":..}, soft
   references and re-entries rendered as href only, data values unwrapped, errors in place. *)
Theorem C16_json_is_print_of_expand : forall g fuel path r wrap,
  enc g fuel path r wrap = print (expand g fuel path r wrap).
Proof. exact enc_is_print_of_expand. Qed.
Print Assumptions C16_json_is_print_of_expand.

(* The same for the "jsonflat" encoder (bare content, href object on re-entry). *)
Theorem C16_jsonflat_is_print_of_expand : forall g fuel path r,
  encflat g fuel path r = print (expandflat g fuel path r).
Proof. exact encflat_is_print_of_expand. Qed.
Print Assumptions C16_jsonflat_is_print_of_expand.

(* Termination on every finite graph, cyclic or not: with n resources, fuel n+1 is always enough (more fuel never
   changes the output), because the expansion path never repeats a resource. *)
Theorem C16_json_fuel_enough : forall g n, bounded g n -> forall f1 f2 path r wrap,
  r < n -> NoDup path -> (forall x, In x path -> x < n) ->
  n - List.length path < f1 -> n - List.length path < f2 ->
  enc g f1 path r wrap = enc g f2 path r wrap.
Proof. exact enc_fuel_enough. Qed.
Print Assumptions C16_json_fuel_enough.

Theorem C16_jsonflat_fuel_enough : forall g n, bounded g n -> forall f1 f2 path r,
  r < n -> NoDup path -> (forall x, In x path -> x < n) ->
  n - List.length path < f1 -> n - List.length path < f2 ->
  encflat g f1 path r = encflat g f2 path r.
Proof. exact encflat_fuel_enough. Qed.
Print Assumptions C16_jsonflat_fuel_enough.
