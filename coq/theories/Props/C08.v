(* C08 — direct subscription accounting. Property theorems only. *)
From Coq Require Import List Arith ZArith.
From RG Require Import Comp.DirectCount.
Import ListNotations.

(* For every sequence of subscribe / release / unsubscribe(count) / unsubscribe-event operations, the gateway's
   direct count equals the ledger a client keeps from observable outcomes only. *)
Theorem C08_ledger_exact : forall limit ops d, let '(d', l', _) := run limit d d ops in d' = l'.
Proof. exact ledger_exact. Qed.
Print Assumptions C08_ledger_exact.

(* An unsubscribe request succeeds exactly when its count (default 1, must be positive) does not exceed the number
   of direct subscriptions; otherwise noSubscription (invalidParams for a bad count) and the number is unchanged. *)
Theorem C08_unsubscribe_outcome : forall limit d c,
  let n := match c with None => 1%Z | Some n => n end in
  let '(d', r) := step limit d (Unsubscribe c) in
  ((n <= 0)%Z -> r = OInvalidParams /\ d' = d) /\
  ((0 < n)%Z -> (Z.of_nat d < n)%Z -> r = ONoSubscription /\ d' = d) /\
  ((0 < n)%Z -> (n <= Z.of_nat d)%Z -> r = OOk /\ Z.of_nat d' = (Z.of_nat d - n)%Z).
Proof. exact unsubscribe_outcome. Qed.
Print Assumptions C08_unsubscribe_outcome.

Theorem C08_never_exceeds_limit : forall limit ops d, d <= limit -> let '(d', _, _) := run limit d d ops in d' <= limit.
Proof. exact never_exceeds_limit. Qed.
Print Assumptions C08_never_exceeds_limit.
