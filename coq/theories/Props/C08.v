(* C08 — direct subscription accounting. Property theorems only. *)
From Coq Require Import List Arith ZArith.
From RG Require Import Comp.DirectCount.
Import ListNotations.

(* For every sequence of subscribe / release / unsubscribe(count) / unsubscribe-event operations, the gateway's
   direct count equals the ledger a client keeps from observable outcomes only. *)
Theorem C08_ledger_exact : forall limit ops d, let '(d', l', _) := run limit d d ops in d' = l'.
Proof. exact ledger_exact. Qed.
Print Assumptions C08_ledger_exact.

(* An unsubscribe request succeeds exactly when its count (default 1, must be positive) does not exceed the number
   of direct subscriptions; otherwise noSubscription (invalidParams for a bad count) and the number is unchanged. *)
Theorem C08_unsubscribe_outcome : forall limit d c,
  let n := match c with None => 1%Z | Some n => n end in
  let '(d', r) := step limit d (Unsubscribe c) in
  ((n <= 0)%Z -> r = OInvalidParams /\ d' = d) /\
  ((0 < n)%Z -> (Z.of_nat d < n)%Z -> r = ONoSubscription /\ d' = d) /\
  ((0 < n)%Z -> (n <= Z.of_nat d)%Z -> r = OOk /\ Z.of_nat d' = (Z.of_nat d - n)%Z).
Proof. exact unsubscribe_outcome. Qed.
Print Assumptions C08_unsubscribe_outcome.

Theorem C08_never_exceeds_limit : forall limit ops d, d <= limit -> let '(d', _, _) := run limit d d ops in d' <= limit.
Proof. exact never_exceeds_limit. Qed.
Print Assumptions C08_never_exceeds_limit.

(* Integrated model Comp/Core.v (run in lock-step with the real gateway on every check), every sequence of stimuli and
   scheduler grants: the gateway's direct-subscription count for a connected client is the number the client itself counts
   from the frames it was sent (one more with every successful subscribe response, k fewer with every successful unsubscribe of
   k) plus the subscribe requests still waiting for their access answer or for the resource - as long as
   the client was never acknowledged an unsubscribe of more subscriptions than it held. *)
From RG Require Comp.Conv Comp.Core Proofs.CoreProofsABC Proofs.CoreProofsDEF.
Theorem C08_core_direct_count :
  forall (val upd : Type) (app : upd -> val -> val) (norm : upd -> val -> option upd) (d : val),
  (forall u v, norm u v = None -> app u v = v) ->
  (forall u v u', norm u v = Some u' -> app u' v = app u v) ->
  forall t ops c,
  let s := fst (Core.exec val upd app norm d t ops) in let outs := snd (Core.exec val upd app norm d t ops) in
  Core.disc (Core.conns val upd s c) = false -> Core.no_underflow val upd app c outs ->
  Core.direct (Core.conns val upd s c) = Core.lcnt val (Core.client val upd app c outs) + Core.pending val upd s c.
Proof. exact CoreProofsABC.core_direct_count. Qed.
Print Assumptions C08_core_direct_count.

(* Failed requests and given-up subscriptions leave nothing behind: once nothing is left to do, a Subscription object that is
   no longer its connection's current one (access denied, unsubscribed, connection closed) is not a subscriber of the cached
   resource any more and holds nothing. *)
Theorem C08_core_nothing_left_behind :
  forall (val upd : Type) (app : upd -> val -> val) (norm : upd -> val -> option upd) (d : val),
  (forall u v, norm u v = None -> app u v = v) ->
  (forall u v u', norm u v = Some u' -> app u' v = app u v) ->
  forall t ops i,
  let s := fst (Core.exec val upd app norm d t ops) in
  Core.quiescent val upd s -> i < Core.next val upd s ->
  Core.cur (Core.conns val upd s (Core.owner (Core.insts val upd s i))) <> Some i ->
  Conv.mem i (Conv.rs_subs val upd (Core.cv val upd s)) = false /\
  Conv.loaded val upd (Conv.subs val upd (Core.cv val upd s) i) = false /\
  Conv.eq val upd (Conv.subs val upd (Core.cv val upd s) i) = [].
Proof. exact CoreProofsDEF.core_cleanup. Qed.
Print Assumptions C08_core_nothing_left_behind.

(* Unconditionally the gateway's count never exceeds that sum ... *)
Theorem C08_core_direct_le :
  forall (val upd : Type) (app : upd -> val -> val) (norm : upd -> val -> option upd) (d : val),
  (forall u v, norm u v = None -> app u v = v) ->
  (forall u v u', norm u v = Some u' -> app u' v = app u v) ->
  forall t ops c,
  let s := fst (Core.exec val upd app norm d t ops) in let outs := snd (Core.exec val upd app norm d t ops) in
  Core.disc (Core.conns val upd s c) = false ->
  Core.direct (Core.conns val upd s c) <= Core.lcnt val (Core.client val upd app c outs) + Core.pending val upd s c.
Proof. exact CoreProofsABC.core_direct_le. Qed.
Print Assumptions C08_core_direct_le.

(* ... but the equation is false of the unchanged code without the premise (recorded finding KF-PENDING-DROPPED): two subscribe
   requests waiting, one unsubscribe - acknowledged against them: gateway count 1, client count 0, two requests waiting. *)
Theorem C08_core_direct_count_without_premise_refuted :
  exists ops : list (Core.op nat),
    let s := fst (Core.exec nat nat Nat.add (fun u _ => Some u) 0 100 ops) in
    let outs := snd (Core.exec nat nat Nat.add (fun u _ => Some u) 0 100 ops) in
    Core.disc (Core.conns nat nat s 0) = false /\ Core.direct (Core.conns nat nat s 0) = 1 /\
    Core.lcnt nat (Core.client nat nat Nat.add 0 outs) = 0 /\ Core.pending nat nat s 0 = 2.
Proof. exact CoreProofsABC.core_direct_count_refuted. Qed.
Print Assumptions C08_core_direct_count_without_premise_refuted.

(* In every reachable state an unsubscribe request succeeds exactly when its count is positive and at most the gateway's count. *)
Theorem C08_core_unsubscribe_outcome :
  forall (val upd : Type) (app : upd -> val -> val) (norm : upd -> val -> option upd) (d : val),
  (forall u v, norm u v = None -> app u v = v) ->
  (forall u v u', norm u v = Some u' -> app u' v = app u v) ->
  forall t ops c id k q,
  let s := fst (Core.exec val upd app norm d t ops) in
  Core.cqueue (Core.conns val upd s c) = Core.QUnsub id k :: q ->
  let '(s', o) := Core.step val upd app norm s (Core.GrantConn upd c) in
  let n := Core.direct (Core.conns val upd s c) in
  (k = 0 -> o = [Core.OErr val upd c id Core.EInvalid] /\ Core.direct (Core.conns val upd s' c) = n) /\
  (0 < k -> n < k -> o = [Core.OErr val upd c id Core.ENoSub] /\ Core.direct (Core.conns val upd s' c) = n) /\
  (0 < k -> k <= n -> o = [Core.OAck val upd c id k] /\ Core.direct (Core.conns val upd s' c) = n - k).
Proof. exact CoreProofsABC.core_unsubscribe_outcome. Qed.
Print Assumptions C08_core_unsubscribe_outcome.
