(* C13 — query resources: atomic query-event handling. Property theorems only. *)
From Coq Require Import List Arith.
From RG Require Import Comp.EsQueue.
Import ListNotations.

(* Task queue and query-event lock of one cached resource, every sequence of enqueues, unlock callbacks (one per query
   request, as the adapter contract guarantees) and worker runs: while query requests are unanswered, a worker run
   executes no queued event or response and leaves the queue untouched. *)
Theorem C13_lock_blocks_queue : forall e, Inv e -> forall pend cap,
  locks e = Some (pend, cap) -> 0 < owed e -> qtasks (ran (work e)) = qtasks (ran e) /\ queue (work e) = queue e.
Proof. exact lock_blocks_queue. Qed.
Print Assumptions C13_lock_blocks_queue.

(* Processing always resumes: once every wake-up has been served and no unlock is owed, the lock is gone, the queue is
   empty and everything ever enqueued has run, in order. *)
Theorem C13_always_resumes : forall ops, wf init ops ->
  let e := run ops in wake e = 0 -> owed e = 0 -> locks e = None /\ queue e = [] /\ qtasks (ran e) = enq e.
Proof. exact always_resumes. Qed.
Print Assumptions C13_always_resumes.
