(* C15 — crash freedom and containment of malformed input. Property theorems only. *)
From Coq Require Import List ZArith String.
From RG Require Import Pure.Rid Pure.ValueDec Proofs.ValueDecProofs Pure.RespDec Proofs.RespDecProofs.
From RG Require Import Base.Value Comp.ResSub Proofs.ResSubProofs Comp.Throttle Pure.Lcs Pure.LcsTab.
Import ListNotations.

(* A malformed or inapplicable service event (undecodable payload, change on a collection, add/remove on a model,
   improper value, index out of range or negative) is discarded as a whole: cached content, version, subscribers and
   use count are unchanged and nothing is handed to any subscriber. *)
Theorem C15_inapplicable_discarded : forall r e,
  inapplicable r e = true ->
  let '(r', out) := handle_event r e in
  cont r' = cont r /\ version r' = version r /\ out = [] /\ nsubs r' = nsubs r /\ count r' = count r /\ resetting r' = resetting r.
Proof. exact inapplicable_discarded. Qed.
Print Assumptions C15_inapplicable_discarded.

(* The collection diff never produces an out-of-range index: applying its events in order always succeeds. *)
Theorem C15_diff_indices_in_range : forall a b : list value,
  exists b', apply_evs (lcs_model veq a b) a = Some b' /\ Forall2 (vrel veq) b' b.
Proof. exact (lcs_model_patch veq). Qed.
Print Assumptions C15_diff_indices_in_range.

(* The throttle never panics under its call contract. *)
Theorem C15_throttle_no_panic : forall (n : nat) ops, (1 <= n)%nat -> wf (init n) ops -> crashed (run n ops) = false.
Proof. intros n ops Hn Hwf. exact (proj1 (throttle_bound n ops Hn Hwf)). Qed.
Print Assumptions C15_throttle_no_panic.

(* Value objects supplied by services (codec.Value.UnmarshalJSON, model Pure/ValueDec.v, tied by the `valuedec`
   correspondence suite). A value is taken for a resource reference only if the object carried a non-empty valid rid,
   neither action nor data, and no member of a wrong JSON type; it is soft exactly when the soft flag is set. *)
Theorem C15_value_reference_sound : forall f r,
  classify f = ORef r \/ classify f = OSoft r ->
  f_err f = false /\ f_rid f = Some r /\ r <> [] /\ is_valid_rid r true = true /\
  f_action f = None /\ f_data f = None /\ (classify f = OSoft r <-> f_soft f = true).
Proof. exact reference_sound. Qed.
Print Assumptions C15_value_reference_sound.

Theorem C15_value_delete_sound : forall f,
  classify f = ValueDec.ODelete ->
  f_err f = false /\ f_rid f = None /\ f_action f = Some (s2l "delete"%string) /\ f_data f = None.
Proof. exact delete_sound. Qed.
Print Assumptions C15_value_delete_sound.

Theorem C15_value_data_sound : forall f id,
  classify f = ValueDec.OData id \/ classify f = OPrimData id ->
  f_err f = false /\ f_rid f = None /\ f_action f = None /\
  exists v, f_data f = Some (v, id) /\ (classify f = ValueDec.OData id <-> (v = JObj \/ v = JArr)).
Proof. exact data_sound. Qed.
Print Assumptions C15_value_data_sound.

(* Ambiguous, ill-typed and empty value objects are rejected: acceptance needs exactly one of rid / action / data. *)
Theorem C15_value_accepted_has_one_marker : forall f,
  is_err (classify f) = false -> f_err f = false /\ markers f = 1%nat.
Proof. exact accepted_has_one_marker. Qed.
Print Assumptions C15_value_accepted_has_one_marker.

(* A member of the wrong JSON type anywhere in the object rejects the value whatever follows it; members with other
   keys are ignored. *)
Theorem C15_value_type_error_rejects : forall ms1 ms2 k v id,
  f_err (store (read ms1) (k, v, id)) = true -> decode (TObj (ms1 ++ (k, v, id) :: ms2)) = OErr EJson.
Proof. exact type_error_rejects. Qed.
Print Assumptions C15_value_type_error_rejects.

Theorem C15_value_foreign_member_ignored : forall ms k v id,
  key_is k "rid"%string = false -> key_is k "soft"%string = false -> key_is k "action"%string = false -> key_is k "data"%string = false ->
  decode (TObj (ms ++ [(k, v, id)])) = decode (TObj ms).
Proof. exact foreign_member_ignored. Qed.
Print Assumptions C15_value_foreign_member_ignored.

(* Answers to get requests (codec.DecodeGetResponse, model Pure/RespDec.v, tied by the `respdec` suite): accepted as a
   model (collection) only when well-formed, without error, with a model and no collection (a collection and no model),
   and every value proper - no delete action, nothing the value decoder rejects. *)
Theorem C15_get_response_model_sound : forall p n,
  decode_get p = GModel n ->
  gp_syntax_ok p = true /\ gp_error p = None /\
  exists m, gp_result p = Some {| g_model := Some m; g_coll := None |} /\ List.length m = n /\
            forall v, In v m -> proper v = true.
Proof. exact get_model_sound. Qed.
Print Assumptions C15_get_response_model_sound.

Theorem C15_get_response_collection_sound : forall p n,
  decode_get p = GColl n ->
  gp_syntax_ok p = true /\ gp_error p = None /\
  exists c, gp_result p = Some {| g_model := None; g_coll := Some c |} /\ List.length c = n /\
            forall v, In v c -> proper v = true.
Proof. exact get_coll_sound. Qed.
Print Assumptions C15_get_response_collection_sound.

Theorem C15_get_response_model_complete : forall m,
  (forall v, In v m -> proper v = true) ->
  decode_get {| gp_syntax_ok := true; gp_error := None; gp_result := Some {| g_model := Some m; g_coll := None |} |} = GModel (List.length m).
Proof. exact get_model_complete. Qed.
Print Assumptions C15_get_response_model_complete.

(* Answers to call / auth / new requests (codec.DecodeCallResponse): a resource response only for a valid rid and no
   error; a result only without error and without resource. *)
Theorem C15_call_response_resource_sound : forall p r,
  decode_call p = CResource r ->
  cp_syntax_ok p = true /\ cp_error p = None /\ cp_resource p = Some r /\ is_valid_rid r true = true.
Proof. exact call_resource_sound. Qed.
Print Assumptions C15_call_response_resource_sound.

Theorem C15_call_response_result_sound : forall p id,
  decode_call p = CResult id ->
  cp_syntax_ok p = true /\ cp_error p = None /\ cp_resource p = None /\ cp_result p = Some id.
Proof. exact call_result_sound. Qed.
Print Assumptions C15_call_response_result_sound.

(* In a well-formed answer the service's error wins over everything else the answer carries. *)
Theorem C15_get_response_error_wins : forall p e,
  decode_get p = GService e <-> (gp_syntax_ok p = true /\ gp_error p = Some e /\
     match gp_result p with Some r => existsb rejected (values_of r) | None => false end = false).
Proof. exact get_error_wins. Qed.
Print Assumptions C15_get_response_error_wins.

Theorem C15_call_response_error_wins : forall p e,
  cp_syntax_ok p = true -> cp_error p = Some e -> decode_call p = CService e.
Proof. exact call_error_wins. Qed.
Print Assumptions C15_call_response_error_wins.
