(* C15 — crash freedom and containment of malformed input. Property theorems only. *)
From Coq Require Import List ZArith.
From RG Require Import Base.Value Comp.ResSub Proofs.ResSubProofs Comp.Throttle Pure.Lcs Pure.LcsTab.
Import ListNotations.

(* A malformed or inapplicable service event (undecodable payload, change on a collection, add/remove on a model,
   improper value, index out of range or negative) is discarded as a whole: cached content, version, subscribers and
   use count are unchanged and nothing is handed to any subscriber. *)
Theorem C15_inapplicable_discarded : forall r e,
  inapplicable r e = true ->
  let '(r', out) := handle_event r e in
  cont r' = cont r /\ version r' = version r /\ out = [] /\ nsubs r' = nsubs r /\ count r' = count r /\ resetting r' = resetting r.
Proof. exact inapplicable_discarded. Qed.
Print Assumptions C15_inapplicable_discarded.

(* The collection diff never produces an out-of-range index: applying its events in order always succeeds. *)
Theorem C15_diff_indices_in_range : forall a b : list value,
  exists b', apply_evs (lcs_model veq a b) a = Some b' /\ Forall2 (vrel veq) b' b.
Proof. exact (lcs_model_patch veq). Qed.
Print Assumptions C15_diff_indices_in_range.

(* The throttle never panics under its call contract. *)
Theorem C15_throttle_no_panic : forall (n : nat) ops, (1 <= n)%nat -> wf (init n) ops -> crashed (run n ops) = false.
Proof. intros n ops Hn Hwf. exact (proj1 (throttle_bound n ops Hn Hwf)). Qed.
Print Assumptions C15_throttle_no_panic.
