(* C07 — exactly one response per request. Property theorems only. *)
From Coq Require Import List Ascii.
From RG Require Import Pure.Rid Pure.RidPart Proofs.RidPartProofs.
Import ListNotations.

(* Dispatcher: every method string is classified as exactly one of version / invalid (immediate
   system.invalidRequest reply) / one requester call; `version` is the only dot-free method accepted. *)
Theorem C07_dispatch_total : forall m, exists d, dispatch_method m = d /\
  match d with DVersion => m = s_version | _ => True end.
Proof. exact dispatch_total. Qed.
Print Assumptions C07_dispatch_total.

Theorem C07_no_dot_never_forwarded : forall m a rid meth,
  split_first_dot m = None -> dispatch_method m <> DAction a rid meth.
Proof. exact dispatch_nodot_not_forwarded. Qed.
Print Assumptions C07_no_dot_never_forwarded.
