(* C07 — exactly one response per request. Property theorems only. *)
From Coq Require Import List Ascii.
From RG Require Import Pure.Rid Pure.RidPart Proofs.RidPartProofs.
Import ListNotations.

(* Dispatcher: every method string is classified as exactly one of version / invalid (immediate
   system.invalidRequest reply) / one requester call; `version` is the only dot-free method accepted. *)
Theorem C07_dispatch_total : forall m, exists d, dispatch_method m = d /\
  match d with DVersion => m = s_version | _ => True end.
Proof. exact dispatch_total. Qed.
Print Assumptions C07_dispatch_total.

Theorem C07_no_dot_never_forwarded : forall m a rid meth,
  split_first_dot m = None -> dispatch_method m <> DAction a rid meth.
Proof. exact dispatch_nodot_not_forwarded. Qed.
Print Assumptions C07_no_dot_never_forwarded.

From RG Require Import Comp.SubFsm Proofs.SubFsmProofs.

(* The subscription machine (model of the access/queueing/re-access/disposal logic of one Subscription, tied to the code by
   the `subfsm` direct-drive correspondence): for every operation sequence whose request continuations carry distinct ids -
   cached or fresh verdicts, re-access triggers, revocation, disposal, late answers - no continuation runs twice and only
   registered continuations run. *)
Theorem C07_continuation_at_most_once : forall ops,
  NoDup (all_ids ops) ->
  NoDup (obs_ids (concat (snd (run init ops)))) /\ incl (obs_ids (concat (snd (run init ops)))) (all_ids ops).
Proof. exact continuation_at_most_once. Qed.
Print Assumptions C07_continuation_at_most_once.

(* An access answer that reaches a subscription which is not disposed runs every continuation that was waiting. *)
Theorem C07_answer_runs_all_waiting : forall s a,
  st s <> Disposed -> 0 < outst s ->
  obs_ids (snd (step s (OpAnswer a))) = cont_ids (acbs s) /\ cont_ids (acbs (fst (step s (OpAnswer a)))) = [].
Proof. exact answer_runs_all_waiting. Qed.
Print Assumptions C07_answer_runs_all_waiting.

(* "Every registered continuation eventually runs" is false of the unchanged code (recorded finding KF-PENDING-DROPPED):
   witness get; unsubscribe; answer - the get is never answered. Model and code agree on the witness (`subfsm` stage). *)
Theorem C07_every_continuation_runs_refuted :
  exists ops, NoDup (all_ids ops) /\ all_ids ops = [1] /\
    let '(s, o) := run init ops in obs_ids (concat o) = [] /\ outst s = 0 /\ cont_ids (acbs s) = [1].
Proof. exact every_continuation_runs_refuted. Qed.
Print Assumptions C07_every_continuation_runs_refuted.

(* Integrated model Comp/Core.v (any number of connections, one flat resource, subscribe requests with their access and get
   requests, events, both kinds of task queue; run in lock-step with the real gateway on every check), every sequence of
   stimuli and scheduler grants: a connection is sent at most one response, only ever with the id of the request it made,
   and exactly that one once nothing is left to do. *)
From RG Require Comp.Conv Comp.Core Proofs.CoreProofs.
Theorem C07_core_one_response_per_request :
  forall (val upd : Type) (app : upd -> val -> val) (norm : upd -> val -> option upd) (d : val),
  (forall u v, norm u v = None -> app u v = v) ->
  (forall u v u', norm u v = Some u' -> app u' v = app u v) ->
  forall t ops c,
  let s := fst (Core.exec val upd app norm d t ops) in let outs := snd (Core.exec val upd app norm d t ops) in
  length (Core.resps val upd c outs) <= 1 /\
  (forall id, In id (Core.resps val upd c outs) -> Core.first_req upd c ops = Some id) /\
  (Core.quiescent val upd s -> Core.resps val upd c outs = match Core.first_req upd c ops with Some id => [id] | None => [] end).
Proof. exact CoreProofs.core_one_response. Qed.
Print Assumptions C07_core_one_response_per_request.
