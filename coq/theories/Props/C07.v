(* C07 — exactly one response per request. Property theorems only. *)
From Coq Require Import List Ascii.
From RG Require Import Pure.Rid Pure.RidPart Proofs.RidPartProofs.
Import ListNotations.

(* Dispatcher: every method string is classified as exactly one of version / invalid (immediate
   system.invalidRequest reply) / one requester call; `version` is the only dot-free method accepted. *)
Theorem C07_dispatch_total : forall m, exists d, dispatch_method m = d /\
  match d with DVersion => m = s_version | _ => True end.
Proof. exact dispatch_total. Qed.
Print Assumptions C07_dispatch_total.

Theorem C07_no_dot_never_forwarded : forall m a rid meth,
  split_first_dot m = None -> dispatch_method m <> DAction a rid meth.
Proof. exact dispatch_nodot_not_forwarded. Qed.
Print Assumptions C07_no_dot_never_forwarded.

From RG Require Import Comp.SubFsm Proofs.SubFsmProofs.

(* The subscription machine (model of the access/queueing/re-access/disposal logic of one Subscription, tied to the code by
   the `subfsm` direct-drive correspondence): for every operation sequence whose request continuations carry distinct ids -
   cached or fresh verdicts, re-access triggers, revocation, disposal, late answers - no continuation runs twice and only
   registered continuations run. *)
Theorem C07_continuation_at_most_once : forall ops,
  NoDup (all_ids ops) ->
  NoDup (obs_ids (concat (snd (run init ops)))) /\ incl (obs_ids (concat (snd (run init ops)))) (all_ids ops).
Proof. exact continuation_at_most_once. Qed.
Print Assumptions C07_continuation_at_most_once.

(* An access answer that reaches a subscription which is not disposed runs every continuation that was waiting. *)
Theorem C07_answer_runs_all_waiting : forall s a,
  st s <> Disposed -> 0 < outst s ->
  obs_ids (snd (step s (OpAnswer a))) = cont_ids (acbs s) /\ cont_ids (acbs (fst (step s (OpAnswer a)))) = [].
Proof. exact answer_runs_all_waiting. Qed.
Print Assumptions C07_answer_runs_all_waiting.

(* "Every registered continuation eventually runs" is false of the unchanged code (recorded finding KF-PENDING-DROPPED):
   witness get; unsubscribe; answer - the get is never answered. Model and code agree on the witness (`subfsm` stage). *)
Theorem C07_every_continuation_runs_refuted :
  exists ops, NoDup (all_ids ops) /\ all_ids ops = [1] /\
    let '(s, o) := run init ops in obs_ids (concat o) = [] /\ outst s = 0 /\ cont_ids (acbs s) = [1].
Proof. exact every_continuation_runs_refuted. Qed.
Print Assumptions C07_every_continuation_runs_refuted.

(* Integrated model Comp/Core.v (any number of connections, one flat resource, subscribe and unsubscribe requests, access
   answers, events, disconnects, both kinds of task queue; run in lock-step with the real gateway on every check), every
   sequence of stimuli and scheduler grants in which connection c uses distinct request ids: no id is answered twice, only
   requested ids are answered, an answered request was not dropped, and once nothing is left to do every request of a
   connected client has been answered - or its continuation was dropped together with its subscription. *)
From RG Require Comp.Conv Comp.Core Proofs.CoreProofsABC Proofs.CoreProofsDEF.
Theorem C07_core_responses :
  forall (val upd : Type) (app : upd -> val -> val) (norm : upd -> val -> option upd) (d : val),
  (forall u v, norm u v = None -> app u v = v) ->
  (forall u v u', norm u v = Some u' -> app u' v = app u v) ->
  forall t ops c,
  let s := fst (Core.exec val upd app norm d t ops) in let outs := snd (Core.exec val upd app norm d t ops) in
  NoDup (Core.reqs upd c ops) ->
  NoDup (Core.resps val upd c outs) /\ incl (Core.resps val upd c outs) (Core.reqs upd c ops) /\
  (forall id, In id (Core.resps val upd c outs) -> ~ In id (Core.dropped val upd s c)) /\
  (Core.quiescent val upd s -> Core.disc (Core.conns val upd s c) = false ->
   forall id, In id (Core.reqs upd c ops) -> In id (Core.resps val upd c outs) \/ In id (Core.dropped val upd s c)).
Proof. exact CoreProofsDEF.core_responses. Qed.
Print Assumptions C07_core_responses.

(* Continuations are dropped only where an unsubscribe request, a disconnect or a revocation (token / reaccess event) meets
   waiting requests: in histories without those, none is. *)
Theorem C07_core_nothing_dropped_without_unsubscribe :
  forall (val upd : Type) (app : upd -> val -> val) (norm : upd -> val -> option upd) (d : val),
  (forall u v, norm u v = None -> app u v = v) ->
  (forall u v u', norm u v = Some u' -> app u' v = app u v) ->
  forall t ops c,
  (forall o, In o ops -> match o with Core.CUnsub _ _ _ _ | Core.Disc _ _ | Core.ConnToken _ _ _ | Core.MqReacc _ => False | _ => True end) ->
  Core.dropped val upd (fst (Core.exec val upd app norm d t ops)) c = [].
Proof. exact CoreProofsDEF.core_nothing_dropped_without_unsubscribe. Qed.
Print Assumptions C07_core_nothing_dropped_without_unsubscribe.

(* "Every request of a connected client is answered" is false of the unchanged code (recorded finding KF-PENDING-DROPPED):
   subscribe; unsubscribe while the subscribe request waits for its access answer - the unsubscribe succeeds against the
   pending count and the subscribe request is never answered. Model and code agree on such histories (`core` stage). *)
Theorem C07_core_every_request_answered_refuted :
  exists ops : list (Core.op nat),
    let s := fst (Core.exec nat nat (fun u v => u + v) (fun u v => Some u) 0 0 ops) in
    let outs := snd (Core.exec nat nat (fun u v => u + v) (fun u v => Some u) 0 0 ops) in
    NoDup (Core.reqs nat 0 ops) /\ Core.reqs nat 0 ops = [1; 2] /\ Core.resps nat nat 0 outs = [2] /\
    Core.dropped nat nat s 0 = [1] /\ Core.cqueue (Core.conns nat nat s 0) = [] /\ Conv.qe nat nat (Core.cv nat nat s) = [] /\
    Core.disc (Core.conns nat nat s 0) = false.
Proof. exact CoreProofsDEF.core_every_request_answered_refuted. Qed.
Print Assumptions C07_core_every_request_answered_refuted.
