(* C09 — cache entry life-cycle. Property theorems only. *)
From Coq Require Import List ZArith.
From RG Require Import Comp.UseCount.
Import ListNotations.
Open Scope Z_scope.

(* For every sequence of subscribe (with the messaging system accepting or refusing the event subscription),
   request, subscriber registration, get error, delete event, unsubscribe (of members and non-members), request
   completion and timer expiry with fresh subscriber ids: the count is exactly the number of users, the timer queue
   never panics, a get is only ever requested under an established event subscription, an entry with users is never
   in line for eviction, an entry without users always is, and firing the timer on an unused entry removes it. *)
Theorem C09_cache_lifecycle : forall ops, wf empty ops ->
  let e := run ops in
  count e = users e /\ crashed e = false /\ get_without_sub e = false /\
  (0 < users e -> inq e = false /\ present e = true) /\
  (present e = true -> users e = 0 -> inq e = true /\ present (step e TimerFire) = false).
Proof. exact cache_lifecycle. Qed.
Print Assumptions C09_cache_lifecycle.

(* Releasing a subscriber that is no longer registered (a delete event or failed get released it already) is a no-op. *)
Theorem C09_unsub_nonmember_noop : forall e s, memb s (subs e) = false -> step e (Unsub s) = e.
Proof. exact unsub_nonmember_noop. Qed.
Print Assumptions C09_unsub_nonmember_noop.

(* A refused event subscription (subject too long) leaves no use behind. *)
Theorem C09_failed_subscribe_releases : forall e s, Inv e -> mqsub e = false ->
  memb s (subs e) = false -> memb s (pend e) = false ->
  users (step e (Subscribe s false)) = users e /\ count (step e (Subscribe s false)) = count e /\
  present (step e (Subscribe s false)) = true.
Proof. exact failed_subscribe_releases. Qed.
Print Assumptions C09_failed_subscribe_releases.
