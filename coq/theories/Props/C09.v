(* C09 — cache entry life-cycle. Property theorems only. *)
From Coq Require Import List ZArith.
From RG Require Import Comp.UseCount.
Import ListNotations.
Open Scope Z_scope.

(* For every sequence of subscribe (with the messaging system accepting or refusing the event subscription),
   request, subscriber registration, get error, delete event, unsubscribe (of members and non-members), request
   completion and timer expiry with fresh subscriber ids: the count is exactly the number of users, the timer queue
   never panics, a get is only ever requested under an established event subscription, an entry with users is never
   in line for eviction, an entry without users always is, and firing the timer on an unused entry removes it. *)
Theorem C09_cache_lifecycle : forall ops, wf empty ops ->
  let e := run ops in
  count e = users e /\ crashed e = false /\ get_without_sub e = false /\
  (0 < users e -> inq e = false /\ present e = true) /\
  (present e = true -> users e = 0 -> inq e = true /\ present (step e TimerFire) = false).
Proof. exact cache_lifecycle. Qed.
Print Assumptions C09_cache_lifecycle.

(* Releasing a subscriber that is no longer registered (a delete event or failed get released it already) is a no-op. *)
Theorem C09_unsub_nonmember_noop : forall e s, memb s (subs e) = false -> step e (Unsub s) = e.
Proof. exact unsub_nonmember_noop. Qed.
Print Assumptions C09_unsub_nonmember_noop.

(* A refused event subscription (subject too long) leaves no use behind. *)
Theorem C09_failed_subscribe_releases : forall e s, Inv e -> mqsub e = false ->
  memb s (subs e) = false -> memb s (pend e) = false ->
  users (step e (Subscribe s false)) = users e /\ count (step e (Subscribe s false)) = count e /\
  present (step e (Subscribe s false)) = true.
Proof. exact failed_subscribe_releases. Qed.
Print Assumptions C09_failed_subscribe_releases.

(* Integrated model Comp/Core.v (run in lock-step with the real gateway on every check), every sequence of stimuli and
   scheduler grants: the resource is requested from its service at most once, the event subscription is made at most once,
   and the get request is only ever sent after the event subscription was made. *)
From RG Require Comp.Conv Comp.Core Proofs.CoreProofsABC Proofs.CoreProofsDEF.
Theorem C09_core_get_once_under_subscription :
  forall (val upd : Type) (app : upd -> val -> val) (norm : upd -> val -> option upd) (d : val) t ops,
  let outs := snd (Core.exec val upd app norm d t ops) in
  (Core.count_out val upd (Core.is_getreq val upd) outs <= 1)%nat /\
  (Core.count_out val upd (Core.is_mqsub val upd) outs <= 1)%nat /\
  forall pre o post, outs = pre ++ o :: post -> Core.is_getreq val upd o = true ->
    Core.count_out val upd (Core.is_mqsub val upd) pre = 1%nat.
Proof. exact CoreProofsABC.core_get_once_under_subscription. Qed.
Print Assumptions C09_core_get_once_under_subscription.
