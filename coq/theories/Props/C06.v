(* C06 — revocation. Property theorems only. *)
From Coq Require Import List Arith.
From RG Require Import Comp.DirectCount Pure.Access.
Import ListNotations.

(* A non-grant verdict on a re-check removes every direct subscription of the resource with exactly one unsubscribe
   event (and does nothing when there is none). *)
Theorem C06_revocation_removes_all : forall limit d,
  step limit d UnsubEvent = match d with O => (O, ONothing) | _ => (O, OEvent) end.
Proof. exact revocation_removes_all. Qed.
Print Assumptions C06_revocation_removes_all.

(* ... and what counts as a non-grant: everything except a result with get = true. *)
Theorem C06_nongrant_is_everything_else : forall a, can_get a = Granted <-> exists call, a = AResult true call.
Proof. exact can_get_granted_iff. Qed.
Print Assumptions C06_nongrant_is_everything_else.

From RG Require Import Comp.SubFsm Proofs.SubFsmProofs.

(* On the subscription machine (tied to the code by the `subfsm` direct drive), in every state: *)

(* while a re-access check is pending, nothing but its answer delivers an event to the client; *)
Theorem C06_pending_recheck_blocks_events : forall s o,
  qR s = true -> (forall a, o <> OpAnswer a) -> has_event (snd (step s o)) = false.
Proof. exact pending_recheck_blocks_events. Qed.
Print Assumptions C06_pending_recheck_blocks_events.

(* a trigger that finds the subscription busy (loading, or re-checking already) is remembered; *)
Theorem C06_trigger_while_busy_is_deferred : forall s,
  st s <> Disposed -> queueing s = true -> fReacc (fst (step s OpReaccess)) = true /\ snd (step s OpReaccess) = [].
Proof. exact trigger_while_busy_is_deferred. Qed.
Print Assumptions C06_trigger_while_busy_is_deferred.

(* a non-grant verdict revokes every direct subscription with one unsubscribe event carrying the reason, unregisters the
   subscription and delivers none of the held events. *)
Theorem C06_nongrant_revokes_all : forall s a,
  st s <> Disposed -> 0 < outst s -> acbs s = [KValidate] -> 0 < direct s -> can_get a <> VOk ->
  let '(s', o) := step s (OpAnswer a) in
  In (OUnsubEvent (can_get a)) o /\ has_event o = false /\ direct s' = 0 /\ reg s' = false /\ st s' = Disposed.
Proof. exact nongrant_revokes_all. Qed.
Print Assumptions C06_nongrant_revokes_all.

(* Integrated model Comp/Core.v (connections x one flat resource, both task queues, token events, reaccess events; run in
   lock-step with the real gateway on every check), every sequence of stimuli and scheduler grants. *)
From RG Require Comp.Conv Comp.Core Proofs.CoreProofsG.

(* A token event handled on a connection that already has a token and holds a subscription: the new token is in force, the
   re-validation has started (the cached verdict is dropped, an access request is out) or the trigger is remembered because
   the subscription is still queueing - and in both cases the subscription holds back every event from then on. *)
Theorem C06_core_token_triggers_revalidation :
  forall (val upd : Type) (app : upd -> val -> val) (norm : upd -> val -> option upd) (d : val),
  (forall u v, norm u v = None -> app u v = v) ->
  (forall u v u', norm u v = Some u' -> app u' v = app u v) ->
  forall t ops c tk q i,
  let s := fst (Core.exec val upd app norm d t ops) in
  Core.cqueue (Core.conns val upd s c) = Core.QToken tk :: q -> Core.tokset (Core.conns val upd s c) = true ->
  Core.cur (Core.conns val upd s c) = Some i -> 0 < Core.direct (Core.conns val upd s c) ->
  let s' := fst (Core.step val upd app norm s (Core.GrantConn upd c)) in
  Core.tok (Core.conns val upd s' c) = tk /\
  (Core.rq (Core.insts val upd s' i) = true \/ Core.reflag (Core.insts val upd s' i) = true) /\
  Conv.flag val upd (Conv.subs val upd (Core.cv val upd s') i) = true.
Proof. exact CoreProofsG.core_token_triggers_revalidation. Qed.
Print Assumptions C06_core_token_triggers_revalidation.

(* While a re-validation is pending the subscription queues every event (nothing is delivered before the verdict), the
   validation is registered, no verdict is cached and an access request is out. *)
Theorem C06_core_revalidation_holds_events :
  forall (val upd : Type) (app : upd -> val -> val) (norm : upd -> val -> option upd) (d : val),
  (forall u v, norm u v = None -> app u v = v) ->
  (forall u v u', norm u v = Some u' -> app u' v = app u v) ->
  forall t ops i,
  let s := fst (Core.exec val upd app norm d t ops) in
  Core.rq (Core.insts val upd s i) = true -> Conv.gone val upd (Conv.subs val upd (Core.cv val upd s) i) = false ->
  Conv.flag val upd (Conv.subs val upd (Core.cv val upd s) i) = true /\ In Core.AVal (Core.acb (Core.insts val upd s i)) /\
  Core.acc (Core.insts val upd s i) = None /\ Core.inflight (Core.insts val upd s i) = true.
Proof. exact CoreProofsG.core_revalidation_holds_events. Qed.
Print Assumptions C06_core_revalidation_holds_events.

(* Once nothing is left to do, no re-validation is pending or remembered and every subscription held is backed by a grant. *)
Theorem C06_core_quiescent_validated :
  forall (val upd : Type) (app : upd -> val -> val) (norm : upd -> val -> option upd) (d : val),
  (forall u v, norm u v = None -> app u v = v) ->
  (forall u v u', norm u v = Some u' -> app u' v = app u v) ->
  forall t ops c i,
  let s := fst (Core.exec val upd app norm d t ops) in
  Core.quiescent val upd s -> Core.cur (Core.conns val upd s c) = Some i ->
  Core.rq (Core.insts val upd s i) = false /\ Core.reflag (Core.insts val upd s i) = false /\ Core.acb (Core.insts val upd s i) = [] /\
  (0 < Core.direct (Core.conns val upd s c) -> Core.acc (Core.insts val upd s i) = Some true).
Proof. exact CoreProofsG.core_quiescent_validated. Qed.
Print Assumptions C06_core_quiescent_validated.

(* A re-validation answered with anything but a grant: the connection is left without the subscription (count 0, the
   Subscription object disposed), exactly one unsubscribe event is sent if it held direct subscriptions, and none of the
   events held back during the re-validation is delivered. *)
Theorem C06_core_denied_revalidation_revokes :
  forall (val upd : Type) (app : upd -> val -> val) (norm : upd -> val -> option upd) (d : val),
  (forall u v, norm u v = None -> app u v = v) ->
  (forall u v u', norm u v = Some u' -> app u' v = app u v) ->
  forall t ops c i q,
  let s := fst (Core.exec val upd app norm d t ops) in
  Core.cqueue (Core.conns val upd s c) = Core.QAccess i :: q ->
  Conv.gone val upd (Conv.subs val upd (Core.cv val upd s) i) = false -> Core.ans (Core.insts val upd s i) = Some false ->
  In Core.AVal (Core.acb (Core.insts val upd s i)) ->
  let '(s', o) := Core.step val upd app norm s (Core.GrantConn upd c) in
  Core.cur (Core.conns val upd s' c) = None /\ Core.direct (Core.conns val upd s' c) = 0 /\
  Conv.gone val upd (Conv.subs val upd (Core.cv val upd s') i) = true /\
  (0 < Core.direct (Core.conns val upd s c) ->
   Core.count_out val upd (fun o => match o with Core.OUnsubEv _ _ c' => Nat.eqb c' c | _ => false end) o = 1) /\
  (forall o', In o' o -> match o' with Core.OEvent _ _ _ _ | Core.OCustom _ _ _ => False | _ => True end).
Proof. exact CoreProofsG.core_denied_revalidation_revokes. Qed.
Print Assumptions C06_core_denied_revalidation_revokes.
