(* C06 — revocation. Property theorems only. *)
From Coq Require Import List Arith.
From RG Require Import Comp.DirectCount Pure.Access.
Import ListNotations.

(* A non-grant verdict on a re-check removes every direct subscription of the resource with exactly one unsubscribe
   event (and does nothing when there is none). *)
Theorem C06_revocation_removes_all : forall limit d,
  step limit d UnsubEvent = match d with O => (O, ONothing) | _ => (O, OEvent) end.
Proof. exact revocation_removes_all. Qed.
Print Assumptions C06_revocation_removes_all.

(* ... and what counts as a non-grant: everything except a result with get = true. *)
Theorem C06_nongrant_is_everything_else : forall a, can_get a = Granted <-> exists call, a = AResult true call.
Proof. exact can_get_granted_iff. Qed.
Print Assumptions C06_nongrant_is_everything_else.

From RG Require Import Comp.SubFsm Proofs.SubFsmProofs.

(* On the subscription machine (tied to the code by the `subfsm` direct drive), in every state: *)

(* while a re-access check is pending, nothing but its answer delivers an event to the client; *)
Theorem C06_pending_recheck_blocks_events : forall s o,
  qR s = true -> (forall a, o <> OpAnswer a) -> has_event (snd (step s o)) = false.
Proof. exact pending_recheck_blocks_events. Qed.
Print Assumptions C06_pending_recheck_blocks_events.

(* a trigger that finds the subscription busy (loading, or re-checking already) is remembered; *)
Theorem C06_trigger_while_busy_is_deferred : forall s,
  st s <> Disposed -> queueing s = true -> fReacc (fst (step s OpReaccess)) = true /\ snd (step s OpReaccess) = [].
Proof. exact trigger_while_busy_is_deferred. Qed.
Print Assumptions C06_trigger_while_busy_is_deferred.

(* a non-grant verdict revokes every direct subscription with one unsubscribe event carrying the reason, unregisters the
   subscription and delivers none of the held events. *)
Theorem C06_nongrant_revokes_all : forall s a,
  st s <> Disposed -> 0 < outst s -> acbs s = [KValidate] -> 0 < direct s -> can_get a <> VOk ->
  let '(s', o) := step s (OpAnswer a) in
  In (OUnsubEvent (can_get a)) o /\ has_event o = false /\ direct s' = 0 /\ reg s' = false /\ st s' = Disposed.
Proof. exact nongrant_revokes_all. Qed.
Print Assumptions C06_nongrant_revokes_all.
