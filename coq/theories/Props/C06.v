(* C06 — revocation. Property theorems only. *)
From Coq Require Import List Arith.
From RG Require Import Comp.DirectCount Pure.Access.
Import ListNotations.

(* A non-grant verdict on a re-check removes every direct subscription of the resource with exactly one unsubscribe
   event (and does nothing when there is none). *)
Theorem C06_revocation_removes_all : forall limit d,
  step limit d UnsubEvent = match d with O => (O, ONothing) | _ => (O, OEvent) end.
Proof. exact revocation_removes_all. Qed.
Print Assumptions C06_revocation_removes_all.

(* ... and what counts as a non-grant: everything except a result with get = true. *)
Theorem C06_nongrant_is_everything_else : forall a, can_get a = Granted <-> exists call, a = AResult true call.
Proof. exact can_get_granted_iff. Qed.
Print Assumptions C06_nongrant_is_everything_else.
