(* C01 — convergence at quiescence. Property theorems only. *)
From Coq Require Import List Arith.
From RG Require Import Comp.Conv.
Import ListNotations.

(* One cached resource, any number of subscribers, every interleaving of service mutations, the get answer,
   cache-worker steps, connection-worker steps, queue/unqueue toggles and late snapshots: in every reachable
   quiescent state each subscribed connection has loaded the resource and the copy it holds (snapshot plus every
   event delivered since) IS the state the service last announced; the cache holds the same value.
   (val/upd/app/norm are abstract: any value type, any update type whose no-op filter `norm` is sound.) *)
Theorem C01_single_resource_convergence :
  forall (val upd : Type) (app : upd -> val -> val) (norm : upd -> val -> option upd) (d : val),
  (forall u v, norm u v = None -> app u v = v) ->
  (forall u v u', norm u v = Some u' -> app u' v = app u v) ->
  forall t acts s,
  let σ := run val upd app norm d t acts in
  quiescent val upd σ -> subscribed val upd (subs val upd σ s) = true ->
  loaded val upd (subs val upd σ s) = true /\ sval val upd (subs val upd σ s) = truth val upd σ /\ rs_val val upd σ = truth val upd σ.
Proof. exact single_resource_convergence. Qed.
Print Assumptions C01_single_resource_convergence.
