(* C01 — convergence at quiescence. Property theorems only. *)
From Coq Require Import List Arith.
From RG Require Import Comp.Conv.
From RG Require Comp.Core Comp.CoreKv Proofs.CoreProofsABC Proofs.CoreProofsDEF.
Import ListNotations.

(* One cached resource, any number of subscribers, every interleaving of service mutations, the get answer,
   cache-worker steps, connection-worker steps, queue/unqueue toggles, late snapshots, disposal of subscriptions and closing
   connections: in every reachable
   quiescent state each subscribed connection whose subscription was not disposed has loaded the resource and the copy it holds (snapshot plus every
   event delivered since) IS the state the service last announced; the cache holds the same value.
   (val/upd/app/norm are abstract: any value type, any update type whose no-op filter `norm` is sound.) *)
Theorem C01_single_resource_convergence :
  forall (val upd : Type) (app : upd -> val -> val) (norm : upd -> val -> option upd) (d : val),
  (forall u v, norm u v = None -> app u v = v) ->
  (forall u v u', norm u v = Some u' -> app u' v = app u v) ->
  forall t acts s,
  let σ := run val upd app norm d t acts in
  quiescent val upd σ -> subscribed val upd (subs val upd σ s) = true -> gone val upd (subs val upd σ s) = false ->
  loaded val upd (subs val upd σ s) = true /\ sval val upd (subs val upd σ s) = truth val upd σ /\ rs_val val upd σ = truth val upd σ.
Proof. exact single_resource_convergence. Qed.
Print Assumptions C01_single_resource_convergence.

(* The integrated model Comp/Core.v (any number of connections, one flat resource; subscribe / unsubscribe requests, access
   answers that grant or deny, the get request, events, disconnects, both kinds of task queue; run in lock-step with the real
   gateway on every check): for every sequence of stimuli and scheduler grants, when nothing is left to do - both kinds of
   queue empty, every request the gateway sent answered - the copy a client keeps from the frames it was sent alone (the
   snapshot of a response that carried the resource, every change event applied in order, dropped when its subscription
   count returns to zero) is the state the service last announced, for every connected client that holds a subscription, was never
   acknowledged an unsubscribe of more subscriptions than it held and was never sent an empty resource set while it held
   nothing (the two theorems after the next show what happens otherwise). *)
Theorem C01_core_client_copy_converges :
  forall (val upd : Type) (app : upd -> val -> val) (norm : upd -> val -> option upd) (d : val),
  (forall u v, norm u v = None -> app u v = v) ->
  (forall u v u', norm u v = Some u' -> app u' v = app u v) ->
  forall t ops c,
  let s := fst (Core.exec val upd app norm d t ops) in let outs := snd (Core.exec val upd app norm d t ops) in
  Core.quiescent val upd s -> Core.disc (Core.conns val upd s c) = false -> Core.no_underflow val upd app c outs -> Core.no_bare_resp val upd app c outs ->
  0 < Core.lcnt val (Core.client val upd app c outs) ->
  Core.lcopy val (Core.client val upd app c outs) = Some (Conv.truth val upd (Core.cv val upd s)).
Proof. exact CoreProofsABC.core_convergence. Qed.
Print Assumptions C01_core_client_copy_converges.

(* Every reachable state of the integrated model is a reachable state of the single-resource core, so its invariant holds. *)
Theorem C01_core_refines_conv :
  forall (val upd : Type) (app : upd -> val -> val) (norm : upd -> val -> option upd) (d : val) t ops,
  exists acts, Core.cv val upd (fst (Core.exec val upd app norm d t ops)) = Conv.run val upd app norm d t acts.
Proof. exact CoreProofsABC.core_reachable_conv. Qed.
Print Assumptions C01_core_refines_conv.

(* Without that premise the statement is false of the unchanged code (recorded finding KF-PENDING-DROPPED in the accounting):
   an unsubscribe request that meets subscribe requests still waiting for their answers is granted against them; the client
   then counts one subscription more than the gateway, a later unsubscribe disposes the Subscription object while the client
   still holds one, and the client's copy stops following the service. Model and code agree on such histories (`core` stage). *)
Theorem C01_core_convergence_without_premise_refuted :
  exists ops : list (Core.op nat),
    let s := fst (Core.exec nat nat Nat.add (fun u _ => Some u) 0 100 ops) in
    let outs := snd (Core.exec nat nat Nat.add (fun u _ => Some u) 0 100 ops) in
    Core.quiescent nat nat s /\ Core.disc (Core.conns nat nat s 0) = false /\ 0 < Core.lcnt nat (Core.client nat nat Nat.add 0 outs) /\
    Core.lcopy nat (Core.client nat nat Nat.add 0 outs) <> Some (Conv.truth nat nat (Core.cv nat nat s)).
Proof. exact CoreProofsABC.core_convergence_refuted. Qed.
Print Assumptions C01_core_convergence_without_premise_refuted.

(* Without the second premise: during a re-validation (token event) the client asks for a second subscription and then gives
   up its first one; the gateway counts the waiting request, keeps the Subscription object "sent", and later answers the
   request with an empty resource set - a client that drops its copy when its count reaches zero ends up holding a subscription
   without the resource's data (a client that also counts its outstanding requests, as the monitors' reference client does,
   keeps the copy). Model and code agree on such histories (`core` stage). *)
Theorem C01_core_client_copy_without_second_premise_refuted :
  exists ops : list (Core.op nat),
    let s := fst (Core.exec nat nat Nat.add (fun u _ => Some u) 0 100 ops) in
    let outs := snd (Core.exec nat nat Nat.add (fun u _ => Some u) 0 100 ops) in
    Core.quiescent nat nat s /\ Core.disc (Core.conns nat nat s 0) = false /\ Core.no_underflow nat nat Nat.add 0 outs /\
    0 < Core.lcnt nat (Core.client nat nat Nat.add 0 outs) /\ Core.lcopy nat (Core.client nat nat Nat.add 0 outs) = None /\
    Conv.sent nat nat (Conv.subs nat nat (Core.cv nat nat s) 0) = true /\
    ~ Core.no_bare_resp nat nat Nat.add 0 outs.
Proof. exact CoreProofsABC.core_client_copy_without_premise_refuted. Qed.
Print Assumptions C01_core_client_copy_without_second_premise_refuted.

(* The same for the instance that is run in lock-step with the gateway (models and collections, Comp/CoreKv.v): its two
   premises are theorems (cnorm_none, cnorm_some), so nothing is assumed. *)
Theorem C01_core_kv_client_copy_converges :
  forall t ops c,
  let s := fst (Core.exec CoreKv.cval CoreKv.cupd CoreKv.capp CoreKv.cnorm (CoreKv.VM []) t ops) in
  let outs := snd (Core.exec CoreKv.cval CoreKv.cupd CoreKv.capp CoreKv.cnorm (CoreKv.VM []) t ops) in
  Core.quiescent CoreKv.cval CoreKv.cupd s -> Core.disc (Core.conns CoreKv.cval CoreKv.cupd s c) = false ->
  Core.no_underflow CoreKv.cval CoreKv.cupd CoreKv.capp c outs -> Core.no_bare_resp CoreKv.cval CoreKv.cupd CoreKv.capp c outs ->
  0 < Core.lcnt CoreKv.cval (Core.client CoreKv.cval CoreKv.cupd CoreKv.capp c outs) ->
  Core.lcopy CoreKv.cval (Core.client CoreKv.cval CoreKv.cupd CoreKv.capp c outs) = Some (Conv.truth CoreKv.cval CoreKv.cupd (Core.cv CoreKv.cval CoreKv.cupd s)).
Proof. exact (CoreProofsABC.core_convergence CoreKv.cval CoreKv.cupd CoreKv.capp CoreKv.cnorm (CoreKv.VM []) CoreKv.cnorm_none CoreKv.cnorm_some). Qed.
Print Assumptions C01_core_kv_client_copy_converges.
