(* C01 — convergence at quiescence. Property theorems only. *)
From Coq Require Import List Arith.
From RG Require Import Comp.Conv.
From RG Require Comp.Core Proofs.CoreProofs.
Import ListNotations.

(* One cached resource, any number of subscribers, every interleaving of service mutations, the get answer,
   cache-worker steps, connection-worker steps, queue/unqueue toggles and late snapshots: in every reachable
   quiescent state each subscribed connection has loaded the resource and the copy it holds (snapshot plus every
   event delivered since) IS the state the service last announced; the cache holds the same value.
   (val/upd/app/norm are abstract: any value type, any update type whose no-op filter `norm` is sound.) *)
Theorem C01_single_resource_convergence :
  forall (val upd : Type) (app : upd -> val -> val) (norm : upd -> val -> option upd) (d : val),
  (forall u v, norm u v = None -> app u v = v) ->
  (forall u v u', norm u v = Some u' -> app u' v = app u v) ->
  forall t acts s,
  let σ := run val upd app norm d t acts in
  quiescent val upd σ -> subscribed val upd (subs val upd σ s) = true ->
  loaded val upd (subs val upd σ s) = true /\ sval val upd (subs val upd σ s) = truth val upd σ /\ rs_val val upd σ = truth val upd σ.
Proof. exact single_resource_convergence. Qed.
Print Assumptions C01_single_resource_convergence.

(* The integrated model Comp/Core.v (any number of connections, one flat resource; subscribe requests with their access and
   get requests, change and custom events, both kinds of task queue; run in lock-step with the real gateway on every check):
   for every sequence of stimuli and scheduler grants, when nothing is left to do - both kinds of queue empty, every request
   the gateway sent answered - the copy a client rebuilds from the frames it was sent (the response's snapshot, then every
   change event applied in order) is the state the service last announced, for every connection that asked. *)
Theorem C01_core_client_copy_converges :
  forall (val upd : Type) (app : upd -> val -> val) (norm : upd -> val -> option upd) (d : val),
  (forall u v, norm u v = None -> app u v = v) ->
  (forall u v u', norm u v = Some u' -> app u' v = app u v) ->
  forall t ops c,
  let s := fst (Core.exec val upd app norm d t ops) in let outs := snd (Core.exec val upd app norm d t ops) in
  Core.quiescent val upd s -> Core.asked (Core.conns val upd s c) = true ->
  Core.view val upd app c outs = Some (Conv.truth val upd (Core.cv val upd s)).
Proof. exact CoreProofs.core_convergence. Qed.
Print Assumptions C01_core_client_copy_converges.

(* Every reachable state of the integrated model is a reachable state of the single-resource core, so its invariant holds. *)
Theorem C01_core_refines_conv :
  forall (val upd : Type) (app : upd -> val -> val) (norm : upd -> val -> option upd) (d : val) t ops,
  exists acts, Core.cv val upd (fst (Core.exec val upd app norm d t ops)) = Conv.run val upd app norm d t acts.
Proof. exact CoreProofs.core_reachable_conv. Qed.
Print Assumptions C01_core_refines_conv.
