(* C04 — read gating. Property theorems only. *)
From Coq Require Import List Ascii.
From RG Require Import Pure.Access.
Import ListNotations.

(* The verdict on a get is a grant exactly for an answer that is a result with get = true; every error
   (RES error, timeout, no responders, malformed answer) and a result without get is a refusal. *)
Theorem C04_can_get_granted_iff : forall a, can_get a = Granted <-> exists call, a = AResult true call.
Proof. exact can_get_granted_iff. Qed.
Print Assumptions C04_can_get_granted_iff.

(* A verdict is cached on the subscription only for an actual result or system.accessDenied: a transient failure
   (timeout, internal error, ...) is never remembered, so a later request is evaluated afresh. *)
Theorem C04_transient_errors_not_stored : forall a, stored a = false -> a = AErr false.
Proof. exact transient_errors_not_stored. Qed.
Print Assumptions C04_transient_errors_not_stored.

From RG Require Import Comp.SubFsm Proofs.SubFsmProofs.

(* On the subscription machine (tied to the code by the `subfsm` direct drive): a re-access trigger that is handled drops
   the cached verdict, arms the event guard and leaves an access request outstanding whose answer will be validated. *)
Theorem C04_trigger_drops_verdict_and_arms_guard : forall s,
  st s <> Disposed -> queueing s = false -> 0 < direct s ->
  let s' := fst (step s OpReaccess) in
  acc s' = None /\ qR s' = true /\ fCalled s' = true /\ In KValidate (acbs s').
Proof. exact trigger_drops_verdict_and_arms_guard. Qed.
Print Assumptions C04_trigger_drops_verdict_and_arms_guard.

(* The stronger statement - the outstanding request was SENT after the trigger - is false of the unchanged code (recorded
   finding KF-REACCESS-INFLIGHT); the witness runs identically on the implementation in the `subfsm` stage. *)
Theorem C04_trigger_sends_request_refuted :
  exists ops, let '(s, _) := run init ops in
    st s = Sent /\ queueing s = false /\ 0 < direct s /\ snd (step s OpReaccess) = [] /\
    snd (step (fst (step s OpReaccess)) (OpAnswer AGrant)) = [OCont 1 VOk].
Proof. exact trigger_sends_request_refuted. Qed.
Print Assumptions C04_trigger_sends_request_refuted.

(* Integrated model Comp/Core.v (run in lock-step with the real gateway on every check), every sequence of stimuli and
   scheduler grants: a response that carries the resource's data is sent to a connection only if the service answered the
   access request made for one of that connection's Subscription objects with a get grant. *)
From RG Require Comp.Conv Comp.Core Proofs.CoreProofsABC Proofs.CoreProofsDEF.
Theorem C04_core_data_needs_grant :
  forall (val upd : Type) (app : upd -> val -> val) (norm : upd -> val -> option upd) (d : val),
  (forall u v, norm u v = None -> app u v = v) ->
  (forall u v u', norm u v = Some u' -> app u' v = app u v) ->
  forall t ops c o,
  let s := fst (Core.exec val upd app norm d t ops) in let outs := snd (Core.exec val upd app norm d t ops) in
  In o outs -> Core.has_data val upd c o = true ->
  exists i, i < Core.next val upd s /\ Core.owner (Core.insts val upd s i) = c /\ In (Core.MqAccess upd i true) ops.
Proof. exact CoreProofsDEF.core_data_needs_grant. Qed.
Print Assumptions C04_core_data_needs_grant.
