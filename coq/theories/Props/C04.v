(* C04 — read gating. Property theorems only. *)
From Coq Require Import List Ascii.
From RG Require Import Pure.Access.
Import ListNotations.

(* The verdict on a get is a grant exactly for an answer that is a result with get = true; every error
   (RES error, timeout, no responders, malformed answer) and a result without get is a refusal. *)
Theorem C04_can_get_granted_iff : forall a, can_get a = Granted <-> exists call, a = AResult true call.
Proof. exact can_get_granted_iff. Qed.
Print Assumptions C04_can_get_granted_iff.

(* A verdict is cached on the subscription only for an actual result or system.accessDenied: a transient failure
   (timeout, internal error, ...) is never remembered, so a later request is evaluated afresh. *)
Theorem C04_transient_errors_not_stored : forall a, stored a = false -> a = AErr false.
Proof. exact transient_errors_not_stored. Qed.
Print Assumptions C04_transient_errors_not_stored.
