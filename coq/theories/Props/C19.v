(* C19 — throttles. Property theorems only. *)
From Coq Require Import List Arith.
From RG Require Import Comp.Throttle.
Import ListNotations.

(* With limit N >= 1, under the call contract (Done only for a started, not yet answered starter), for every
   sequence of Add/Done: no panic, at most N starters are started-but-unanswered, and starters run in Add order. *)
Theorem C19_throttle_bound : forall n ops, 1 <= n -> wf (init n) ops ->
  let h := run n ops in
  crashed h = false /\ length (started h) - ndone h <= n /\ exists rest, added h = started h ++ rest.
Proof. exact throttle_bound. Qed.
Print Assumptions C19_throttle_bound.

(* Every answer releases the next waiting one: once every started request has been answered nothing is left
   waiting, whatever the order of answers. *)
Theorem C19_throttle_progress : forall n ops, 1 <= n -> wf (init n) ops ->
  let h := run n ops in
  ndone h = length (started h) -> started h = added h.
Proof. exact throttle_progress. Qed.
Print Assumptions C19_throttle_progress.

(* Exactness: at every moment the number of requests sent is min(added, answered + N) - nothing waits while a
   slot is free and nothing is sent beyond the limit. *)
Theorem C19_throttle_exact : forall n ops, 1 <= n -> wf (init n) ops ->
  let h := run n ops in
  length (started h) = Nat.min (length (added h)) (ndone h + n).
Proof. exact throttle_exact. Qed.
Print Assumptions C19_throttle_exact.
