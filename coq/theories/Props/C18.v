(* C18 — messaging adapter contract. Property theorems only. *)
From Coq Require Import List Arith.
From RG Require Import Comp.Adapter.
Import ListNotations.

(* One request of the NATS adapter, every interleaving of replies (also duplicates and 503 no-responders), pre-responses,
   expiry of the default timer queue and of the per-request timer, and of their callbacks taking the client's lock: the
   completion callback is invoked at most once; exactly once as soon as the request is no longer pending (so never both a
   reply and a timeout); and while the request is pending some time-out path is alive, so silence ends in a timeout. *)
Theorem C18_completion_exactly_once : forall l,
  let r := run l in
  length (done r) <= 1 /\
  (sent r = true -> pending r = false -> length (done r) = 1) /\
  (pending r = true -> done r = [] /\ live r = true).
Proof. exact completion_exactly_once. Qed.
Print Assumptions C18_completion_exactly_once.
