(* C02 — every message applicable. Property theorems only. *)
From Coq Require Import List Arith.
From RG Require Import Spec.Trace Spec.Client Proofs.ClientProofs.
Import ListNotations.

(* Reference client: every resource delivered in a message's resource set resolves once the set is merged
   (so a reference to it is not dangling), and resources outside the set are untouched by the merge. *)
Theorem C02_delivered_resources_resolve : forall (rs : rset) h r,
  In r (map fst rs) -> exists d, lookup r (merge_set rs h) = Some d.
Proof. exact merged_resolves. Qed.
Print Assumptions C02_delivered_resources_resolve.

Theorem C02_merge_keeps_others : forall (rs : rset) h r,
  ~ In r (map fst rs) -> lookup r (merge_set rs h) = lookup r h.
Proof. exact merge_keeps_others. Qed.
Print Assumptions C02_merge_keeps_others.

(* An error entry in a resource set (e.g. the access error of a call's resource response) does not destroy data the
   client already holds for that resource. *)
Theorem C02_error_entry_keeps_data : forall h r code d,
  lookup r h = Some d -> (match d with RErr _ => False | _ => True end) ->
  lookup r (merge_set [(r, RErr code)] h) = Some d.
Proof. exact error_entry_keeps_data. Qed.
Print Assumptions C02_error_entry_keeps_data.

From Coq Require Import ZArith.
From RG Require Import Comp.Gc.

(* The connection-side collector (model of wsConn.removeCount / tryDelete, Subscription.Dispose / Unsend, tied to the code
   by the `gc` direct-drive correspondence): whatever the graph (sharing, cycles) and whatever its counters, collecting
   never unregisters, disposes or "unsends" a resource the client is directly subscribed to. *)
Theorem C02_collector_keeps_direct : forall g s j,
  (0 < direct (get g j))%Z -> reg (try_delete g s) j = reg g j.
Proof. exact try_delete_keeps_direct. Qed.
Print Assumptions C02_collector_keeps_direct.

(* The full statement one would want - the sent counters stay equal to the number of live sent parents - is FALSE of the
   unchanged collector (recorded finding KF-COLLECTOR-DISPOSE-SENT); the witness is replayed on the implementation by the
   `gc` stage (the model and the code agree on it). *)
Theorem C02_collector_sent_counts_refuted :
  exists g s, consistent g = true /\ consistent (remove_count g s true false 1%Z true) = false.
Proof. exact collector_keeps_sent_counts_refuted. Qed.
Print Assumptions C02_collector_sent_counts_refuted.
