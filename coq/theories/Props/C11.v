(* C11 — disconnect cleanup. Property theorems only. *)
From Coq Require Import List ZArith.
From RG Require Import Comp.UseCount.
Import ListNotations.
Open Scope Z_scope.

(* Cache side: whatever order the releases of a closing connection and late answers arrive in, the entry's count stays
   exactly its number of users (so shared entries lose exactly that connection's uses), and a release for a
   subscriber that is no longer registered is absorbed without effect. *)
Theorem C11_count_is_users : forall ops, wf empty ops -> count (run ops) = users (run ops).
Proof. intros ops H. exact (proj1 (cache_lifecycle ops H)). Qed.
Print Assumptions C11_count_is_users.

Theorem C11_late_release_absorbed : forall e s, memb s (subs e) = false -> step e (Unsub s) = e.
Proof. exact unsub_nonmember_noop. Qed.
Print Assumptions C11_late_release_absorbed.

(* Integrated model Comp/Core.v (run in lock-step with the real gateway on every check), every sequence of stimuli and
   scheduler grants, a client closing its connection at any moment: after the connection's disposal task has run (its own
   messaging subscription is given up) no frame is sent to it and no access request is made on its behalf, whatever was
   queued or outstanding for it; and once nothing is left to do none of its Subscription objects is a subscriber of the
   cached resource any more (theorem C08_core_nothing_left_behind, restated here for a closed connection). *)
From Coq Require Import List.
From RG Require Comp.Conv Comp.Core Proofs.CoreProofsABC Proofs.CoreProofsDEF.
Theorem C11_core_nothing_after_close :
  forall (val upd : Type) (app : upd -> val -> val) (norm : upd -> val -> option upd) (d : val),
  (forall u v, norm u v = None -> app u v = v) ->
  (forall u v u', norm u v = Some u' -> app u' v = app u v) ->
  forall t ops c pre post,
  snd (Core.exec val upd app norm d t ops) = pre ++ Core.OConnUnsub val upd c :: post ->
  forall o, In o post -> Core.for_conn val upd c o = false.
Proof. exact CoreProofsDEF.core_nothing_after_close. Qed.
Print Assumptions C11_core_nothing_after_close.

Theorem C11_core_released_after_close :
  forall (val upd : Type) (app : upd -> val -> val) (norm : upd -> val -> option upd) (d : val),
  (forall u v, norm u v = None -> app u v = v) ->
  (forall u v u', norm u v = Some u' -> app u' v = app u v) ->
  forall t ops i,
  let s := fst (Core.exec val upd app norm d t ops) in
  Core.quiescent val upd s -> (i < Core.next val upd s)%nat ->
  Core.cur (Core.conns val upd s (Core.owner (Core.insts val upd s i))) <> Some i ->
  Conv.mem i (Conv.rs_subs val upd (Core.cv val upd s)) = false /\
  Conv.loaded val upd (Conv.subs val upd (Core.cv val upd s) i) = false /\
  Conv.eq val upd (Conv.subs val upd (Core.cv val upd s) i) = nil.
Proof. exact CoreProofsDEF.core_cleanup. Qed.
Print Assumptions C11_core_released_after_close.

(* Single-resource core (Comp/Conv.v), every interleaving: once the queues are drained and the get request answered, a
   subscription that was disposed - its request failed, access was denied, it was unsubscribed or its connection closed, at
   whatever moment: before it was registered, while loading, with events queued - is no longer listed by the cache as a
   subscriber, is not loaded and holds no events. *)
From RG Require Comp.Conv.
Theorem C11_disposed_subscription_released :
  forall (val upd : Type) (app : upd -> val -> val) (norm : upd -> val -> option upd) (d : val),
  (forall u v, norm u v = None -> app u v = v) ->
  (forall u v u', norm u v = Some u' -> app u' v = app u v) ->
  forall t acts s,
  let σ := Conv.run val upd app norm d t acts in
  Conv.quiescent val upd σ -> Conv.gone val upd (Conv.subs val upd σ s) = true ->
  Conv.mem s (Conv.rs_subs val upd σ) = false /\ Conv.loaded val upd (Conv.subs val upd σ s) = false /\
  Conv.eq val upd (Conv.subs val upd σ s) = nil.
Proof. exact Conv.disposed_released. Qed.
Print Assumptions C11_disposed_subscription_released.
