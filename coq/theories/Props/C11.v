(* C11 — disconnect cleanup. Property theorems only. *)
From Coq Require Import List ZArith.
From RG Require Import Comp.UseCount.
Import ListNotations.
Open Scope Z_scope.

(* Cache side: whatever order the releases of a closing connection and late answers arrive in, the entry's count stays
   exactly its number of users (so shared entries lose exactly that connection's uses), and a release for a
   subscriber that is no longer registered is absorbed without effect. *)
Theorem C11_count_is_users : forall ops, wf empty ops -> count (run ops) = users (run ops).
Proof. intros ops H. exact (proj1 (cache_lifecycle ops H)). Qed.
Print Assumptions C11_count_is_users.

Theorem C11_late_release_absorbed : forall e s, memb s (subs e) = false -> step e (Unsub s) = e.
Proof. exact unsub_nonmember_noop. Qed.
Print Assumptions C11_late_release_absorbed.
