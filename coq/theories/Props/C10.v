(* C10 — connection isolation. Property theorems only. *)
From Coq Require Import List Ascii.
From RG Require Import Pure.Access.
Import ListNotations.

(* A resource id without a brace is sent to services unchanged: nothing of the requester's identity is added. *)
Theorem C10_expand_no_brace : forall s cid, forallb (fun c => negb (Ascii.eqb c brace)) s = true -> expand s cid = s.
Proof. exact expand_no_brace. Qed.
Print Assumptions C10_expand_no_brace.

(* A token reset never addresses a connection without a token id. *)
Theorem C10_token_reset_needs_tid : forall tids, token_reset_applies [] tids = false.
Proof. exact token_reset_needs_tid. Qed.
Print Assumptions C10_token_reset_needs_tid.

(* Integrated model Comp/Core.v (connections x one flat resource, both task queues, token events; run in lock-step with the real
   gateway on every check), every reachable state, every step: whatever is queued, outstanding or in progress for other
   connections, a task of connection c sends frames to c only and makes requests on c's behalf only; every access request it
   makes is for a Subscription object of c and carries c's own token as it is when the task ends; a cache task addresses nobody. *)
From RG Require Comp.Conv Comp.Core Proofs.CoreProofsI.
Theorem C10_core_isolation :
  forall (val upd : Type) (app : upd -> val -> val) (norm : upd -> val -> option upd) (d : val),
  (forall u v, norm u v = None -> app u v = v) ->
  (forall u v u', norm u v = Some u' -> app u' v = app u v) ->
  forall t ops o,
  let s := fst (Core.exec val upd app norm d t ops) in
  let '(s', outs) := Core.step val upd app norm s o in
  (forall c, o = Core.GrantConn upd c ->
     forall x, In x outs -> (CoreProofsI.addressee val upd x = None \/ CoreProofsI.addressee val upd x = Some c) /\
       match x with
       | Core.OAccessReq _ _ c' i tk => c' = c /\ Core.owner (Core.insts val upd s' i) = c /\ tk = Core.tok (Core.conns val upd s' c)
       | _ => True
       end) /\
  ((forall c, o <> Core.GrantConn upd c) -> forall x, In x outs -> CoreProofsI.addressee val upd x = None).
Proof. exact CoreProofsI.core_isolation. Qed.
Print Assumptions C10_core_isolation.

(* A connection's token is changed by its own token events only. *)
Theorem C10_core_token_own :
  forall (val upd : Type) (app : upd -> val -> val) (norm : upd -> val -> option upd) (d : val) t ops o c,
  let s := fst (Core.exec val upd app norm d t ops) in
  let s' := fst (Core.step val upd app norm s o) in
  Core.tok (Core.conns val upd s' c) <> Core.tok (Core.conns val upd s c) ->
  o = Core.GrantConn upd c /\ exists tk q, Core.cqueue (Core.conns val upd s c) = Core.QToken tk :: q.
Proof. exact CoreProofsI.core_token_own. Qed.
Print Assumptions C10_core_token_own.
