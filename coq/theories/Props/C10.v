(* C10 — connection isolation. Property theorems only. *)
From Coq Require Import List Ascii.
From RG Require Import Pure.Access.
Import ListNotations.

(* A resource id without a brace is sent to services unchanged: nothing of the requester's identity is added. *)
Theorem C10_expand_no_brace : forall s cid, forallb (fun c => negb (Ascii.eqb c brace)) s = true -> expand s cid = s.
Proof. exact expand_no_brace. Qed.
Print Assumptions C10_expand_no_brace.

(* A token reset never addresses a connection without a token id. *)
Theorem C10_token_reset_needs_tid : forall tids, token_reset_applies [] tids = false.
Proof. exact token_reset_needs_tid. Qed.
Print Assumptions C10_token_reset_needs_tid.
