(* C03 — ordered, gap-free, duplicate-free delivery. Property theorems only. *)
From Coq Require Import List Arith.
From RG Require Import Comp.Conv.
From RG Require Comp.Core Proofs.CoreProofsABC Proofs.CoreProofsDEF.
Import ListNotations.

(* Single-resource core, every schedule: in every reachable state, for every loaded subscriber, replaying the events
   still ahead of it (its own event queue, then its part of the connection queue) through its version filter, starting
   from the (version, value) it holds, lands exactly on the cache's (version, value): nothing is skipped, duplicated or
   reordered on the way from the cache to the subscriber; and every update still in flight targets a version below
   the cache's. *)
Theorem C03_events_in_flight_replay_to_cache :
  forall (val upd : Type) (app : upd -> val -> val) (norm : upd -> val -> option upd) (d : val),
  (forall u v, norm u v = None -> app u v = v) ->
  (forall u v u', norm u v = Some u' -> app u' v = app u v) ->
  forall t acts, Inv val upd app (run val upd app norm d t acts).
Proof. exact run_inv. Qed.
Print Assumptions C03_events_in_flight_replay_to_cache.

(* Integrated model (Comp/Core.v), every sequence of stimuli and grants, at every moment: while a connected client holds a
   subscription, what it has rebuilt from the frames sent to it - the snapshot of the response that carried the resource,
   then the change events in the order delivered - is exactly the copy of its current Subscription object, which has been
   sent; together with the invariant below (the events still ahead of a subscription replay to the cache's value) no event is
   skipped, duplicated or reordered between the service and the client. *)
Theorem C03_core_delivered_events_rebuild_copy :
  forall (val upd : Type) (app : upd -> val -> val) (norm : upd -> val -> option upd) (d : val),
  (forall u v, norm u v = None -> app u v = v) ->
  (forall u v u', norm u v = Some u' -> app u' v = app u v) ->
  forall t ops c,
  let s := fst (Core.exec val upd app norm d t ops) in let outs := snd (Core.exec val upd app norm d t ops) in
  Core.disc (Core.conns val upd s c) = false -> Core.no_underflow val upd app c outs -> Core.no_bare_resp val upd app c outs ->
  0 < Core.lcnt val (Core.client val upd app c outs) ->
  exists i, Core.cur (Core.conns val upd s c) = Some i /\ Conv.sent val upd (Conv.subs val upd (Core.cv val upd s) i) = true /\
            Core.lcopy val (Core.client val upd app c outs) = Some (Conv.sval val upd (Conv.subs val upd (Core.cv val upd s) i)).
Proof. exact CoreProofsABC.core_client_copy. Qed.
Print Assumptions C03_core_delivered_events_rebuild_copy.

Theorem C03_core_inv :
  forall (val upd : Type) (app : upd -> val -> val) (norm : upd -> val -> option upd) (d : val),
  (forall u v, norm u v = None -> app u v = v) ->
  (forall u v u', norm u v = Some u' -> app u' v = app u v) ->
  forall t ops, Inv val upd app (Core.cv val upd (fst (Core.exec val upd app norm d t ops))).
Proof. exact CoreProofsABC.core_conv_inv. Qed.
Print Assumptions C03_core_inv.
