(* C03 — ordered, gap-free, duplicate-free delivery. Property theorems only. *)
From Coq Require Import List Arith.
From RG Require Import Comp.Conv.
Import ListNotations.

(* Single-resource core, every schedule: in every reachable state, for every loaded subscriber, replaying the events
   still ahead of it (its own event queue, then its part of the connection queue) through its version filter, starting
   from the (version, value) it holds, lands exactly on the cache's (version, value): nothing is skipped, duplicated or
   reordered on the way from the cache to the subscriber; and every update still in flight targets a version below
   the cache's. *)
Theorem C03_events_in_flight_replay_to_cache :
  forall (val upd : Type) (app : upd -> val -> val) (norm : upd -> val -> option upd) (d : val),
  (forall u v, norm u v = None -> app u v = v) ->
  (forall u v u', norm u v = Some u' -> app u' v = app u v) ->
  forall t acts, Inv val upd app (run val upd app norm d t acts).
Proof. exact run_inv. Qed.
Print Assumptions C03_events_in_flight_replay_to_cache.
