(* C12 — system reset: wildcard matching and the derived diff. Property theorems only. *)
From Coq Require Import List Ascii ZArith.
From RG Require Import Base.Value Pure.Pattern Pure.Lcs Pure.LcsTab.
Import ListNotations.

(* For every valid pattern and every name with non-empty dot-free tokens, the matcher's wildcard loop is
   token-wise NATS matching: `*` exactly one token, `>` one or more trailing tokens. *)
Theorem C12_wildcard_loop_is_token_matching : forall pt st,
  valid_pat pt -> Forall name_tok st -> pt <> [] -> st <> [] ->
  pmatch (join pt) (join st) = spec pt st.
Proof. exact pmatch_spec. Qed.
Print Assumptions C12_wildcard_loop_is_token_matching.

(* For any old and new collection (repeated values included) the remove/add events derived by the diff routine,
   applied in order to the old collection, succeed with every index in range and yield the new collection
   (up to Value.Equal). *)
Theorem C12_collection_diff_patches : forall a b : list value,
  exists b', apply_evs (lcs_model veq a b) a = Some b' /\ Forall2 (vrel veq) b' b.
Proof. exact (lcs_model_patch veq). Qed.
Print Assumptions C12_collection_diff_patches.

(* Unchanged content yields no event. *)
Theorem C12_unchanged_collection_no_event : forall a b : list value,
  Forall2 (fun x y => veq x y = true) a b -> lcs_model veq a b = [].
Proof. exact (lcs_model_same_nil veq). Qed.
Print Assumptions C12_unchanged_collection_no_event.

From RG Require Import Pure.PatternParse Proofs.PatternParseProofs.

(* The pattern parser accepts exactly the well-formed patterns (tokens of bytes 33..126 without '?', `*` alone in
   its token, `>` alone and last) and computes its wildcard flag correctly. *)
Theorem C12_parse_accepts_wellformed : forall pt, wf_pat pt -> parse (join pt) = Some (has_wild pt).
Proof. exact parse_join. Qed.
Print Assumptions C12_parse_accepts_wellformed.

Theorem C12_parse_accepts_only_wellformed : forall p w,
  parse p = Some w -> exists pt, wf_pat pt /\ p = join pt /\ w = has_wild pt.
Proof. exact parse_sound. Qed.
Print Assumptions C12_parse_accepts_only_wellformed.

(* The complete Match (string comparison without wildcards, the loop with wildcards) is NATS token matching for
   every valid pattern and every name of non-empty dot-free tokens. *)
Theorem C12_match_is_token_matching : forall pt st,
  wf_pat pt -> st <> [] -> Forall name_tok st ->
  match_model (join pt) (join st) = spec pt st.
Proof. exact match_model_correct. Qed.
Print Assumptions C12_match_is_token_matching.

(* Invalid patterns match nothing. *)
Theorem C12_invalid_pattern_matches_nothing : forall p s, parse p = None -> match_model p s = false.
Proof. exact invalid_matches_nothing. Qed.
Print Assumptions C12_invalid_pattern_matches_nothing.

From RG Require Import Pure.ModelDiff Proofs.ModelDiffProofs.

(* Models: for any cached model and any re-fetched model (neither containing delete actions as stored values —
   the decoder rejects those), processing the derived change event makes the cache equal to the re-fetched model. *)
Theorem C12_model_reset_converges : forall old new, uniq old -> uniq new ->
  (forall k v, lookup k new = Some v -> v <> VDelete) ->
  (forall k v, lookup k old = Some v -> v <> VDelete) ->
  let '(eff, m') := apply_change (reset_props old new) old in
  forall k, lookup k m' = lookup k new.
Proof. exact reset_converges_partial. Qed.
Print Assumptions C12_model_reset_converges.

(* ... and the change event a client is sent (with delete actions), applied to the client's copy, gives exactly what
   the cache stores. *)
Theorem C12_model_change_event_client_agrees : forall props m,
  let '(eff, m') := apply_change props m in
  forall k, lookup k (client_apply eff m) = lookup k m'.
Proof. exact apply_change_client_lookup_only. Qed.
Print Assumptions C12_model_change_event_client_agrees.

(* Unchanged content yields no event, and only unchanged content does. *)
Theorem C12_model_reset_noop_iff : forall old new, uniq old -> uniq new ->
  (forall k v, lookup k new = Some v -> v <> VDelete) ->
  (forall k v, lookup k old = Some v -> v <> VDelete) ->
  (reset_props old new = [] <-> forall k, lookup k old = lookup k new).
Proof. exact reset_noop_iff_partial. Qed.
Print Assumptions C12_model_reset_noop_iff.
