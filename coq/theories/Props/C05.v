(* C05 — call gating: property theorems only. Each is closed by `exact` of a lemma proved elsewhere. *)
From Coq Require Import List Ascii.
From RG Require Import Pure.CanCall.
Import ListNotations.

(* The method check grants exactly "*" alone, or an exact entry of a non-empty comma separated list;
   for all byte strings (prefixes, suffixes, substrings and empty entries included). *)
Theorem C05_can_call_spec : forall call act,
  can_call call act = true <-> call = [star] \/ (call <> [] /\ In act (entries call)).
Proof. exact can_call_spec. Qed.
Print Assumptions C05_can_call_spec.
