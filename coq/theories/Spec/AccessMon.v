(* Monitors for access gating (C04), call gating and token currency (C05), revocation (C06) and
   connection isolation (C10). They run on top of the reference-client monitor (for the direct-subscription
   ledger) and use the proved method-list scanner can_call. *)
From Coq Require Import List Arith ZArith Bool Ascii.
From RG Require Import Spec.Trace Spec.Client Spec.Monitors Pure.CanCall.
Import ListNotations.

Inductive akind :=
| AUngrantedRead        (* C04: resource data delivered without a valid get grant *)
| AUngrantedCall        (* C05: call forwarded without a valid grant for the method *)
| AStaleToken           (* C05: a service request carries a token that is not the connection's current one *)
| AWrongCid             (* C10: a service request made by connection c's worker carries another connection's id *)
| ACidLeak              (* C10: a frame sent to a client contains a connection id *)
| AWrongTokenReset      (* C10: a token-reset request was made for a connection whose token id no reset names *)
| ANoReaccess           (* C06: a trigger was not followed by an access request for an affected direct subscription *)
| ANoRevocation         (* C06: a non-grant re-access verdict was not followed by an unsubscribe event *)
| ADeliveredDuringRecheck. (* C06: an event that reached the gateway after the trigger was delivered before the verdict *)

Record aviol := { av_kind : akind; av_c : conn; av_r : rid; av_pos : nat }.

(* an access request and its answer *)
Record areq := { a_n : nat; a_c : conn; a_r : rid; a_tok : nat; a_pos : nat;
                 a_ans : option (option (bool * list ascii)) }.   (* None: unanswered; Some None: error *)

(* an invalidation: token event (Some c, None), reaccess / reset-access (None, Some r) *)
Record inval := { i_c : option conn; i_r : option rid; i_pos : nat; i_settled : bool }.

(* a revocation obligation for a direct subscription *)
Record oblig := { o_c : conn; o_r : rid; o_pos : nat;
                  o_req : option nat;          (* the re-access request seen after the trigger *)
                  o_verdict : option bool;     (* Some true = grant *)
                  o_unsub : bool;              (* unsubscribe event seen after a non-grant verdict *)
                  o_sub : option nat }.        (* Some id: opened for the subscription that request id is establishing *)

Record astate := {
  base : mstate;
  areqs : list areq;
  invals : list inval;
  obligs : list oblig;
  toks : list (conn * list nat);      (* tokens in effect since the last quiescent point, current first *)
  cur : option conn;                  (* connection whose worker runs the current task *)
  evpos : list (rid * list (sevent * nat));   (* service events with the position at which they reached the gateway *)
  tids : list (conn * nat);           (* token id in effect per connection (0 = none) *)
  tresets : list (list nat);          (* token ids named by the token resets seen so far *)
  aviols : list aviol;
  apos : nat
}.

Definition astate0 : astate :=
  {| base := mstate0; areqs := []; invals := []; obligs := []; toks := []; cur := None; evpos := []; tids := []; tresets := [];
     aviols := []; apos := 0 |}.

Definition upd (st : astate) (b : mstate) (ar : list areq) (iv : list inval) (ob : list oblig) (tk : list (conn * list nat))
               (cu : option conn) (ep : list (rid * list (sevent * nat))) : astate :=
  {| base := b; areqs := ar; invals := iv; obligs := ob; toks := tk; cur := cu; evpos := ep; tids := tids st; tresets := tresets st;
     aviols := aviols st; apos := apos st |}.

Definition set_tids (st : astate) (td : list (conn * nat)) (tr : list (list nat)) : astate :=
  {| base := base st; areqs := areqs st; invals := invals st; obligs := obligs st; toks := toks st; cur := cur st; evpos := evpos st;
     tids := td; tresets := tr; aviols := aviols st; apos := apos st |}.

Definition aviol_add (st : astate) (k : akind) (c : conn) (r : rid) : astate :=
  {| base := base st; areqs := areqs st; invals := invals st; obligs := obligs st; toks := toks st; cur := cur st; evpos := evpos st;
     tids := tids st; tresets := tresets st;
     aviols := aviols st ++ [{| av_kind := k; av_c := c; av_r := r; av_pos := apos st |}]; apos := apos st |}.

Definition tokens_of (st : astate) (c : conn) : list nat :=
  match Client.lookup c (toks st) with Some l => l | None => [0] end.
Definition cur_token (st : astate) (c : conn) : nat := hd 0 (tokens_of st c).

Definition inval_matches (i : inval) (c : conn) (r : rid) : bool :=
  match i_c i, i_r i with
  | Some c', _ => Nat.eqb c c'
  | None, Some r' => Nat.eqb (base_of r) r'
  | None, None => false
  end.

(* a grant usable for (c, r): answered, positive for the predicate, and requested after every settled invalidation *)
Definition valid_grant (st : astate) (c : conn) (r : rid) (p : bool * list ascii -> bool) : bool :=
  existsb (fun a =>
    Nat.eqb (a_c a) c && Nat.eqb (a_r a) (base_of r) &&     (* access is per resource name; the query travels in the payload *)
    match a_ans a with Some (Some g) => p g | _ => false end &&
    forallb (fun i => negb (i_settled i && inval_matches i c r) || Nat.ltb (i_pos i) (a_pos a)) (invals st)) (areqs st).

Definition check_read (st : astate) (c : conn) (r : rid) : astate :=
  if valid_grant st c r (fun g => fst g) then st else aviol_add st AUngrantedRead c r.

Definition data_for (r : rid) (rs : rset) : bool :=
  match Client.lookup r rs with Some (RErr _) => false | Some _ => true | None => false end.

Definition req_of (st : astate) (c : conn) (id : nat) : option (rkind * rid * Z) :=
  fst (take_req c id (reqs (base st))).

(* a subscribe request for r that the gateway has not answered yet: the subscription being established is subject to
   re-access like an established one (the gateway re-checks it right after the response) *)
Definition sub_pending (st : astate) (c : conn) (r : rid) : bool :=
  existsb (fun x => Nat.eqb (fst x) c &&
                    match snd (snd x) with (KSub, r', _) => Nat.eqb r' r | _ => false end) (reqs (base st)).

Definition affected (st : astate) (c : conn) (r : rid) : bool :=
  negb (Nat.eqb (dcount (get_client (base st) c) r) 0).

Definition req_open (st : astate) (c : conn) (id : nat) : bool :=
  existsb (fun x => Nat.eqb (fst x) c && Nat.eqb (fst (snd x)) id) (reqs (base st)).

(* open a revocation obligation for every direct subscription matched by the trigger *)
Definition open_obligs (st : astate) (sel : conn -> rid -> bool) : list oblig :=
  flat_map (fun cc =>
    let '(c, cl) := cc in
    if Client.mem c (gone (base st)) then [] else
    flat_map (fun dr => if negb (Nat.eqb (snd dr) 0) && sel c (fst dr)
                        then [{| o_c := c; o_r := fst dr; o_pos := apos st; o_req := None; o_verdict := None; o_unsub := false; o_sub := None |}]
                        else []) (direct cl)) (clients (base st)).

Definition ev_pos_of (st : astate) (r : rid) (d : sevent) : option nat :=
  match Client.lookup r (evpos st) with
  | Some l => match find (fun x => ev_match (fst x) d) l with Some x => Some (snd x) | None => None end
  | None => None
  end.

Definition unique_tag (d : sevent) : bool :=
  match d with
  | SChange ch => match Client.lookup 9 ch with Some _ => true | None => false end
  | SCustom _ => true
  | _ => false
  end.

(* C06: an event that reached the gateway after an open trigger must not be delivered before the verdict *)
Definition check_delivery (st : astate) (c : conn) (r : rid) (d : sevent) : astate :=
  if negb (unique_tag d) then st else
  match ev_pos_of st r d with
  | None => st
  | Some pe =>
      if affected st c r &&   (* the re-check concerns direct subscriptions only; the client may hold the resource indirectly *)
         existsb (fun o => Nat.eqb (o_c o) c && Nat.eqb (o_r o) r && Nat.ltb (o_pos o) pe &&
                           match o_verdict o with None => true | Some _ => false end) (obligs st)
      then aviol_add st ADeliveredDuringRecheck c r else st
  end.

Definition astep (st : astate) (e : tev) : astate :=
  let st := {| base := base st; areqs := areqs st; invals := invals st; obligs := obligs st; toks := toks st; cur := cur st;
               evpos := evpos st; tids := tids st; tresets := tresets st; aviols := aviols st; apos := S (apos st) |} in
  (* checks that need the state before the reference client processes the frame *)
  let st :=
    if match frame_conn e with Some c => Client.mem c (gone (base st)) | None => false end then st else
    match e with
    | TRespOk c id rs =>
        match req_of st c id with
        | Some ((KSub | KGet), r, _) => if data_for r rs || negb (Nat.eqb (length rs) 0) || true then
                                          (* the requested resource's data may be absent from the set when already held: the
                                             grant is needed all the same *)
                                          check_read st c r else st
        | _ => st
        end
    | TRespRid c id r rs => if data_for r rs then check_read st c r else st
    | TEvChange c r ch _ => check_delivery st c r (SChange ch)
    | TEvCustom c r tag => check_delivery st c r (SCustom tag)
    | TEvUnsub c r _ =>
        upd st (base st) (areqs st) (invals st)
            (map (fun o => if Nat.eqb (o_c o) c && Nat.eqb (o_r o) r
                           then {| o_c := o_c o; o_r := o_r o; o_pos := o_pos o; o_req := o_req o; o_verdict := o_verdict o; o_unsub := true; o_sub := o_sub o |}
                           else o) (obligs st)) (toks st) (cur st) (evpos st)
    | TRawOut c leak => if leak then aviol_add st ACidLeak c 0 else st
    | _ => st
    end in
  let b' := Monitors.step (base st) e in
  let st := upd st b' (areqs st) (invals st) (obligs st) (toks st) (cur st) (evpos st) in
  (* an obligation ends as soon as the client holds no direct subscription any more (unsubscribe event, its own
     unsubscribe request, disconnect) *)
  let st := upd st (base st) (areqs st) (invals st)
                (map (fun o =>
                        match o_sub o with
                        | Some id =>
                            (* the subscription is still being established: the obligation stands; once the subscribe request
                               is answered it becomes an ordinary one (or ends, when the subscribe failed) *)
                            if req_open st (o_c o) id then o
                            else if affected st (o_c o) (o_r o)
                                 then {| o_c := o_c o; o_r := o_r o; o_pos := o_pos o; o_req := o_req o; o_verdict := o_verdict o; o_unsub := o_unsub o; o_sub := None |}
                                 else {| o_c := o_c o; o_r := o_r o; o_pos := o_pos o; o_req := o_req o; o_verdict := o_verdict o; o_unsub := true; o_sub := None |}
                        | None =>
                            if affected st (o_c o) (o_r o) then o
                            else {| o_c := o_c o; o_r := o_r o; o_pos := o_pos o; o_req := o_req o; o_verdict := o_verdict o; o_unsub := true; o_sub := None |}
                        end)
                     (obligs st)) (toks st) (cur st) (evpos st) in
  match e with
  | TSched w => upd st (base st) (areqs st) (invals st) (obligs st) (toks st) w (evpos st)
  | TConn c => upd st (base st) (areqs st) (invals st) (obligs st) (Client.set_k c [0] (toks st)) (cur st) (evpos st)
  | TConnToken c tok =>
      let had := negb (Nat.eqb (cur_token st c) 0) in
      let st' := upd st (base st) (areqs st) (invals st) (obligs st) (Client.set_k c (tok :: tokens_of st c) (toks st)) (cur st) (evpos st) in
      if had then
        upd st' (base st') (areqs st') ({| i_c := Some c; i_r := None; i_pos := apos st; i_settled := false |} :: invals st')
            (open_obligs st (fun c' _ => Nat.eqb c' c) ++ obligs st') (toks st') (cur st') (evpos st')
      else st'
  | TReaccessDeferred c r =>
      (* the gateway itself registered a trigger for a subscription that is still being established (no direct
         subscription at the client yet) and deferred the re-check: it is owed once the subscribe request is answered *)
      if negb (affected st c r) &&
         negb (existsb (fun o => Nat.eqb (o_c o) c && Nat.eqb (o_r o) r && match o_verdict o with None => negb (o_unsub o) | Some _ => false end) (obligs st))
      then (* the outstanding subscribe request with the smallest id is the one answered first *)
           match filter (fun x => Nat.eqb (fst x) c && match snd (snd x) with (KSub, r', _) => Nat.eqb r' r | _ => false end) (reqs (base st)) with
           | x0 :: xs =>
               let x := fold_left (fun a b => if Nat.ltb (fst (snd b)) (fst (snd a)) then b else a) xs x0 in
               upd st (base st) (areqs st) (invals st)
                   ({| o_c := c; o_r := r; o_pos := apos st; o_req := None; o_verdict := None; o_unsub := false; o_sub := Some (fst (snd x)) |} :: obligs st)
                   (toks st) (cur st) (evpos st)
           | [] => st
           end
      else st
  | TTokenResetEv l => set_tids st (tids st) (l :: tresets st)
  | TTokenTask c tok tid =>
      let st := set_tids st (Client.set_k c tid (tids st)) (tresets st) in
      (* from here on the token is in effect: every request made on the connection's behalf carries it, or one announced
         after it (tokens are listed newest first) *)
      let fix keep (l : list nat) : list nat * bool :=     (* the prefix up to the oldest occurrence of tok *)
        match l with
        | [] => ([], false)
        | t :: l' => let '(k, f) := keep l' in
                     if f then (t :: k, true) else if Nat.eqb t tok then ([t], true) else (t :: k, false)
        end in
      upd st (base st) (areqs st) (invals st) (obligs st) (Client.set_k c (fst (keep (tokens_of st c))) (toks st)) (cur st) (evpos st)
  | TMqEv r ev =>
      let l := match Client.lookup r (evpos st) with Some l => l | None => [] end in
      let st := upd st (base st) (areqs st) (invals st) (obligs st) (toks st) (cur st) (Client.set_k r (l ++ [(ev, apos st)]) (evpos st)) in
      match ev with
      | SReaccess =>
          upd st (base st) (areqs st) ({| i_c := None; i_r := Some r; i_pos := apos st; i_settled := false |} :: invals st)
              (open_obligs st (fun _ r' => Nat.eqb r' r) ++ obligs st) (toks st) (cur st) (evpos st)
      | _ => st
      end
  | TSysReset _ acc0 =>
      let acc := nodup Nat.eq_dec acc0 in
      upd st (base st) (areqs st)
          (map (fun r => {| i_c := None; i_r := Some r; i_pos := apos st; i_settled := false |}) acc ++ invals st)
          (open_obligs st (fun _ r' => Client.mem r' acc) ++ obligs st) (toks st) (cur st) (evpos st)
  | TMqReq n t r c tok meth =>
      let st :=
        match c with
        | Some c' =>
            let st := if Client.mem tok (tokens_of st c') then st else aviol_add st AStaleToken c' r in
            match cur st with
            | Some cx => if Nat.eqb cx c' then st else aviol_add st AWrongCid c' r
            | None => st
            end
        | None => st
        end in
      match t, c with
      | MTokReset, Some c' =>
          (* C10: only a connection whose current token id is named by some token reset is asked to renew *)
          let tid := match Client.lookup c' (tids st) with Some t => t | None => 0 end in
          if negb (Nat.eqb tid 0) && existsb (fun l => Client.mem tid l) (tresets st) then st
          else aviol_add st AWrongTokenReset c' r
      | MAccess, Some c' =>
          let st := upd st (base st) ({| a_n := n; a_c := c'; a_r := r; a_tok := tok; a_pos := apos st; a_ans := None |} :: areqs st)
                        (invals st) (obligs st) (toks st) (cur st) (evpos st) in
          (* the first access request with the current token after a trigger discharges the first half of the obligation *)
          upd st (base st) (areqs st) (invals st)
              (map (fun o => if Nat.eqb (o_c o) c' && Nat.eqb (o_r o) r && match o_req o with None => true | Some _ => false end
                                && Client.mem tok (tokens_of st c')   (* a token in effect since the last quiescent point *)
                             then {| o_c := o_c o; o_r := o_r o; o_pos := o_pos o; o_req := Some n; o_verdict := None; o_unsub := false; o_sub := o_sub o |}
                             else o) (obligs st)) (toks st) (cur st) (evpos st)
      | MCall, Some c' =>
          if valid_grant st c' r (fun g => can_call (snd g) meth) then st else aviol_add st AUngrantedCall c' r
      | _, _ => st
      end
  | TMqResp n r o =>
      let ans := match o with OAccess g call => Some (Some (g, call)) | _ => Some None end in
      let verdict := match o with OAccess g _ => g | _ => false end in
      upd st (base st)
          (map (fun a => if Nat.eqb (a_n a) n then {| a_n := a_n a; a_c := a_c a; a_r := a_r a; a_tok := a_tok a; a_pos := a_pos a; a_ans := ans |} else a) (areqs st))
          (invals st)
          (map (fun ob => match o_req ob with
                          | Some m => if Nat.eqb m n then {| o_c := o_c ob; o_r := o_r ob; o_pos := o_pos ob; o_req := o_req ob;
                                                            o_verdict := Some verdict;
                                                            (* a subscription still being established is not revoked by an
                                                               unsubscribe event: a non-grant makes the subscribe fail, or
                                                               belongs to another request and the subscribe checks again *)
                                                            o_unsub := match o_sub ob with Some _ => negb verdict | None => false end;
                                                            o_sub := o_sub ob |} else ob
                          | None => ob
                          end) (obligs st)) (toks st) (cur st) (evpos st)
  | TQ _ _ _ _ =>
      (* quiescent: every trigger has been processed *)
      let st := fold_left (fun s ob =>
                  if Client.mem (o_c ob) (gone (base s)) then s else
                  match o_req ob, o_verdict ob with
                  | None, _ => if o_unsub ob then s else aviol_add s ANoReaccess (o_c ob) (o_r ob)
                  | Some _, Some false => if o_unsub ob then s
                                          else aviol_add s ANoRevocation (o_c ob) (o_r ob)
                  | _, _ => s
                  end) (obligs st) st in
      upd st (base st) (areqs st)
          (map (fun i => {| i_c := i_c i; i_r := i_r i; i_pos := i_pos i; i_settled := true |}) (invals st))
          [] (map (fun x => (fst x, [hd 0 (snd x)])) (toks st)) (cur st) (evpos st)
  | _ => st
  end.

Definition amonitor (tr : list tev) : list aviol := aviols (fold_left astep tr astate0).
