(* Monitor for the HTTP side (C14, C17; C04/C05/C11 are covered by presenting each HTTP request to the other monitors as
   a short-lived connection making one get / call request).  Status codes and error codes of HTTP responses against the
   proved status table (Pure/Status.v), and what becomes of requests whose URL is no resource id. *)
From Coq Require Import List Arith ZArith Bool.
From RG Require Import Spec.Trace Pure.Status.
Import ListNotations.

Inductive hkind :=
| HStatusTable          (* C17: the status of an error response is not the one the table gives for its error code *)
| HCodeOrigin           (* C17: the error code of the response was neither given by a service for this request nor one the
                           gateway raises itself for such a request (e.g. methodNotFound turned into methodNotAllowed on GET) *)
| HInvalidForwarded.    (* C14: a URL that is no valid resource id / method was not answered 404, or reached a service *)

Record hviol := { hv_kind : hkind; hv_h : conn; hv_pos : nat }.

Record hreq := { q_h : conn; q_m : nat (* 0 GET 1 HEAD 2 POST 3 other *); q_valid : bool; q_nreq : nat; q_errs : list code }.

Record hstate := { hreqs : list hreq; hviols : list hviol; hpos : nat }.
Definition hstate0 : hstate := {| hreqs := []; hviols := []; hpos := 0 |}.

Definition code_eqb (a b : code) : bool :=
  match a, b with
  | AccessDenied, AccessDenied | InternalError, InternalError | InvalidParams, InvalidParams | InvalidQuery, InvalidQuery
  | MethodNotFound, MethodNotFound | NoSubscription, NoSubscription | NotFound, NotFound | Timeout, Timeout
  | InvalidRequest, InvalidRequest | UnsupportedProtocol, UnsupportedProtocol | SubjectTooLong, SubjectTooLong
  | Deleted, Deleted | BadRequest, BadRequest | MethodNotAllowed, MethodNotAllowed | ServiceUnavailable, ServiceUnavailable
  | Forbidden, Forbidden | NotImplemented, NotImplemented | OtherCode, OtherCode => true
  | _, _ => false
  end.

Definition upd_req (st : hstate) (h : conn) (f : hreq -> hreq) : hstate :=
  {| hreqs := map (fun q => if Nat.eqb (q_h q) h then f q else q) (hreqs st); hviols := hviols st; hpos := hpos st |}.

Definition hviol_add (st : hstate) (k : hkind) (h : conn) : hstate :=
  {| hreqs := hreqs st; hviols := hviols st ++ [{| hv_kind := k; hv_h := h; hv_pos := hpos st |}]; hpos := hpos st |}.

(* error codes the gateway raises itself, by request shape *)
Definition gateway_code (q : hreq) (c : code) : bool :=
  match c with
  | AccessDenied => true                               (* an access answer without the needed grant *)
  | NotFound => negb (q_valid q)                       (* not a resource id *)
  | MethodNotAllowed => Nat.eqb (q_m q) 3              (* a method other than GET, HEAD, POST *)
  | ServiceUnavailable | SubjectTooLong | Forbidden => true
  | _ => false
  end.

Definition hstep (st : hstate) (e : tev) : hstate :=
  let st := {| hreqs := hreqs st; hviols := hviols st; hpos := S (hpos st) |} in
  match e with
  | THttpReq h m valid _ =>
      {| hreqs := {| q_h := h; q_m := m; q_valid := valid; q_nreq := 0; q_errs := [] |} :: hreqs st; hviols := hviols st; hpos := hpos st |}
  | TMqReq _ _ _ (Some c) _ _ =>
      upd_req st c (fun q => {| q_h := q_h q; q_m := q_m q; q_valid := q_valid q; q_nreq := S (q_nreq q); q_errs := q_errs q |})
  | THttpSvcErr h c =>
      upd_req st h (fun q => {| q_h := q_h q; q_m := q_m q; q_valid := q_valid q; q_nreq := q_nreq q; q_errs := c :: q_errs q |})
  | THttpResp h status kind c =>
      match find (fun q => Nat.eqb (q_h q) h) (hreqs st) with
      | None => st
      | Some q =>
          let st := if negb (q_valid q) && Nat.eqb (q_m q) 3 then st      (* an unmapped method is refused before the URL is looked at *)
                    else if negb (q_valid q) && (negb (Nat.eqb status 404) || negb (Nat.eqb (q_nreq q) 0))
                    then hviol_add st HInvalidForwarded h else st in
          let st := if Nat.eqb kind 1 then
                      let st := if Z.eqb (Z.of_nat status) (error_status c) then st else hviol_add st HStatusTable h in
                      if existsb (code_eqb c) (q_errs q) || gateway_code q c then st else hviol_add st HCodeOrigin h
                    else st in
          {| hreqs := filter (fun q' => negb (Nat.eqb (q_h q') h)) (hreqs st); hviols := hviols st; hpos := hpos st |}
      end
  | _ => st
  end.

Definition hmonitor (tr : list tev) : list hviol := hviols (fold_left hstep tr hstate0).
