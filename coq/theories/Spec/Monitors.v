(* Property monitors: decidable folds over the observable trace. Each returns the list of violations
   it finds. They are the formal statements of the system-level properties, evaluated (after extraction)
   on traces of the real gateway and, where a model produces traces, on model traces. *)
From Coq Require Import List Arith ZArith Bool.
From RG Require Import Spec.Trace Spec.Client.
Import ListNotations.

Inductive vkind :=
| VDangling            (* C02: a retained resource references a resource the client has no data for *)
| VStrayEvent          (* C02: event for a resource the client does not hold *)
| VWrongKind           (* C02: change on a collection / add-remove on a model / event on an error placeholder *)
| VBadIndex            (* C02: add/remove index outside the client's collection *)
| VDiverged            (* C01: at quiescence the client's copy differs from the service's state *)
| VGap                 (* C03: delivered events are not a contiguous, ordered, duplicate-free run of the stream *)
| VMissingAtQ          (* C03: at quiescence events of a held resource were never delivered *)
| VUnrequested         (* C07: response for an id that is not outstanding (never requested, or answered twice) *)
| VUnanswered          (* C07: at quiescence a request has no response *)
| VUnsubOver           (* C08: unsubscribe succeeded although fewer direct subscriptions were held *)
| VUnsubUnder          (* C08: unsubscribe failed although enough direct subscriptions were held *)
| VBadCount            (* C08: invalid count accepted / valid count answered invalidParams *)
| VLedger              (* C08: at quiescence the gateway's direct count differs from the ledger *)
| VUnsubEventNoDirect  (* C08/C06: unsubscribe event for a resource without direct subscription *)
| VGetWithoutSub       (* C09: get request for a resource without a standing event subscription *)
| VCountMismatch       (* C09: at quiescence an entry's use count differs from its number of subscribers *)
| VEvictQueue          (* C09: an unused entry is not waiting for eviction, or a used one is *)
| VOrphanSub           (* C09: event subscription without cache entry or entry without event subscription *)
| VServedUnsubscribed  (* C09: resource data served without a get since the event subscription was (re)made *)
| VNotFreed            (* C09: with no clients and all timers fired, entries or event subscriptions remain *)
| VConnLeft            (* C11: after a disconnect and quiescence the gateway still holds state for the connection *)
| VRequestAfterClose   (* C11: a service request on behalf of a connection closed before the previous quiescent point *)
| VSpuriousRefetch     (* C12: a loaded resource was re-fetched without a system reset matching it *)
| VMissedRefetch       (* C12: a system reset matched a loaded resource that was not re-fetched *)
| VThrottleExceeded    (* C19: more re-fetch requests of one system reset outstanding than the reset throttle allows *)
| VThrottleStuck       (* C19: a re-fetch governed by the reset throttle was never sent *)
| VQueryRequests.      (* C13: a query event was not followed by exactly one query request per loaded query variant *)

Record viol := { v_kind : vkind; v_c : conn; v_r : rid; v_pos : nat }.

Record mstate := {
  clients : list (conn * client);
  reqs : list (conn * (nat * (rkind * rid * Z)));     (* outstanding requests *)
  stream : list (rid * list sevent);                   (* per resource: events emitted so far (oldest first) *)
  ptrs : list (conn * (rid * list nat));               (* C03: candidate positions of the next expected event *)
  viols : list viol;
  pos : nat;
  gone : list conn;                                     (* clients that closed their socket: they see no further frame *)
  mqsubs : list rid;                                    (* resources with a standing event subscription *)
  thr : nat;                                            (* resetThrottle of the gateway under test (0 = unlimited) *)
  rsflag : list rid;                                    (* resources whose re-fetch the gateway has started and not finished processing
                                                           (between the site marks reset.start and reset.done) *)
  stale : list rid;                                     (* resources whose reset re-fetch failed (service fault): events that arrived
                                                           during the re-fetch are lost with it, so convergence is not owed until
                                                           the next successful re-fetch *)
  legacy : list conn;                                   (* connections that negotiated a protocol version before 1.2.1 *)
  single : nat;                                         (* system resets seen since the last quiescent point *)
  pgets : list (nat * rid);                             (* get requests still unanswered (request number, resource) *)
  fetched : list rid;                                   (* resources fetched (get answered with content) under the standing subscription *)
  connsubs : list conn;                                 (* connections with a standing conn-event subscription *)
  settled_gone : list conn;                             (* closed connections for which a quiescent point has passed *)
  accreq : list (nat * (conn * rid));                   (* access requests by request number *)
  lastacc : list (conn * (rid * option nat));           (* latest access answer per connection and resource: None = get granted, Some code = refused with that error code *)
  reqpos : list (conn * (nat * nat));                   (* position at which each outstanding request was sent *)
  resetting : list (rid * option nat);                  (* resources whose reset re-fetch is under way, with the re-fetch request once seen *)
  due : list rid;                                       (* loaded resources matched by a system reset whose reset task has not started yet *)
  task_open : option rid;                               (* the reset task of this resource is being processed and has started nothing so far *)
  qexpect : list (rid * nat)                            (* query variants that must receive exactly one query request, with the number seen *)
}.

Definition mstate0 : mstate :=
  {| clients := []; reqs := []; stream := []; ptrs := []; viols := []; pos := 0; gone := []; mqsubs := []; fetched := []; connsubs := []; settled_gone := []; accreq := []; lastacc := []; reqpos := []; resetting := []; due := []; task_open := None; qexpect := []; pgets := []; thr := 0; single := 0; legacy := []; stale := []; rsflag := [] |}.

Definition get_client (st : mstate) (c : conn) : client :=
  match lookup c (clients st) with Some cl => cl | None => client0 end.

Definition set_client (st : mstate) (c : conn) (cl : client) : mstate :=
  {| clients := set_k c cl (clients st); reqs := reqs st; stream := stream st; ptrs := ptrs st; viols := viols st; pos := pos st; gone := gone st; mqsubs := mqsubs st; fetched := fetched st; connsubs := connsubs st; settled_gone := settled_gone st; accreq := accreq st; lastacc := lastacc st; reqpos := reqpos st; resetting := resetting st; due := due st; task_open := task_open st; qexpect := qexpect st; pgets := pgets st; thr := thr st; single := single st; legacy := legacy st; stale := stale st; rsflag := rsflag st |}.

Definition add_viol (st : mstate) (k : vkind) (c : conn) (r : rid) : mstate :=
  {| clients := clients st; reqs := reqs st; stream := stream st; ptrs := ptrs st;
     viols := viols st ++ [{| v_kind := k; v_c := c; v_r := r; v_pos := pos st |}]; pos := pos st; gone := gone st; mqsubs := mqsubs st; fetched := fetched st; connsubs := connsubs st; settled_gone := settled_gone st; accreq := accreq st; lastacc := lastacc st; reqpos := reqpos st; resetting := resetting st; due := due st; task_open := task_open st; qexpect := qexpect st; pgets := pgets st; thr := thr st; single := single st; legacy := legacy st; stale := stale st; rsflag := rsflag st |}.

Definition set_reqs (st : mstate) (q : list (conn * (nat * (rkind * rid * Z)))) : mstate :=
  {| clients := clients st; reqs := q; stream := stream st; ptrs := ptrs st; viols := viols st; pos := pos st; gone := gone st; mqsubs := mqsubs st; fetched := fetched st; connsubs := connsubs st; settled_gone := settled_gone st; accreq := accreq st; lastacc := lastacc st; reqpos := reqpos st; resetting := resetting st; due := due st; task_open := task_open st; qexpect := qexpect st; pgets := pgets st; thr := thr st; single := single st; legacy := legacy st; stale := stale st; rsflag := rsflag st |}.
Definition set_ptrs (st : mstate) (p : list (conn * (rid * list nat))) : mstate :=
  {| clients := clients st; reqs := reqs st; stream := stream st; ptrs := p; viols := viols st; pos := pos st; gone := gone st; mqsubs := mqsubs st; fetched := fetched st; connsubs := connsubs st; settled_gone := settled_gone st; accreq := accreq st; lastacc := lastacc st; reqpos := reqpos st; resetting := resetting st; due := due st; task_open := task_open st; qexpect := qexpect st; pgets := pgets st; thr := thr st; single := single st; legacy := legacy st; stale := stale st; rsflag := rsflag st |}.
Definition set_stream (st : mstate) (s : list (rid * list sevent)) : mstate :=
  {| clients := clients st; reqs := reqs st; stream := s; ptrs := ptrs st; viols := viols st; pos := pos st; gone := gone st; mqsubs := mqsubs st; fetched := fetched st; connsubs := connsubs st; settled_gone := settled_gone st; accreq := accreq st; lastacc := lastacc st; reqpos := reqpos st; resetting := resetting st; due := due st; task_open := task_open st; qexpect := qexpect st; pgets := pgets st; thr := thr st; single := single st; legacy := legacy st; stale := stale st; rsflag := rsflag st |}.
Definition bump (st : mstate) : mstate :=
  {| clients := clients st; reqs := reqs st; stream := stream st; ptrs := ptrs st; viols := viols st; pos := S (pos st); gone := gone st; mqsubs := mqsubs st; fetched := fetched st; connsubs := connsubs st; settled_gone := settled_gone st; accreq := accreq st; lastacc := lastacc st; reqpos := reqpos st; resetting := resetting st; due := due st; task_open := task_open st; qexpect := qexpect st; pgets := pgets st; thr := thr st; single := single st; legacy := legacy st; stale := stale st; rsflag := rsflag st |}.

Definition set_acc (st : mstate) (ar : list (nat * (conn * rid))) (la : list (conn * (rid * option nat))) : mstate :=
  {| clients := clients st; reqs := reqs st; stream := stream st; ptrs := ptrs st; viols := viols st; pos := pos st;
     gone := gone st; mqsubs := mqsubs st; fetched := fetched st; connsubs := connsubs st; settled_gone := settled_gone st; accreq := ar; lastacc := la; reqpos := reqpos st; resetting := resetting st; due := due st; task_open := task_open st; qexpect := qexpect st; pgets := pgets st; thr := thr st; single := single st; legacy := legacy st; stale := stale st; rsflag := rsflag st |}.
Definition set_reqpos (st : mstate) (rp : list (conn * (nat * nat))) : mstate :=
  {| clients := clients st; reqs := reqs st; stream := stream st; ptrs := ptrs st; viols := viols st; pos := pos st;
     gone := gone st; mqsubs := mqsubs st; fetched := fetched st; connsubs := connsubs st; settled_gone := settled_gone st;
     accreq := accreq st; lastacc := lastacc st; reqpos := rp; resetting := resetting st; due := due st; task_open := task_open st; qexpect := qexpect st; pgets := pgets st; thr := thr st; single := single st; legacy := legacy st; stale := stale st; rsflag := rsflag st |}.

Definition stream_of (st : mstate) (r : rid) : list sevent :=
  match lookup r (stream st) with Some s => s | None => [] end.

(* ---- requests ledger *)
Fixpoint take_req (c : conn) (id : nat) (q : list (conn * (nat * (rkind * rid * Z))))
  : option (rkind * rid * Z) * list (conn * (nat * (rkind * rid * Z))) :=
  match q with
  | [] => (None, [])
  | (c', (id', x)) :: q' =>
      if Nat.eqb c c' && Nat.eqb id id' then (Some x, q')
      else let '(r, rest) := take_req c id q' in (r, (c', (id', x)) :: rest)
  end.

(* ---- C03 pointers *)
Definition get_ptrs (st : mstate) (c : conn) (r : rid) : option (list nat) :=
  match find (fun x => Nat.eqb (fst x) c && Nat.eqb (fst (snd x)) r) (ptrs st) with
  | Some x => Some (snd (snd x))
  | None => None
  end.
Definition drop_ptrs (c : conn) (r : rid) (p : list (conn * (rid * list nat))) :=
  filter (fun x => negb (Nat.eqb (fst x) c && Nat.eqb (fst (snd x)) r)) p.
Definition put_ptrs (st : mstate) (c : conn) (r : rid) (l : list nat) : mstate :=
  set_ptrs st ((c, (r, l)) :: drop_ptrs c r (ptrs st)).

(* hand-over of resource r to client c: the snapshot corresponds to some prefix of the stream so far *)
Definition handover (st : mstate) (c : conn) (r : rid) : mstate :=
  put_ptrs st c r (seq 0 (S (length (stream_of st r)))).

Definition handover_set (st : mstate) (c : conn) (rs : rset) : mstate :=
  fold_left (fun s x => match snd x with RErr _ => s | _ => handover s c (fst x) end) rs st.

(* after a collection step: forget pointers of resources the client no longer holds *)
Definition prune_ptrs (st : mstate) (c : conn) : mstate :=
  let cl := get_client st c in
  set_ptrs st (filter (fun x => negb (Nat.eqb (fst x) c) ||
                                match lookup (fst (snd x)) (held cl) with Some _ => true | None => false end) (ptrs st)).

Fixpoint skip_reaccess (s : list sevent) (p : nat) (fuel : nat) : nat :=
  match fuel with
  | O => p
  | S f => match nth_error s p with Some (SReaccess | SSkipped | SMark | SNop) => skip_reaccess s (S p) f | _ => p end
  end.

(* the same without passing over optional events (a delivered state event may be one of them) *)
Fixpoint skip_soft (s : list sevent) (p : nat) (fuel : nat) : nat :=
  match fuel with
  | O => p
  | S f => match nth_error s p with Some (SReaccess | SMark | SNop) => skip_soft s (S p) f | _ => p end
  end.

Fixpoint skip_marks (s : list sevent) (p : nat) (fuel : nat) : nat :=
  match fuel with
  | O => p
  | S f => match nth_error s p with Some (SReaccess | SSkipped | SResetEnd | SMark | SNop) => skip_marks s (S p) f | _ => p end
  end.

(* the encoding of protocol versions before 1.2.1: a soft reference is a bare resource id string, a data value the
   placeholder "[Data]" *)
Definition enc_legacy (v : cvalue) : cvalue :=
  match v with CS r => CLS r | CD _ => CLD | v => v end.
Definition enc_for (lg : bool) (v : cvalue) : cvalue := if lg then enc_legacy v else v.
Definition enc_ev (lg : bool) (e : sevent) : sevent :=
  match e with
  | SChange ch => SChange (map (fun kv => (fst kv, enc_for lg (snd kv))) ch)
  | SAdd i v => SAdd i (enc_for lg v)
  | e => e
  end.

Definition ev_match (s d : sevent) : bool :=
  match s, d with
  | SChange a, SChange b =>
      match lookup 9 a, lookup 9 b with
      | Some x, Some y => cv_eqb x y
      | _, _ => forallb (fun kv => match lookup (fst kv) a with Some v => cv_eqb v (snd kv) | None => false end) b
      end
  | SAdd i v, SAdd j w => Z.eqb i j && cv_eqb v w
  | SRemove i, SRemove j => Z.eqb i j
  | SCustom a, SCustom b => Nat.eqb a b
  | SDelete, SDelete => true
  | _, _ => false
  end.

(* advance the candidate positions of (c, r) over delivered event d *)
Definition deliver (st : mstate) (c : conn) (r : rid) (d : sevent) : mstate :=
  match get_ptrs st c r with
  | None => st      (* not handed over: reported as stray event by the C02 part *)
  | Some cands =>
      let s := stream_of st r in
      let is_state := match d with SChange _ | SAdd _ _ | SRemove _ | SDelete => true | _ => false end in
      let fix adv (fuel p : nat) : list nat :=
        match fuel with
        | O => []
        | S f =>
            let p' := if is_state then skip_soft s p (length s) else skip_reaccess s p (length s) in
            match nth_error s p' with
            | Some SResetEnd => (if is_state then [p'] else []) ++ adv f (S p')   (* a derived event, or move past the marker *)
            | Some SSkipped => (if is_state then [S p'] else []) ++ adv f (S p')   (* an optional event: this one, or not delivered *)
            | Some e => if ev_match (enc_ev (mem c (legacy st)) e) d then [S p'] else []
            | None => []
            end
        end in
      let step p := adv (S (length s)) p in
      let cands' := flat_map step cands in
      match cands' with
      | [] => put_ptrs (if mem r (stale st) then st else add_viol st VGap c r) c r (seq 0 (S (length s)))   (* report once, then resynchronise *)
      | _ => put_ptrs st c r cands'
      end
  end.

(* ---- the reference client driven by frames; C02 checks *)
Definition pending_of (st : mstate) (c : conn) : list rid :=
  flat_map (fun x => if Nat.eqb (fst x) c then
                       match snd (snd x) with
                       | (KSub, r, _) | (KGet, r, _) => [r]
                       | _ => []
                       end
                     else []) (reqs st).

Definition check_dangling (st : mstate) (c : conn) : mstate :=
  match dangling (pending_of st c) (get_client st c) with
  | [] => st
  | r :: _ => add_viol st VDangling c r
  end.

Definition finish_frame (st : mstate) (c : conn) : mstate :=
  let st := check_dangling st c in
  let st := set_client st c (collect (pending_of st c) (get_client st c)) in
  prune_ptrs st c.

Definition check_served_hook (st : mstate) (c : conn) (rs : rset) : mstate :=
  fold_left (fun s x => match snd x with
                        | RErr _ => s
                        | _ => if mem (fst x) (fetched s)
                                  || existsb (fun f => Nat.eqb (base_of f) (base_of (fst x))) (fetched s)   (* some query variant of the same resource
                                                                                  (an id may alias a normalised query, also the id without a query) *)
                                  || existsb (fun e => match e with SDelete => true | _ => false end)
                                             (match lookup (fst x) (stream s) with Some l => l | None => [] end)
                               then s   (* fetched under the standing subscription, or the service announced its deletion
                                           (the gateway then drops the entry while connections still hold the snapshot) *)
                               else {| clients := clients s; reqs := reqs s; stream := stream s; ptrs := ptrs s;
                                       viols := viols s ++ [{| v_kind := VServedUnsubscribed; v_c := c; v_r := fst x; v_pos := pos s |}];
                                       pos := pos s; gone := gone s; mqsubs := mqsubs s; fetched := fetched s;
                                       connsubs := connsubs s; settled_gone := settled_gone s; accreq := accreq s; lastacc := lastacc s; reqpos := reqpos s; resetting := resetting s; due := due s; task_open := task_open s; qexpect := qexpect s; pgets := pgets s; thr := thr s; single := single s; legacy := legacy s; stale := stale s; rsflag := rsflag s |}
                        end) rs st.

Definition merge_into (st : mstate) (c : conn) (rs : rset) : mstate :=
  let st := check_served_hook st c rs in
  let cl := get_client st c in
  handover_set (set_client st c (with_held cl (merge_set rs (held cl)))) c rs.

Definition held_data (st : mstate) (c : conn) (r : rid) : option rdata := lookup r (held (get_client st c)).

Definition upd_held (st : mstate) (c : conn) (r : rid) (d : rdata) : mstate :=
  let cl := get_client st c in set_client st c (with_held cl (set_k r d (held cl))).

Definition count_of (extra : Z) : Z := if Z.eqb extra 0 then 1%Z else extra.

Definition on_resp (st : mstate) (c : conn) (id : nat) (ok : bool) (rs : rset) (ridres : option rid) (code : nat) : mstate :=
  let sent_at := match find (fun x => Nat.eqb (fst x) c && Nat.eqb (fst (snd x)) id) (reqpos st) with Some x => snd (snd x) | None => 0 end in
  let st := set_reqpos st (filter (fun x => negb (Nat.eqb (fst x) c && Nat.eqb (fst (snd x)) id)) (reqpos st)) in
  let '(rq, rest) := take_req c id (reqs st) in
  match rq with
  | None => add_viol st VUnrequested c id
  | Some (k, r, extra) =>
      let st := set_reqs st rest in
      let cl := get_client st c in
      match k, ok with
      | KSub, true =>
          let st := merge_into st c rs in
          let cl := get_client st c in
          finish_frame (set_client st c (with_direct cl r (S (dcount cl r)))) c
      | KGet, true =>
          (* the resources of a get are complete on their own; they are not retained and no events are expected for them *)
          let st := check_served_hook st c rs in
          let st := (let cl := get_client st c in set_client st c (with_held cl (merge_set rs (held cl)))) in
          let cl := get_client st c in
          let tmp := with_direct cl r (S (dcount cl r)) in
          let st := match dangling (pending_of st c) tmp with [] => st | x :: _ => add_viol st VDangling c x end in
          finish_frame st c
      | KUnsub, true =>
          let n := count_of extra in
          if (n <=? 0)%Z then add_viol st VBadCount c r
          else if (Z.of_nat (dcount cl r) <? n)%Z then
            finish_frame (set_client (add_viol st VUnsubOver c r) c (with_direct cl r 0)) c
          else finish_frame (set_client st c (with_direct cl r (dcount cl r - Z.to_nat n))) c
      | KUnsub, false =>
          let n := count_of extra in
          (* code 1 = system.noSubscription, 2 = system.invalidParams (see the driver's code table) *)
          if Nat.eqb code 2 then (if (n <=? 0)%Z then st else add_viol st VBadCount c r)
          else if Nat.eqb code 1 then
            (if (n <=? 0)%Z then add_viol st VBadCount c r
             else if (n <=? Z.of_nat (dcount cl r))%Z then add_viol st VUnsubUnder c r else st)
          else st
      | (KCall | KAuth | KNew), true =>
          match ridres with
          | Some r' =>
              let st := merge_into st c rs in
              let cl := get_client st c in
              (* a resource response subscribes the client, unless the resource came as an error entry because the
                 access request for it was not granted (then the client is left without direct subscription) *)
              let ecode := match lookup r' rs with Some (RErr code) => Some code | _ => None end in
              let is_err := match ecode with Some _ => true | None => false end in
              (* ... recognised by the latest access answer for (c, r') being a refusal that carries the entry's error code *)
              let denied := match find (fun x => Nat.eqb (fst x) c && Nat.eqb (fst (snd x)) r') (lastacc st), ecode with
                            | Some (_, (_, Some acode)), Some code => Nat.eqb code acode
                            | _, _ => false
                            end in
              let cl := if is_err && denied then cl else with_direct cl r' (S (dcount cl r')) in
              finish_frame (set_client st c cl) c
          | None => st
          end
      | (KSub | KGet), false =>
          finish_frame st c     (* the request no longer retains anything *)
      | _, _ => st
      end
  end.

Definition require_held (st : mstate) (c : conn) (r : rid) : mstate * option rdata :=
  match held_data st c r with
  | None => (add_viol st VStrayEvent c r, None)
  | Some (RErr _) => (add_viol st VWrongKind c r, None)
  | Some d => (st, Some d)
  end.

Definition in_range_ins (idx : Z) (l : list cvalue) : bool := (0 <=? idx)%Z && (idx <=? Z.of_nat (length l))%Z.
Definition in_range_rem (idx : Z) (l : list cvalue) : bool := (0 <=? idx)%Z && (idx <? Z.of_nat (length l))%Z.

Definition frame_conn (e : tev) : option conn :=
  match e with
  | TRespOk c _ _ | TRespRid c _ _ _ | TRespPayload c _ | TRespVersion c _ | TRespErr c _ _
  | TEvChange c _ _ _ | TEvAdd c _ _ _ _ | TEvRemove c _ _ | TEvCustom c _ _ | TEvDelete c _ | TEvUnsub c _ _ => Some c
  | _ => None
  end.

Definition set_gone (st : mstate) (c : conn) : mstate :=
  {| clients := clients st; reqs := reqs st; stream := stream st; ptrs := ptrs st; viols := viols st; pos := pos st; gone := c :: gone st; mqsubs := mqsubs st; fetched := fetched st; connsubs := connsubs st; settled_gone := settled_gone st; accreq := accreq st; lastacc := lastacc st; reqpos := reqpos st; resetting := resetting st; due := due st; task_open := task_open st; qexpect := qexpect st; pgets := pgets st; thr := thr st; single := single st; legacy := legacy st; stale := stale st; rsflag := rsflag st |}.

Definition set_cache (st : mstate) (ms fs : list rid) : mstate :=
  {| clients := clients st; reqs := reqs st; stream := stream st; ptrs := ptrs st; viols := viols st; pos := pos st;
     gone := gone st; mqsubs := ms; fetched := fs; connsubs := connsubs st; settled_gone := settled_gone st; accreq := accreq st; lastacc := lastacc st; reqpos := reqpos st; resetting := resetting st; due := due st; task_open := task_open st; qexpect := qexpect st; pgets := pgets st; thr := thr st; single := single st; legacy := legacy st; stale := stale st; rsflag := rsflag st |}.
Definition set_conns (st : mstate) (cs sg : list conn) : mstate :=
  {| clients := clients st; reqs := reqs st; stream := stream st; ptrs := ptrs st; viols := viols st; pos := pos st;
     gone := gone st; mqsubs := mqsubs st; fetched := fetched st; connsubs := cs; settled_gone := sg; accreq := accreq st; lastacc := lastacc st; reqpos := reqpos st; resetting := resetting st; due := due st; task_open := task_open st; qexpect := qexpect st; pgets := pgets st; thr := thr st; single := single st; legacy := legacy st; stale := stale st; rsflag := rsflag st |}.
Definition set_reset (st : mstate) (rs : list (rid * option nat)) (du : list rid) (tk : option rid) : mstate :=
  {| clients := clients st; reqs := reqs st; stream := stream st; ptrs := ptrs st; viols := viols st; pos := pos st;
     gone := gone st; mqsubs := mqsubs st; fetched := fetched st; connsubs := connsubs st; settled_gone := settled_gone st;
     accreq := accreq st; lastacc := lastacc st; reqpos := reqpos st; resetting := rs; due := du; task_open := tk; qexpect := qexpect st; pgets := pgets st; thr := thr st; single := single st; legacy := legacy st; stale := stale st; rsflag := rsflag st |}.
Definition set_qexpect (st : mstate) (q : list (rid * nat)) : mstate :=
  {| clients := clients st; reqs := reqs st; stream := stream st; ptrs := ptrs st; viols := viols st; pos := pos st;
     gone := gone st; mqsubs := mqsubs st; fetched := fetched st; connsubs := connsubs st; settled_gone := settled_gone st;
     accreq := accreq st; lastacc := lastacc st; reqpos := reqpos st; resetting := resetting st; due := due st; task_open := task_open st; qexpect := q; pgets := pgets st; thr := thr st; single := single st; legacy := legacy st; stale := stale st; rsflag := rsflag st |}.

Definition set_pgets (st : mstate) (p : list (nat * rid)) : mstate :=
  {| clients := clients st; reqs := reqs st; stream := stream st; ptrs := ptrs st; viols := viols st; pos := pos st; gone := gone st; mqsubs := mqsubs st; fetched := fetched st; connsubs := connsubs st; settled_gone := settled_gone st; accreq := accreq st; lastacc := lastacc st; reqpos := reqpos st; resetting := resetting st; due := due st; task_open := task_open st; qexpect := qexpect st; pgets := p; thr := thr st; single := single st; legacy := legacy st; stale := stale st; rsflag := rsflag st |}.

Definition set_thr (st : mstate) (n : nat) (sg : nat) : mstate :=
  {| clients := clients st; reqs := reqs st; stream := stream st; ptrs := ptrs st; viols := viols st; pos := pos st; gone := gone st; mqsubs := mqsubs st; fetched := fetched st; connsubs := connsubs st; settled_gone := settled_gone st; accreq := accreq st; lastacc := lastacc st; reqpos := reqpos st; resetting := resetting st; due := due st; task_open := task_open st; qexpect := qexpect st; pgets := pgets st; thr := n; single := sg; legacy := legacy st; stale := stale st; rsflag := rsflag st |}.

Definition set_legacy (st : mstate) (l : list conn) : mstate :=
  {| clients := clients st; reqs := reqs st; stream := stream st; ptrs := ptrs st; viols := viols st; pos := pos st; gone := gone st; mqsubs := mqsubs st; fetched := fetched st; connsubs := connsubs st; settled_gone := settled_gone st; accreq := accreq st; lastacc := lastacc st; reqpos := reqpos st; resetting := resetting st; due := due st; task_open := task_open st; qexpect := qexpect st; pgets := pgets st; thr := thr st; single := single st; legacy := l; stale := stale st; rsflag := rsflag st |}.

Definition set_stale (st : mstate) (l : list rid) : mstate :=
  {| clients := clients st; reqs := reqs st; stream := stream st; ptrs := ptrs st; viols := viols st; pos := pos st; gone := gone st; mqsubs := mqsubs st; fetched := fetched st; connsubs := connsubs st; settled_gone := settled_gone st; accreq := accreq st; lastacc := lastacc st; reqpos := reqpos st; resetting := resetting st; due := due st; task_open := task_open st; qexpect := qexpect st; pgets := pgets st; thr := thr st; single := single st; legacy := legacy st; stale := l; rsflag := rsflag st |}.

Definition set_rsflag (st : mstate) (l : list rid) : mstate :=
  {| clients := clients st; reqs := reqs st; stream := stream st; ptrs := ptrs st; viols := viols st; pos := pos st; gone := gone st; mqsubs := mqsubs st; fetched := fetched st; connsubs := connsubs st; settled_gone := settled_gone st; accreq := accreq st; lastacc := lastacc st; reqpos := reqpos st; resetting := resetting st; due := due st; task_open := task_open st; qexpect := qexpect st; pgets := pgets st; thr := thr st; single := single st; legacy := legacy st; stale := stale st; rsflag := l |}.
Definition set_resetting (st : mstate) (rs : list (rid * option nat)) : mstate := set_reset st rs (due st) (task_open st).
Definition remove_rid (r : rid) (l : list rid) : list rid := filter (fun x => negb (Nat.eqb x r)) l.


(* the oldest unprocessed reset mark of resource r is processed: it becomes SNop; when the reset starts, the state
   events that reached the gateway after the mark are superseded *)
Fixpoint resolve_mark (started : bool) (l : list sevent) : option (list sevent) :=
  match l with
  | [] => None
  | SMark :: l' =>
      Some (SNop :: (if started then map (fun e => match e with SChange _ | SAdd _ _ | SRemove _ | SDelete => SSkipped | _ => e end) l' else l'))
  | e :: l' => match resolve_mark started l' with Some r => Some (e :: r) | None => None end
  end.

Definition window_open (st : mstate) (r : rid) : bool := existsb (fun x => Nat.eqb (fst x) r) (resetting st).

Definition on_reset_task (st : mstate) (r : rid) (started : bool) (noop : bool) : mstate :=
  match resolve_mark (started && negb (window_open st r)) (stream_of st r) with
  | None => let st := set_reset st (resetting st) (due st) None in
            if started then add_viol st VSpuriousRefetch 0 r else st
  | Some l' =>
      let st := set_stream st (set_k r l' (stream st)) in
      if started then set_reset st ((r, None) :: filter (fun x => negb (Nat.eqb (fst x) r)) (resetting st)) (remove_rid r (due st)) None
      else if noop then
             (* "already resetting": legitimate only while a re-fetch of r is in progress; otherwise r stays due *)
             if existsb (fun x => Nat.eqb (fst x) r) (resetting st) || mem r (rsflag st)
             then set_reset st (resetting st) (remove_rid r (due st)) None
             else set_reset st (resetting st) (due st) None
      else set_reset st (resetting st) (due st) None
  end.

(* count a query request against the oldest expectation for that variant which has none yet (else the oldest) *)
Fixpoint bump_first (r : rid) (l : list (rid * nat)) : list (rid * nat) :=
  match l with
  | [] => []
  | (r', n) :: l' =>
      if Nat.eqb r r' && (Nat.eqb n 0 || negb (existsb (fun x => Nat.eqb (fst x) r && Nat.eqb (snd x) 0) l'))
      then (r', S n) :: l' else (r', n) :: bump_first r l'
  end.

Definition step (st : mstate) (e : tev) : mstate :=
  let st := bump st in
  (* a reset task that started nothing by the time the next task is granted had no loaded resource to reset *)
  let st := match e, task_open st with
            | TSched _, Some r => on_reset_task st r false false
            | _, _ => st
            end in
  if match frame_conn e with Some c => mem c (gone st) | None => false end then st else
  match e with
  | TConn c => set_client st c client0
  | TDisc c =>
      (* the client is gone: its outstanding requests need no answer any more *)
      let st := set_reqs st (filter (fun x => negb (Nat.eqb (fst x) c)) (reqs st)) in
      set_gone (set_ptrs (set_client st c client0) (filter (fun x => negb (Nat.eqb (fst x) c)) (ptrs st))) c
  | TReq c id k r extra => set_reqpos (set_reqs st ((c, (id, (k, r, extra))) :: reqs st)) ((c, (id, pos st)) :: reqpos st)
  | TRespOk c id rs => on_resp st c id true rs None 0
  | TRespRid c id r rs => on_resp st c id true rs (Some r) 0
  | TRespPayload c id => on_resp st c id true [] None 0
  | TRespVersion c id => on_resp st c id true [] None 0
  | TRespErr c id code => on_resp st c id false [] None code
  | TEvChange c r ch rs =>
      let st := merge_into st c rs in
      let '(st, d) := require_held st c r in
      let st := match d with
                | Some (RModel m) => upd_held st c r (RModel (apply_change ch m))
                | Some (RColl _) => add_viol st VWrongKind c r
                | _ => st
                end in
      finish_frame (deliver st c r (SChange ch)) c
  | TEvAdd c r idx v rs =>
      let st := merge_into st c rs in
      let '(st, d) := require_held st c r in
      let st := match d with
                | Some (RColl l) => if in_range_ins idx l then upd_held st c r (RColl (insert_at (Z.to_nat idx) v l))
                                    else add_viol st VBadIndex c r
                | Some (RModel _) => add_viol st VWrongKind c r
                | _ => st
                end in
      finish_frame (deliver st c r (SAdd idx v)) c
  | TEvRemove c r idx =>
      let '(st, d) := require_held st c r in
      let st := match d with
                | Some (RColl l) => if in_range_rem idx l then upd_held st c r (RColl (remove_at (Z.to_nat idx) l))
                                    else add_viol st VBadIndex c r
                | Some (RModel _) => add_viol st VWrongKind c r
                | _ => st
                end in
      finish_frame (deliver st c r (SRemove idx)) c
  | TEvCustom c r tag =>
      let '(st, _) := require_held st c r in
      deliver st c r (SCustom tag)
  | TEvDelete c r =>
      let '(st, _) := require_held st c r in
      let cl := get_client st c in
      let st := set_client st c {| held := held cl; direct := direct cl; deleted := r :: deleted cl |} in
      deliver st c r SDelete
  | TEvUnsub c r code =>
      let cl := get_client st c in
      let st := if Nat.eqb (dcount cl r) 0 then add_viol st VUnsubEventNoDirect c r else st in
      finish_frame (set_client st c (with_direct cl r 0)) c
  | TMqEv r ev =>
      (* ... and while the cached copy is stale because a re-fetch failed (a service fault): an event that no longer applies
         to the copy the gateway was left with is discarded, so every state event is optional until a re-fetch succeeds *)
      let in_window := window_open st r || mem r (stale st) in
      let ev' := match ev with
                 | SChange _ | SAdd _ _ | SRemove _ | SDelete => if in_window then SSkipped else ev
                 | _ => ev
                 end in
      let st := set_stream st (set_k r (stream_of st r ++ [ev']) (stream st)) in
      (* a processed delete event unregisters the cached resource: a later subscriber fetches it anew *)
      (match ev' with SDelete => set_cache st (mqsubs st) (remove_rid r (fetched st)) | _ => st end)
  | TThrottle n => set_thr st n (single st)
  | TLegacy c => set_legacy st (c :: filter (fun x => negb (Nat.eqb x c)) (legacy st))
  | TSysReset res _ =>
      (* every subscribed resource matched by the reset gets a mark in its stream; a loaded one is due for a re-fetch *)
      let st := set_thr st (thr st) (S (single st)) in
      fold_left (fun s r =>
        if mem r (mqsubs s) then
          let s := set_stream s (set_k r (stream_of s r ++ [SMark]) (stream s)) in
          (* ... and so is one whose initial get is still outstanding (the answer in flight may predate the reset) *)
          if (mem r (fetched s) || existsb (fun x => Nat.eqb (snd x) r) (pgets s)) && negb (mem r (due s))
          then set_reset s (resetting s) (r :: due s) (task_open s) else s
        else s) res st
  | TQ truth subs ents final =>
      (* C07: nothing outstanding *)
      let st := fold_left (fun s x => add_viol s VUnanswered (fst x) (fst (snd x))) (reqs st) st in
      (* C01: every retained, non-deleted, non-error resource equals the service's state *)
      let st := fold_left (fun s cc =>
                  let '(c, cl) := cc in
                  fold_left (fun s' hd =>
                    let '(r, d) := hd in
                    if mem r (deleted cl) || mem r (stale s') then s' else
                    match d, lookup r truth with
                    | RErr _, _ => s'
                    | RModel m, Some (Some (RModel t)) =>
                        if forallb (fun kv => match lookup (fst kv) t with Some v => cv_eqb (enc_for (mem c (legacy s)) v) (snd kv) | None => false end) m
                           && Nat.eqb (length m) (length t) then s' else add_viol s' VDiverged c r
                    | RColl l, Some (Some (RColl t)) =>
                        if Nat.eqb (length l) (length t) && forallb (fun p => cv_eqb (fst p) (enc_for (mem c (legacy s)) (snd p))) (combine l t)
                        then s' else add_viol s' VDiverged c r
                    | _, Some _ => add_viol s' VDiverged c r
                    | _, None => s'     (* not a resource of the mock service *)
                    end) (held cl) s) (clients st) st in
      (* C03: every event of a held resource has been delivered *)
      let st := fold_left (fun s x =>
                  let '(c, (r, cands)) := x in
                  let str := stream_of s r in
                  if mem r (deleted (get_client s c)) || mem r (stale s) then s else
                  if existsb (fun p => Nat.eqb (skip_marks str p (length str)) (length str)) cands then s
                  else add_viol s VMissingAtQ c r) (ptrs st) st in
      (* C08: the gateway's direct counts equal the ledger *)
      let st := fold_left (fun s ss =>
                  if Nat.eqb (ss_direct ss) (dcount (get_client s (ss_c ss)) (ss_r ss)) then s
                  else add_viol s VLedger (ss_c ss) (ss_r ss)) subs st in
      let st := fold_left (fun s cc =>
                  let '(c, cl) := cc in
                  fold_left (fun s' dr =>
                    if Nat.eqb (snd dr) 0 then s' else
                    if existsb (fun ss => Nat.eqb (ss_c ss) c && Nat.eqb (ss_r ss) (fst dr)) subs then s'
                    else add_viol s' VLedger c (fst dr)) (direct cl) s) (clients st) st in
      (* C09: entry accounting at quiescence (nothing in flight): count = subscribers; unused <-> waiting for eviction;
         entries and event subscriptions coincide *)
      let st := fold_left (fun s en =>
                  let s := if Z.eqb (se_count en) (Z.of_nat (se_nsubs en)) then s else add_viol s VCountMismatch 0 (se_r en) in
                  let s := if Bool.eqb (Z.eqb (se_count en) 0) (se_evict en) then s else add_viol s VEvictQueue 0 (se_r en) in
                  (* an entry without event subscription (created for a request only, or whose subscribe failed) has no subscribers *)
                  if (se_mqsub en && mem (se_r en) (mqsubs s)) || (negb (se_mqsub en) && negb (mem (se_r en) (mqsubs s)) && Nat.eqb (se_nsubs en) 0)
                  then s else add_viol s VOrphanSub 0 (se_r en)) ents st in
      let st := fold_left (fun s r => if existsb (fun en => Nat.eqb (se_r en) r) ents then s else add_viol s VOrphanSub 0 r) (mqsubs st) st in
      let st := if final then
                  match ents, mqsubs st with
                  | [], [] => st
                  | en :: _, _ => add_viol st VNotFreed 0 (se_r en)
                  | [], r :: _ => add_viol st VNotFreed 0 r
                  end
                else st in
      (* C13: every loaded variant received exactly one query request *)
      let st := fold_left (fun s x => if Nat.eqb (snd x) 1 then s else add_viol s VQueryRequests 0 (fst x)) (qexpect st) st in
      let st := set_qexpect st [] in
      (* C12: every loaded resource matched by a reset has been re-fetched *)
      let st := fold_left (fun s r => add_viol s VMissedRefetch 0 r) (due st) st in
      let st := set_thr st (thr st) 0 in
      (* C19: at quiescence every answer has released the next waiting request, so no started re-fetch is still unsent *)
      let st := fold_left (fun s x => match snd x with None => add_viol s VThrottleStuck 0 (fst x) | Some _ => s end) (resetting st) st in
      let st := set_reset st [] [] None in
      (* C11: nothing is left of a closed connection *)
      let st := fold_left (fun s c =>
                  let s := if existsb (fun ss => Nat.eqb (ss_c ss) c) subs then add_viol s VConnLeft c 0 else s in
                  let s := match find (fun en => mem c (se_who en)) ents with
                           | Some en => add_viol s VConnLeft c (se_r en)    (* still registered as a subscriber of a cache entry *)
                           | None => s
                           end in
                  if mem c (connsubs s) then add_viol s VConnLeft c 1 else s) (gone st) st in
      set_conns st (connsubs st) (gone st)
  | TMqSub r => set_cache st (r :: remove_rid r (mqsubs st)) (filter (fun f => negb (Nat.eqb (base_of f) r)) (fetched st))
  | TMqUnsub r =>
      (* the cache entry is evicted: nothing of it is cached any more, so a reset that has not been carried out yet
         has nothing to re-fetch for it *)
      let st := set_cache st (remove_rid r (mqsubs st)) (filter (fun f => negb (Nat.eqb (base_of f) r)) (fetched st)) in
      set_reset st (resetting st) (filter (fun f => negb (Nat.eqb (base_of f) r)) (due st)) (task_open st)
  | TMqReq n t r c tok _ =>
      let st := match t, c with
                | MAccess, Some c' => set_acc st ((n, (c', r)) :: accreq st) (lastacc st)
                | _, _ => st
                end in
      let st := match t with
                | MQuery =>
                    if existsb (fun x => Nat.eqb (fst x) r) (qexpect st)
                    then set_qexpect st (bump_first r (qexpect st))
                    else add_viol st VQueryRequests 0 r          (* a query request for a variant that is not loaded *)
                | _ => st
                end in
      let st := match t with
                | MGet | MRefetch =>
                    let rf := match t with MRefetch => true | _ => false end in
                    let st := if mem (base_of r) (mqsubs st) then st else add_viol st VGetWithoutSub 0 r in
                    let st := if rf && existsb (fun x => Nat.eqb (fst x) r && match snd x with None => true | Some _ => false end) (resetting st)
                              then st else set_pgets st ((n, r) :: pgets st) in
                    if rf && existsb (fun x => Nat.eqb (fst x) r && match snd x with None => true | Some _ => false end) (resetting st)
                    then let st := set_resetting st (map (fun x => if Nat.eqb (fst x) r then (r, Some n) else x) (resetting st)) in
                         (* C19: with one reset since the last quiescent point, its outstanding re-fetches never exceed the reset throttle *)
                         if negb (Nat.eqb (thr st) 0) && Nat.leb (single st) 1 &&
                            Nat.ltb (thr st) (length (filter (fun x => match snd x with Some _ => true | None => false end) (resetting st)))
                         then add_viol st VThrottleExceeded 0 r else st
                    else if mem r (fetched st) && Nat.eqb (base_of r) r   (* a query variant is dropped from the cache as soon as its last subscriber leaves *)
                         then add_viol st VSpuriousRefetch 0 r else st
                | _ => st
                end in
      match c with
      | Some c' => if mem c' (settled_gone st) then add_viol st VRequestAfterClose c' r else st
      | None => st
      end
  | TMqResp n r (OGet d) =>
      let st := set_pgets st (filter (fun x => negb (Nat.eqb (fst x) n)) (pgets st)) in
      (* the answer to a reset re-fetch updates a loaded resource; it does not load one whose initial get failed *)
      let is_reset := existsb (fun x => Nat.eqb (fst x) r && match snd x with Some m => Nat.eqb m n | None => false end) (resetting st) in
      let st := set_stale st (filter (fun x => negb (Nat.eqb x r)) (stale st)) in   (* fetched successfully again *)
      let st := if mem (base_of r) (mqsubs st) && (negb is_reset || mem r (fetched st))
                then set_cache st (mqsubs st) (r :: remove_rid r (fetched st)) else st in
      if existsb (fun x => Nat.eqb (fst x) r && match snd x with Some m => Nat.eqb m n | None => false end) (resetting st)
      then set_stream (set_resetting st (filter (fun x => negb (Nat.eqb (fst x) r)) (resetting st)))
                      (set_k r (stream_of st r ++ [SResetEnd]) (stream st))
      else st
  | TMqResp n r o =>
      let st := set_pgets st (filter (fun x => negb (Nat.eqb (fst x) n)) (pgets st)) in
      (* a re-fetch that fails (time-out, error other than not-found) is a service fault *)
      let st := if existsb (fun x => Nat.eqb (fst x) r && match snd x with Some m => Nat.eqb m n | None => false end) (resetting st)
                   && match o with OErr 4 => false | OErr _ => true | _ => false end
                then set_stale st (r :: stale st) else st in
      (* a re-fetch answered system.notFound deletes the cached resource *)
      let st := match o with
                | OErr 4 => if existsb (fun x => Nat.eqb (fst x) r) (resetting st) then set_cache st (mqsubs st) (remove_rid r (fetched st)) else st
                | _ => st
                end in
      let st := if existsb (fun x => Nat.eqb (fst x) r && match snd x with Some m => Nat.eqb m n | None => false end) (resetting st)
                then set_stream (set_resetting st (filter (fun x => negb (Nat.eqb (fst x) r)) (resetting st)))
                                (set_k r (stream_of st r ++ [SResetEnd]) (stream st))
                else st in
      match lookup n (accreq st) with
      | Some (c, r) =>
          let v := match o with OAccess g _ => g | _ => false end in
          let code := match o with OErr code => code | _ => 3 end in     (* 3 = system.accessDenied *)
          set_acc st (accreq st) ((c, (r, if v then None else Some code)) :: filter (fun x => negb (Nat.eqb (fst x) c && Nat.eqb (fst (snd x)) r)) (lastacc st))
      | None => st
      end
  | TQVariants _ vs => set_qexpect st (qexpect st ++ map (fun v => (v, 0)) vs)
  | TQueryAnswered aliases =>
      fold_left (fun s r => set_stream s (set_k r (stream_of s r ++ [SResetEnd]) (stream s))) aliases st
  | TResetTask r => set_reset st (resetting st) (due st) (Some r)
  | TResetStart r => on_reset_task (set_rsflag st (r :: rsflag st)) r true false
  | TResetDone r => set_rsflag st (filter (fun x => negb (Nat.eqb x r)) (rsflag st))
  | TResetNoop r => on_reset_task st r false true
  | TConnSub c => set_conns st (c :: connsubs st) (settled_gone st)
  | TConnUnsub c =>
      (* the gateway has carried out the close of connection c (it releases the connection-event subscription in that
         very task): from here on it makes no request on c's behalf *)
      set_conns st (filter (fun x => negb (Nat.eqb x c)) (connsubs st))
                (if mem c (gone st) && negb (mem c (settled_gone st)) then c :: settled_gone st else settled_gone st)
  | _ => st
  end.

Definition monitor (tr : list tev) : list viol := viols (fold_left step tr mstate0).
