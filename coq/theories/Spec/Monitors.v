(* Property monitors: decidable folds over the observable trace. Each returns the list of violations
   it finds. They are the formal statements of the system-level properties, evaluated (after extraction)
   on traces of the real gateway and, where a model produces traces, on model traces. *)
From Coq Require Import List Arith ZArith Bool.
From RG Require Import Spec.Trace Spec.Client.
Import ListNotations.

Inductive vkind :=
| VDangling            (* C02: a retained resource references a resource the client has no data for *)
| VStrayEvent          (* C02: event for a resource the client does not hold *)
| VWrongKind           (* C02: change on a collection / add-remove on a model / event on an error placeholder *)
| VBadIndex            (* C02: add/remove index outside the client's collection *)
| VDiverged            (* C01: at quiescence the client's copy differs from the service's state *)
| VGap                 (* C03: delivered events are not a contiguous, ordered, duplicate-free run of the stream *)
| VMissingAtQ          (* C03: at quiescence events of a held resource were never delivered *)
| VUnrequested         (* C07: response for an id that is not outstanding (never requested, or answered twice) *)
| VUnanswered          (* C07: at quiescence a request has no response *)
| VUnsubOver           (* C08: unsubscribe succeeded although fewer direct subscriptions were held *)
| VUnsubUnder          (* C08: unsubscribe failed although enough direct subscriptions were held *)
| VBadCount            (* C08: invalid count accepted / valid count answered invalidParams *)
| VLedger              (* C08: at quiescence the gateway's direct count differs from the ledger *)
| VUnsubEventNoDirect. (* C08/C06: unsubscribe event for a resource without direct subscription *)

Record viol := { v_kind : vkind; v_c : conn; v_r : rid; v_pos : nat }.

Record mstate := {
  clients : list (conn * client);
  reqs : list (conn * (nat * (rkind * rid * Z)));     (* outstanding requests *)
  stream : list (rid * list sevent);                   (* per resource: events emitted so far (oldest first) *)
  ptrs : list (conn * (rid * list nat));               (* C03: candidate positions of the next expected event *)
  viols : list viol;
  pos : nat;
  gone : list conn                                      (* clients that closed their socket: they see no further frame *)
}.

Definition mstate0 : mstate :=
  {| clients := []; reqs := []; stream := []; ptrs := []; viols := []; pos := 0; gone := [] |}.

Definition get_client (st : mstate) (c : conn) : client :=
  match lookup c (clients st) with Some cl => cl | None => client0 end.

Definition set_client (st : mstate) (c : conn) (cl : client) : mstate :=
  {| clients := set_k c cl (clients st); reqs := reqs st; stream := stream st; ptrs := ptrs st; viols := viols st; pos := pos st; gone := gone st |}.

Definition add_viol (st : mstate) (k : vkind) (c : conn) (r : rid) : mstate :=
  {| clients := clients st; reqs := reqs st; stream := stream st; ptrs := ptrs st;
     viols := viols st ++ [{| v_kind := k; v_c := c; v_r := r; v_pos := pos st |}]; pos := pos st; gone := gone st |}.

Definition set_reqs (st : mstate) (q : list (conn * (nat * (rkind * rid * Z)))) : mstate :=
  {| clients := clients st; reqs := q; stream := stream st; ptrs := ptrs st; viols := viols st; pos := pos st; gone := gone st |}.
Definition set_ptrs (st : mstate) (p : list (conn * (rid * list nat))) : mstate :=
  {| clients := clients st; reqs := reqs st; stream := stream st; ptrs := p; viols := viols st; pos := pos st; gone := gone st |}.
Definition set_stream (st : mstate) (s : list (rid * list sevent)) : mstate :=
  {| clients := clients st; reqs := reqs st; stream := s; ptrs := ptrs st; viols := viols st; pos := pos st; gone := gone st |}.
Definition bump (st : mstate) : mstate :=
  {| clients := clients st; reqs := reqs st; stream := stream st; ptrs := ptrs st; viols := viols st; pos := S (pos st); gone := gone st |}.

Definition stream_of (st : mstate) (r : rid) : list sevent :=
  match lookup r (stream st) with Some s => s | None => [] end.

(* ---- requests ledger *)
Fixpoint take_req (c : conn) (id : nat) (q : list (conn * (nat * (rkind * rid * Z))))
  : option (rkind * rid * Z) * list (conn * (nat * (rkind * rid * Z))) :=
  match q with
  | [] => (None, [])
  | (c', (id', x)) :: q' =>
      if Nat.eqb c c' && Nat.eqb id id' then (Some x, q')
      else let '(r, rest) := take_req c id q' in (r, (c', (id', x)) :: rest)
  end.

(* ---- C03 pointers *)
Definition get_ptrs (st : mstate) (c : conn) (r : rid) : option (list nat) :=
  match find (fun x => Nat.eqb (fst x) c && Nat.eqb (fst (snd x)) r) (ptrs st) with
  | Some x => Some (snd (snd x))
  | None => None
  end.
Definition drop_ptrs (c : conn) (r : rid) (p : list (conn * (rid * list nat))) :=
  filter (fun x => negb (Nat.eqb (fst x) c && Nat.eqb (fst (snd x)) r)) p.
Definition put_ptrs (st : mstate) (c : conn) (r : rid) (l : list nat) : mstate :=
  set_ptrs st ((c, (r, l)) :: drop_ptrs c r (ptrs st)).

(* hand-over of resource r to client c: the snapshot corresponds to some prefix of the stream so far *)
Definition handover (st : mstate) (c : conn) (r : rid) : mstate :=
  put_ptrs st c r (seq 0 (S (length (stream_of st r)))).

Definition handover_set (st : mstate) (c : conn) (rs : rset) : mstate :=
  fold_left (fun s x => match snd x with RErr _ => s | _ => handover s c (fst x) end) rs st.

(* after a collection step: forget pointers of resources the client no longer holds *)
Definition prune_ptrs (st : mstate) (c : conn) : mstate :=
  let cl := get_client st c in
  set_ptrs st (filter (fun x => negb (Nat.eqb (fst x) c) ||
                                match lookup (fst (snd x)) (held cl) with Some _ => true | None => false end) (ptrs st)).

Fixpoint skip_reaccess (s : list sevent) (p : nat) (fuel : nat) : nat :=
  match fuel with
  | O => p
  | S f => match nth_error s p with Some SReaccess => skip_reaccess s (S p) f | _ => p end
  end.

Definition ev_match (s d : sevent) : bool :=
  match s, d with
  | SChange a, SChange b =>
      match lookup 9 a, lookup 9 b with
      | Some x, Some y => cv_eqb x y
      | _, _ => forallb (fun kv => match lookup (fst kv) a with Some v => cv_eqb v (snd kv) | None => false end) b
      end
  | SAdd i v, SAdd j w => Z.eqb i j && cv_eqb v w
  | SRemove i, SRemove j => Z.eqb i j
  | SCustom a, SCustom b => Nat.eqb a b
  | SDelete, SDelete => true
  | _, _ => false
  end.

(* advance the candidate positions of (c, r) over delivered event d *)
Definition deliver (st : mstate) (c : conn) (r : rid) (d : sevent) : mstate :=
  match get_ptrs st c r with
  | None => st      (* not handed over: reported as stray event by the C02 part *)
  | Some cands =>
      let s := stream_of st r in
      let step p := let p' := skip_reaccess s p (length s) in
                    match nth_error s p' with
                    | Some e => if ev_match e d then [S p'] else []
                    | None => []
                    end in
      let cands' := flat_map step cands in
      match cands' with
      | [] => put_ptrs (add_viol st VGap c r) c r (seq 0 (S (length s)))   (* report once, then resynchronise *)
      | _ => put_ptrs st c r cands'
      end
  end.

(* ---- the reference client driven by frames; C02 checks *)
Definition pending_of (st : mstate) (c : conn) : list rid :=
  flat_map (fun x => if Nat.eqb (fst x) c then
                       match snd (snd x) with
                       | (KSub, r, _) | (KGet, r, _) => [r]
                       | _ => []
                       end
                     else []) (reqs st).

Definition check_dangling (st : mstate) (c : conn) : mstate :=
  match dangling (pending_of st c) (get_client st c) with
  | [] => st
  | r :: _ => add_viol st VDangling c r
  end.

Definition finish_frame (st : mstate) (c : conn) : mstate :=
  let st := check_dangling st c in
  let st := set_client st c (collect (pending_of st c) (get_client st c)) in
  prune_ptrs st c.

Definition merge_into (st : mstate) (c : conn) (rs : rset) : mstate :=
  let cl := get_client st c in
  handover_set (set_client st c (with_held cl (merge_set rs (held cl)))) c rs.

Definition held_data (st : mstate) (c : conn) (r : rid) : option rdata := lookup r (held (get_client st c)).

Definition upd_held (st : mstate) (c : conn) (r : rid) (d : rdata) : mstate :=
  let cl := get_client st c in set_client st c (with_held cl (set_k r d (held cl))).

Definition count_of (extra : Z) : Z := if Z.eqb extra 0 then 1%Z else extra.

Definition on_resp (st : mstate) (c : conn) (id : nat) (ok : bool) (rs : rset) (ridres : option rid) (code : nat) : mstate :=
  let '(rq, rest) := take_req c id (reqs st) in
  match rq with
  | None => add_viol st VUnrequested c id
  | Some (k, r, extra) =>
      let st := set_reqs st rest in
      let cl := get_client st c in
      match k, ok with
      | KSub, true =>
          let st := merge_into st c rs in
          let cl := get_client st c in
          finish_frame (set_client st c (with_direct cl r (S (dcount cl r)))) c
      | KGet, true =>
          (* the resources of a get are complete on their own; they are not retained *)
          let st := merge_into st c rs in
          let cl := get_client st c in
          let tmp := with_direct cl r (S (dcount cl r)) in
          let st := match dangling (pending_of st c) tmp with [] => st | x :: _ => add_viol st VDangling c x end in
          finish_frame st c
      | KUnsub, true =>
          let n := count_of extra in
          if (n <=? 0)%Z then add_viol st VBadCount c r
          else if (Z.of_nat (dcount cl r) <? n)%Z then
            finish_frame (set_client (add_viol st VUnsubOver c r) c (with_direct cl r 0)) c
          else finish_frame (set_client st c (with_direct cl r (dcount cl r - Z.to_nat n))) c
      | KUnsub, false =>
          let n := count_of extra in
          (* code 1 = system.noSubscription, 2 = system.invalidParams (see the driver's code table) *)
          if Nat.eqb code 2 then (if (n <=? 0)%Z then st else add_viol st VBadCount c r)
          else if Nat.eqb code 1 then
            (if (n <=? 0)%Z then add_viol st VBadCount c r
             else if (n <=? Z.of_nat (dcount cl r))%Z then add_viol st VUnsubUnder c r else st)
          else st
      | (KCall | KAuth | KNew), true =>
          match ridres with
          | Some r' =>
              let st := merge_into st c rs in
              let cl := get_client st c in
              (* a resource response subscribes the client unless the resource itself came as an error entry *)
              let is_err := match lookup r' rs with Some (RErr _) => true | _ => false end in
              let cl := if is_err then cl else with_direct cl r' (S (dcount cl r')) in
              finish_frame (set_client st c cl) c
          | None => st
          end
      | (KSub | KGet), false => finish_frame st c     (* the request no longer retains anything *)
      | _, _ => st
      end
  end.

Definition require_held (st : mstate) (c : conn) (r : rid) : mstate * option rdata :=
  match held_data st c r with
  | None => (add_viol st VStrayEvent c r, None)
  | Some (RErr _) => (add_viol st VWrongKind c r, None)
  | Some d => (st, Some d)
  end.

Definition in_range_ins (idx : Z) (l : list cvalue) : bool := (0 <=? idx)%Z && (idx <=? Z.of_nat (length l))%Z.
Definition in_range_rem (idx : Z) (l : list cvalue) : bool := (0 <=? idx)%Z && (idx <? Z.of_nat (length l))%Z.

Definition frame_conn (e : tev) : option conn :=
  match e with
  | TRespOk c _ _ | TRespRid c _ _ _ | TRespPayload c _ | TRespVersion c _ | TRespErr c _ _
  | TEvChange c _ _ _ | TEvAdd c _ _ _ _ | TEvRemove c _ _ | TEvCustom c _ _ | TEvDelete c _ | TEvUnsub c _ _ => Some c
  | _ => None
  end.

Definition set_gone (st : mstate) (c : conn) : mstate :=
  {| clients := clients st; reqs := reqs st; stream := stream st; ptrs := ptrs st; viols := viols st; pos := pos st; gone := c :: gone st |}.

Definition step (st : mstate) (e : tev) : mstate :=
  let st := bump st in
  if match frame_conn e with Some c => mem c (gone st) | None => false end then st else
  match e with
  | TConn c => set_client st c client0
  | TDisc c =>
      (* the client is gone: its outstanding requests need no answer any more *)
      let st := set_reqs st (filter (fun x => negb (Nat.eqb (fst x) c)) (reqs st)) in
      set_gone (set_ptrs (set_client st c client0) (filter (fun x => negb (Nat.eqb (fst x) c)) (ptrs st))) c
  | TReq c id k r extra => set_reqs st ((c, (id, (k, r, extra))) :: reqs st)
  | TRespOk c id rs => on_resp st c id true rs None 0
  | TRespRid c id r rs => on_resp st c id true rs (Some r) 0
  | TRespPayload c id => on_resp st c id true [] None 0
  | TRespVersion c id => on_resp st c id true [] None 0
  | TRespErr c id code => on_resp st c id false [] None code
  | TEvChange c r ch rs =>
      let st := merge_into st c rs in
      let '(st, d) := require_held st c r in
      let st := match d with
                | Some (RModel m) => upd_held st c r (RModel (apply_change ch m))
                | Some (RColl _) => add_viol st VWrongKind c r
                | _ => st
                end in
      finish_frame (deliver st c r (SChange ch)) c
  | TEvAdd c r idx v rs =>
      let st := merge_into st c rs in
      let '(st, d) := require_held st c r in
      let st := match d with
                | Some (RColl l) => if in_range_ins idx l then upd_held st c r (RColl (insert_at (Z.to_nat idx) v l))
                                    else add_viol st VBadIndex c r
                | Some (RModel _) => add_viol st VWrongKind c r
                | _ => st
                end in
      finish_frame (deliver st c r (SAdd idx v)) c
  | TEvRemove c r idx =>
      let '(st, d) := require_held st c r in
      let st := match d with
                | Some (RColl l) => if in_range_rem idx l then upd_held st c r (RColl (remove_at (Z.to_nat idx) l))
                                    else add_viol st VBadIndex c r
                | Some (RModel _) => add_viol st VWrongKind c r
                | _ => st
                end in
      finish_frame (deliver st c r (SRemove idx)) c
  | TEvCustom c r tag =>
      let '(st, _) := require_held st c r in
      deliver st c r (SCustom tag)
  | TEvDelete c r =>
      let '(st, _) := require_held st c r in
      let cl := get_client st c in
      let st := set_client st c {| held := held cl; direct := direct cl; deleted := r :: deleted cl |} in
      deliver st c r SDelete
  | TEvUnsub c r code =>
      let cl := get_client st c in
      let st := if Nat.eqb (dcount cl r) 0 then add_viol st VUnsubEventNoDirect c r else st in
      finish_frame (set_client st c (with_direct cl r 0)) c
  | TMqEv r ev => set_stream st (set_k r (stream_of st r ++ [ev]) (stream st))
  | TQ truth subs =>
      (* C07: nothing outstanding *)
      let st := fold_left (fun s x => add_viol s VUnanswered (fst x) (fst (snd x))) (reqs st) st in
      (* C01: every retained, non-deleted, non-error resource equals the service's state *)
      let st := fold_left (fun s cc =>
                  let '(c, cl) := cc in
                  fold_left (fun s' hd =>
                    let '(r, d) := hd in
                    if mem r (deleted cl) then s' else
                    match d, lookup r truth with
                    | RErr _, _ => s'
                    | RModel m, Some (Some (RModel t)) =>
                        if forallb (fun kv => match lookup (fst kv) t with Some v => cv_eqb v (snd kv) | None => false end) m
                           && Nat.eqb (length m) (length t) then s' else add_viol s' VDiverged c r
                    | RColl l, Some (Some (RColl t)) =>
                        if Nat.eqb (length l) (length t) && forallb (fun p => cv_eqb (fst p) (snd p)) (combine l t)
                        then s' else add_viol s' VDiverged c r
                    | _, Some _ => add_viol s' VDiverged c r
                    | _, None => s'     (* not a resource of the mock service *)
                    end) (held cl) s) (clients st) st in
      (* C03: every event of a held resource has been delivered *)
      let st := fold_left (fun s x =>
                  let '(c, (r, cands)) := x in
                  let str := stream_of s r in
                  if mem r (deleted (get_client s c)) then s else
                  if existsb (fun p => Nat.eqb (skip_reaccess str p (length str)) (length str)) cands then s
                  else add_viol s VMissingAtQ c r) (ptrs st) st in
      (* C08: the gateway's direct counts equal the ledger *)
      let st := fold_left (fun s ss =>
                  if Nat.eqb (ss_direct ss) (dcount (get_client s (ss_c ss)) (ss_r ss)) then s
                  else add_viol s VLedger (ss_c ss) (ss_r ss)) subs st in
      fold_left (fun s cc =>
                  let '(c, cl) := cc in
                  fold_left (fun s' dr =>
                    if Nat.eqb (snd dr) 0 then s' else
                    if existsb (fun ss => Nat.eqb (ss_c ss) c && Nat.eqb (ss_r ss) (fst dr)) subs then s'
                    else add_viol s' VLedger c (fst dr)) (direct cl) s) (clients st) st
  | _ => st
  end.

Definition monitor (tr : list tev) : list viol := viols (fold_left step tr mstate0).
