(* The reference RES client: what a protocol-following client holds after each gateway frame,
   built solely from resource sets and events. Retention is reachability from direct subscriptions
   through non-soft references. *)
From Coq Require Import List Arith ZArith Bool.
From RG Require Import Spec.Trace.
Import ListNotations.

Fixpoint lookup {A} (k : nat) (m : list (nat * A)) : option A :=
  match m with
  | [] => None
  | (k', v) :: m' => if Nat.eqb k k' then Some v else lookup k m'
  end.
Fixpoint remove_k {A} (k : nat) (m : list (nat * A)) : list (nat * A) :=
  match m with
  | [] => []
  | (k', v) :: m' => if Nat.eqb k k' then remove_k k m' else (k', v) :: remove_k k m'
  end.
Definition set_k {A} (k : nat) (v : A) (m : list (nat * A)) : list (nat * A) := (k, v) :: remove_k k m.
Definition mem (k : nat) (l : list nat) : bool := existsb (Nat.eqb k) l.

Record client := {
  held : list (rid * rdata);       (* resources the client has data (or an error placeholder) for *)
  direct : list (rid * nat);       (* direct subscription counts *)
  deleted : list rid               (* held resources for which a delete event was received *)
}.
Definition client0 : client := {| held := []; direct := []; deleted := [] |}.

Definition dcount (cl : client) (r : rid) : nat := match lookup r (direct cl) with Some n => n | None => 0 end.

Definition refs_of (d : rdata) : list rid :=
  let f v := match v with CR r => [r] | _ => [] end in
  match d with
  | RModel m => flat_map (fun kv => f (snd kv)) m
  | RColl l => flat_map f l
  | RErr _ => []
  end.

(* reachability closure by worklist; every iteration consumes fuel, [reach_fuel] is enough for a full closure:
   each held resource is expanded at most once, pushing its references. *)
Fixpoint reach (fuel : nat) (h : list (rid * rdata)) (todo seen : list rid) : list rid :=
  match fuel with
  | O => seen
  | S f =>
      match todo with
      | [] => seen
      | r :: todo' =>
          if mem r seen then reach f h todo' seen
          else match lookup r h with
               | Some d => reach f h (refs_of d ++ todo') (r :: seen)
               | None => reach f h todo' (r :: seen)
               end
      end
  end.
Definition reach_fuel (h : list (rid * rdata)) (roots : list rid) : nat :=
  S (length roots + fold_right (fun x acc => S (length (refs_of (snd x))) + acc) 0 h).

Definition roots (cl : client) : list rid :=
  map fst (filter (fun x => negb (Nat.eqb (snd x) 0)) (direct cl)).

(* the set of resources the client retains: reachable from its direct subscriptions and from the
   resources it has an outstanding subscribe/get request for ([pending]; a client counts such a
   request as a subscription until it is answered, and so does the gateway) *)
Definition retained (pending : list rid) (cl : client) : list rid :=
  let rts := roots cl ++ pending in
  reach (reach_fuel (held cl) rts) (held cl) rts [].

(* references from retained resources that resolve to nothing: C02's dangling references
   (a pending root itself need not be held yet) *)
Definition dangling (pending : list rid) (cl : client) : list rid :=
  let ret := retained pending cl in
  filter (fun r => match lookup r (held cl) with Some _ => false | None => negb (mem r pending) end) ret.

(* drop everything that is not retained *)
Definition collect (pending : list rid) (cl : client) : client :=
  let ret := retained pending cl in
  {| held := filter (fun x => mem (fst x) ret) (held cl);
     direct := filter (fun x => negb (Nat.eqb (snd x) 0)) (direct cl);
     deleted := filter (fun r => mem r ret) (deleted cl) |}.

(* merging a resource set: data entries replace what the client has; an error entry (e.g. the access error of a
   call's resource response) does not destroy data the client already holds for that resource *)
Definition merge_set (rs : rset) (h : list (rid * rdata)) : list (rid * rdata) :=
  fold_left (fun acc x =>
    match snd x, lookup (fst x) acc with
    | RErr _, Some (RModel _ | RColl _) => acc
    | _, _ => set_k (fst x) (snd x) acc
    end) rs h.

Definition with_held (cl : client) (h : list (rid * rdata)) : client :=
  {| held := h; direct := direct cl; deleted := deleted cl |}.
Definition with_direct (cl : client) (r : rid) (n : nat) : client :=
  {| held := held cl; direct := set_k r n (direct cl); deleted := deleted cl |}.

Fixpoint insert_at {A} (n : nat) (x : A) (l : list A) : list A :=
  match n, l with
  | O, _ => x :: l
  | S n', y :: t => y :: insert_at n' x t
  | S _, [] => [x]
  end.
Fixpoint remove_at {A} (n : nat) (l : list A) : list A :=
  match n, l with
  | _, [] => []
  | O, _ :: t => t
  | S n', y :: t => y :: remove_at n' t
  end.

Fixpoint apply_change (ch : ckv) (m : ckv) : ckv :=
  match ch with
  | [] => m
  | (k, CX) :: ch' => apply_change ch' (remove_k k m)
  | (k, v) :: ch' => apply_change ch' (set_k k v m)
  end.
