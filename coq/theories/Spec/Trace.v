(* The observable alphabet of a gateway execution (what clients and services can see), in the
   abstract notation produced by the harness from the real frames, and the client-side data types. *)
From Coq Require Import List Arith ZArith Bool Ascii.
From RG Require Import Pure.Status.
Import ListNotations.
Close Scope Z_scope.
Open Scope nat_scope.

Definition rid := nat.          (* interned resource id (as the client wrote it) *)
Definition conn := nat.         (* connection label c0, c1, ... *)

(* a resource id with a query is interned as 200 + 10*N + K (resource N < 80, query number K < 10); base_of gives N.
   Plain resources are numbered below 200, other ids from 1000. *)
Definition base_of (r : rid) : rid := if Nat.leb 200 r && Nat.ltb r 1000 then (r - 200) / 10 else r.

(* values as a client sees them in frames *)
Inductive cvalue :=
| CP (n : nat)      (* primitive *)
| CR (r : rid)      (* resource reference *)
| CS (r : rid)      (* soft reference (protocol >= 1.2.1) *)
| CD (n : nat)      (* data value *)
| CX                (* delete action, only inside change events *)
| CLS (r : rid)     (* legacy encoding of a soft reference: the bare rid string *)
| CLD               (* legacy encoding of a data value: "[Data]" *)
| CU (n : nat).     (* anything else *)

Definition cv_eqb (a b : cvalue) : bool :=
  match a, b with
  | CP x, CP y | CR x, CR y | CS x, CS y | CD x, CD y | CLS x, CLS y | CU x, CU y => Nat.eqb x y
  | CX, CX | CLD, CLD => true
  | _, _ => false
  end.

Definition ckv := list (nat * cvalue).

Inductive rdata :=
| RModel (m : ckv)
| RColl (l : list cvalue)
| RErr (code : nat).

Definition rset := list (rid * rdata).

Inductive rkind := KSub | KUnsub | KGet | KCall | KAuth | KNew | KVersion | KOther.

(* events as the service emitted them on a resource *)
Inductive sevent :=
| SChange (ch : ckv) | SAdd (idx : Z) (v : cvalue) | SRemove (idx : Z) | SCustom (tag : nat) | SDelete | SReaccess
| SSkipped      (* a state event that reached the gateway while a reset re-fetch of the resource was outstanding: superseded *)
| SResetEnd     (* the reset re-fetch was answered: any number of derived change/add/remove events may be delivered here *)
| SMark         (* a system reset matching the resource reached the gateway; its task has not been processed yet *)
| SNop.         (* a processed mark *)

Inductive mtyp := MGet | MAccess | MCall | MAuth | MQuery | MOtherReq | MTokReset
                | MRefetch.   (* a get request sent by a reset: inside the task that started the reset of that resource, or by a
                                 task released from the reset throttle (the other get requests load a resource for a subscriber) *)

Inductive mout :=
| OGet (d : rdata)                 (* get result (RErr never used here) *)
| OAccess (get : bool) (call : list ascii)
| OErr (code : nat)
| OResult
| OResource (r : rid).

Record snapsub := { ss_c : conn; ss_r : rid; ss_state : nat; ss_direct : nat; ss_indirect : nat; ss_isent : nat }.

Record snapent := { se_r : rid; se_count : Z; se_mqsub : bool; se_evict : bool; se_nsubs : nat; se_nres : nat; se_who : list conn }.

Inductive tev :=
| TConn (c : conn)
| TDisc (c : conn)
| TReq (c : conn) (id : nat) (k : rkind) (r : rid) (extra : Z)   (* extra: unsubscribe count (0 = absent -> 1; negative = invalid) *)
| TRespOk (c : conn) (id : nat) (rs : rset)
| TRespRid (c : conn) (id : nat) (r : rid) (rs : rset)
| TRespPayload (c : conn) (id : nat)
| TRespVersion (c : conn) (id : nat)
| TRespErr (c : conn) (id : nat) (code : nat)
| TEvChange (c : conn) (r : rid) (ch : ckv) (rs : rset)
| TEvAdd (c : conn) (r : rid) (idx : Z) (v : cvalue) (rs : rset)
| TEvRemove (c : conn) (r : rid) (idx : Z)
| TEvCustom (c : conn) (r : rid) (tag : nat)
| TEvDelete (c : conn) (r : rid)
| TEvUnsub (c : conn) (r : rid) (code : nat)
| TMqSub (r : rid) | TMqUnsub (r : rid)
| TMqReq (n : nat) (t : mtyp) (r : rid) (c : option conn) (tok : nat) (meth : list ascii)   (* tok 0 = no token *)
| TMqResp (n : nat) (r : rid) (o : mout)   (* r: the resource of request n *)
| TMqEv (r : rid) (e : sevent)
| TQ (truth : list (rid * option rdata)) (subs : list snapsub) (ents : list snapent) (final : bool)
| TConnSub (c : conn) | TConnUnsub (c : conn)      (* the gateway's subscription to conn.<cid>.* events *)
| TEvict (r : rid)                                   (* the eviction timer of a cache entry fired *)
| TConnToken (c : conn) (tok : nat)                  (* a token event for the connection reached the gateway *)
| TTokenTask (c : conn) (tok : nat) (tid : nat)      (* the connection's worker starts the task that processes that token event (tid 0 = none) *)
| TReaccessDeferred (c : conn) (r : rid)             (* site mark: the gateway deferred a re-access trigger for c's subscription on r *)
| TLegacy (c : conn)                                 (* the connection negotiated (or defaulted to) a protocol version before 1.2.1 *)
| TThrottle (n : nat)                                (* the gateway under test runs with resetThrottle = referenceThrottle = n *)
| TTokenResetEv (tids : list nat)                    (* a system.tokenReset event naming these token ids reached the gateway *)
| TSysReset (res acc : list rid)                     (* system.reset reached the gateway; the known resources matching its patterns *)
| TResetTask (r : rid) | TResetStart (r : rid) | TResetNoop (r : rid) | TResetDone (r : rid)   (* reset handling of a cached resource (site marks) *)
| TQVariants (base : rid) (vs : list rid)            (* a query event of resource base is about to be processed; the loaded query variants *)
| TQueryAnswered (aliases : list rid)                 (* a query request was answered; the client-side ids that alias the answered variant *)
| TSched (w : option conn)                           (* a worker was granted a task; Some c for connection c's worker *)
| TRawOut (c : conn) (leak : bool)                   (* a frame was written to c; leak: it contains some connection id *)
| THttpReq (h : conn) (m : nat) (valid : bool) (r : rid)          (* m: 0 GET, 1 HEAD, 2 POST, 3 other; valid: the URL maps to a resource id (and method) *)
| THttpResp (h : conn) (status : nat) (kind : nat) (c : Status.code)   (* kind: 0 empty, 1 error object, 2 data *)
| THttpSvcErr (h : conn) (c : Status.code)                           (* a service answered a request made for h with this error *)
| TOther.
