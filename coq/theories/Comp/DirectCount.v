(* C08: the direct-subscription counter of one (connection, resource id): model of wsConn.addCount
   (wsConn.go:618-631), UnsubscribeByRID (604-616), removeCount's direct branch (638-655),
   unsubscribeDirect (subscription.go:789-794) and the count parameter handling of
   rpc.HandleRequest (rpc.go:197-214). *)
From Coq Require Import List Arith ZArith Lia Bool.
Import ListNotations.

Section WithLimit.
Variable limit : nat.     (* SubscriptionCountLimit = 256 *)

Inductive op :=
| Subscribe                 (* a request that takes a direct subscription (subscribe, get, resource response) *)
| Release                   (* that request failed, or was a get: its subscription is given back *)
| Unsubscribe (count : option Z)   (* unsubscribe request with the optional count parameter *)
| UnsubEvent.               (* revocation / delete: all direct subscriptions removed, one unsubscribe event *)

Inductive out := OOk | OLimit | ONoSubscription | OInvalidParams | OEvent | ONothing.

Definition step (d : nat) (o : op) : nat * out :=
  match o with
  | Subscribe => if limit <=? d then (d, OLimit) else (S d, OOk)
  | Release => (d - 1, ONothing)
  | Unsubscribe c =>
      let n := match c with None => 1%Z | Some n => n end in
      if (n <=? 0)%Z then (d, OInvalidParams)
      else if (Z.of_nat d <? n)%Z then (d, ONoSubscription)
      else (d - Z.to_nat n, OOk)
  | UnsubEvent => match d with O => (d, ONothing) | _ => (0, OEvent) end
  end.

(* the ledger a client can keep from what it observes *)
Definition ledger (l : nat) (o : op) (r : out) : nat :=
  match o, r with
  | Subscribe, OOk => S l
  | Release, _ => l - 1
  | Unsubscribe (Some n), OOk => l - Z.to_nat n
  | Unsubscribe None, OOk => l - 1
  | UnsubEvent, OEvent => 0
  | _, _ => l
  end.

Fixpoint run (d l : nat) (ops : list op) : nat * nat * list out :=
  match ops with
  | [] => (d, l, [])
  | o :: ops' => let '(d', r) := step d o in
                 let '(d'', l'', rs) := run d' (ledger l o r) ops' in (d'', l'', r :: rs)
  end.

Theorem ledger_exact : forall ops d, let '(d', l', _) := run d d ops in d' = l'.
Proof.
  induction ops as [|o ops IH]; intros d; cbn; [reflexivity|].
  destruct (step d o) as [d1 r] eqn:E.
  assert (H : ledger d o r = d1).
  { destruct o as [| |c|]; cbn in E.
    - destruct (limit <=? d); inversion E; subst; reflexivity.
    - inversion E; subst; reflexivity.
    - destruct c as [n|]; cbn in E.
      + destruct (n <=? 0)%Z; [inversion E; subst; reflexivity|].
        destruct (Z.of_nat d <? n)%Z; inversion E; subst; reflexivity.
      + destruct (Z.of_nat d <? 1)%Z; inversion E; subst; reflexivity.
    - destruct d; inversion E; subst; reflexivity. }
  rewrite H. specialize (IH d1). destruct (run d1 d1 ops) as [[d2 l2] rs]. exact IH.
Qed.

(* an unsubscribe request succeeds exactly when its count (default 1, must be positive) does not exceed the number
   of direct subscriptions, otherwise noSubscription (invalidParams for a bad count) and the number is unchanged *)
Theorem unsubscribe_outcome : forall d c,
  let n := match c with None => 1%Z | Some n => n end in
  let '(d', r) := step d (Unsubscribe c) in
  ((n <= 0)%Z -> r = OInvalidParams /\ d' = d) /\
  ((0 < n)%Z -> (Z.of_nat d < n)%Z -> r = ONoSubscription /\ d' = d) /\
  ((0 < n)%Z -> (n <= Z.of_nat d)%Z -> r = OOk /\ Z.of_nat d' = (Z.of_nat d - n)%Z).
Proof.
  intros d c n. unfold step. fold n.
  destruct (Z.leb_spec n 0); [repeat split; intros; try lia; reflexivity|].
  destruct (Z.ltb_spec (Z.of_nat d) n); repeat split; intros; try lia; reflexivity.
Qed.

Theorem never_exceeds_limit : forall ops d, d <= limit -> let '(d', _, _) := run d d ops in d' <= limit.
Proof.
  induction ops as [|o ops IH]; intros d Hd; cbn; [exact Hd|].
  destruct (step d o) as [d1 r] eqn:E.
  assert (H1 : d1 <= limit).
  { destruct o as [| |c|]; cbn in E.
    - destruct (Nat.leb_spec limit d); inversion E; subst; lia.
    - inversion E; subst; lia.
    - destruct c as [n|]; cbn in E.
      + destruct (n <=? 0)%Z; [inversion E; subst; lia|]. destruct (Z.of_nat d <? n)%Z; inversion E; subst; lia.
      + destruct (Z.of_nat d <? 1)%Z; inversion E; subst; lia.
    - destruct d; inversion E; subst; lia. }
  pose proof (ledger_exact (o :: ops) d) as HL. cbn in HL. rewrite E in HL.
  assert (H : ledger d o r = d1).
  { destruct o as [| |c|]; cbn in E.
    - destruct (limit <=? d); inversion E; subst; reflexivity.
    - inversion E; subst; reflexivity.
    - destruct c as [n|]; cbn in E.
      + destruct (n <=? 0)%Z; [inversion E; subst; reflexivity|].
        destruct (Z.of_nat d <? n)%Z; inversion E; subst; reflexivity.
      + destruct (Z.of_nat d <? 1)%Z; inversion E; subst; reflexivity.
    - destruct d; inversion E; subst; reflexivity. }
  rewrite H. specialize (IH d1 H1). destruct (run d1 d1 ops) as [[d2 l2] rs]. exact IH.
Qed.

End WithLimit.

Example ex_run : run 256 0 0 [Subscribe; Subscribe; Unsubscribe (Some 3%Z); Unsubscribe None; UnsubEvent; Unsubscribe (Some 0%Z)]
  = (0, 0, [OOk; OOk; ONoSubscription; OOk; OEvent; OInvalidParams]).
Proof. reflexivity. Qed.

(* C06: a revocation (denied re-access, delete) removes all direct subscriptions with exactly one unsubscribe
   event, and none when there is no direct subscription *)
Theorem revocation_removes_all : forall limit d,
  step limit d UnsubEvent = match d with O => (O, ONothing) | _ => (O, OEvent) end.
Proof. intros limit [|d]; reflexivity. Qed.
