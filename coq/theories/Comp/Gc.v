(* C02: the connection-side reference-count collector (server/wsConnGC.go tryDelete / traverse, wsConn.removeCount,
   Subscription.Dispose / unsubscribeRefs / Unsend), on a subscription graph given as a list of nodes.
   Go maps become association lists; the final loop of tryDelete runs in node order (the Go map order is random; on graphs
   whose counters are consistent the result does not depend on it - the correspondence stage compares on those). *)
From Coq Require Import List ZArith Bool Arith Lia.
Import ListNotations.
Open Scope Z_scope.

Inductive sstate := Disposed | Loading | Loaded | Ready | ToSend | Sent | Deleted.
Definition sstate_eqb (a b : sstate) : bool :=
  match a, b with
  | Disposed, Disposed | Loading, Loading | Loaded, Loaded | Ready, Ready | ToSend, ToSend | Sent, Sent | Deleted, Deleted => true
  | _, _ => false
  end.

Record node := { direct : Z; indirect : Z; isent : Z; st : sstate; refs : list nat; present : bool }.
Definition graph := list node.

Definition dummy : node := {| direct := 0; indirect := 0; isent := 0; st := Disposed; refs := []; present := false |}.
Definition get (g : graph) (i : nat) : node := nth i g dummy.
Fixpoint set (g : graph) (i : nat) (n : node) : graph :=
  match g, i with
  | [], _ => []
  | _ :: g', O => n :: g'
  | x :: g', S i' => x :: set g' i' n
  end.

Inductive gcstate := GStop | GRoot | GNone | GDelete | GKeep | GUnsend.
Definition gc_ge_keep (s : gcstate) : bool := match s with GKeep | GUnsend => true | _ => false end.

Record subref := { r_ind : Z; r_isent : Z; r_state : gcstate }.
Definition refmap := list (nat * subref).

Fixpoint rm_get (m : refmap) (i : nat) : option subref :=
  match m with [] => None | (k, v) :: m' => if Nat.eqb k i then Some v else rm_get m' i end.
Fixpoint rm_set (m : refmap) (i : nat) (v : subref) : refmap :=
  match m with
  | [] => [(i, v)]
  | (k, w) :: m' => if Nat.eqb k i then (k, v) :: m' else (k, w) :: rm_set m' i v
  end.

(* Subscription.traverse with the first callback of tryDelete (count down): returns the map *)
Fixpoint trav1 (fuel : nat) (g : graph) (sentDiff : Z) (i : nat) (state : gcstate) (m : refmap) : refmap :=
  match fuel with
  | O => m
  | S f =>
      let n := get g i in
      if 0 <? direct n then m else
      let '(state', m') :=
        match state with
        | GRoot => (GNone, m)
        | _ =>
            match rm_get m i with
            | Some r => (GStop, rm_set m i {| r_ind := r_ind r - 1; r_isent := r_isent r - sentDiff; r_state := r_state r |})
            | None => (GNone, rm_set m i {| r_ind := indirect n - 1; r_isent := isent n - sentDiff; r_state := GNone |})
            end
        end in
      match state' with
      | GStop => m'
      | _ => fold_left (fun acc c => trav1 f g sentDiff c state' acc) (refs n) m'
      end
  end.

(* ... with the second callback (mark for deletion or unsend) *)
Fixpoint trav2 (fuel : nat) (g : graph) (sent : bool) (i : nat) (state : gcstate) (m : refmap) : refmap :=
  match fuel with
  | O => m
  | S f =>
      let n := get g i in
      if 0 <? direct n then m else
      match rm_get m i with
      | None => m
      | Some r =>
          let '(state', m') :=
            if gc_ge_keep (r_state r) then (GStop, m)
            else if (0 <? r_ind r) || (match state with GKeep => true | _ => false end) then
              (GKeep, rm_set m i {| r_ind := r_ind r; r_isent := r_isent r;
                                    r_state := if sent && (r_isent r =? 0) then GUnsend else GKeep |})
            else match r_state r with
                 | GNone => (GDelete, rm_set m i {| r_ind := r_ind r; r_isent := r_isent r; r_state := GDelete |})
                 | _ => (GStop, m)
                 end in
          match state' with
          | GStop => m'
          | _ => fold_left (fun acc c => trav2 f g sent c state' acc) (refs n) m'
          end
      end
  end.

(* wsConn.removeCount without the collector (tryDelete = false): the call made by unsubscribeRefs *)
Definition remove_indirect_nodelete (g : graph) (c : nat) (sent : bool) : graph :=
  let n := get g c in
  if (direct n + indirect n + isent n =? 0) then g else
  set g c {| direct := direct n; indirect := indirect n - 1; isent := if sent then isent n - 1 else isent n;
             st := st n; refs := refs n; present := present n |}.

(* Subscription.Dispose: the state is set to disposed BEFORE unsubscribeRefs evaluates IsSent() *)
Definition dispose (g : graph) (i : nat) : graph :=
  let n := get g i in
  match st n with
  | Disposed => g
  | _ =>
      let g := set g i {| direct := direct n; indirect := indirect n; isent := isent n; st := Disposed; refs := []; present := false |} in
      fold_left (fun acc c => remove_indirect_nodelete acc c false) (refs n) g
  end.

(* Subscription.Unsend *)
Definition unsend (g : graph) (i : nat) : graph :=
  let n := get g i in
  let g := set g i {| direct := direct n; indirect := indirect n; isent := 0; st := Ready; refs := refs n; present := present n |} in
  fold_left (fun acc c =>
    let cn := get acc c in
    if sstate_eqb (st cn) Sent && (0 <? isent cn)
    then set acc c {| direct := direct cn; indirect := indirect cn; isent := isent cn - 1; st := st cn; refs := refs cn; present := present cn |}
    else acc) (refs n) g.

Definition fuel_of (g : graph) : nat := (S (length g) * S (length g))%nat.

Definition try_delete (g : graph) (s : nat) : graph :=
  let n := get g s in
  if 0 <? direct n then g else
  let sent := sstate_eqb (st n) Sent in
  let sentDiff := if sent then 1 else 0 in
  let m0 := [(s, {| r_ind := indirect n; r_isent := isent n; r_state := GNone |})] in
  let m1 := trav1 (fuel_of g) g sentDiff s GRoot m0 in
  match rm_get m1 s with
  | None => g
  | Some rr =>
      if (0 <? r_ind rr) && negb (sent && (r_isent rr =? 0)) then g else
      let m2 := trav2 (fuel_of g) g sent s GDelete m1 in
      (* the final loop, in node order *)
      fold_left (fun acc i =>
        match rm_get m2 i with
        | Some r => match r_state r with
                    | GDelete => dispose acc i
                    | GUnsend => unsend acc i
                    | _ => acc
                    end
        | None => acc
        end) (seq 0 (length g)) g
  end.

Definition remove_count (g : graph) (s : nat) (is_direct sent : bool) (count : Z) (try : bool) : graph :=
  let n := get g s in
  if (direct n + indirect n + isent n =? 0) then g else
  let g := set g s (if is_direct
                    then {| direct := direct n - count; indirect := indirect n; isent := isent n; st := st n; refs := refs n; present := present n |}
                    else {| direct := direct n; indirect := indirect n - count; isent := if sent then isent n - count else isent n;
                            st := st n; refs := refs n; present := present n |}) in
  if try then try_delete g s else g.

(* ---- what the collector is meant to maintain *)

(* number of live parents of c, and of live parents that have been sent *)
Definition parents (g : graph) (c : nat) (p : node -> bool) : Z :=
  Z.of_nat (length (filter (fun n => present n && p n && existsb (Nat.eqb c) (refs n)) g)).
Definition is_sent (n : node) : bool := sstate_eqb (st n) Sent.

(* counters consistent with the graph: indirect = live parents, indirectsent = live sent parents (for live nodes) *)
Definition consistent (g : graph) : bool :=
  forallb (fun i => let n := get g i in
                    negb (present n) ||
                    ((indirect n =? parents g i (fun _ => true)) && (isent n =? parents g i is_sent)))
          (seq 0 (length g)).

(* a live node is held: directly, or by a live parent *)
Definition no_garbage (g : graph) : bool :=
  forallb (fun i => let n := get g i in negb (present n) || (0 <? direct n) || (0 <? parents g i (fun _ => true)))
          (seq 0 (length g)).

(* The unchanged collector does NOT keep the sent counters consistent (recorded finding KF-COLLECTOR-DISPOSE-SENT):
   0 -> 2 and 1 -> 2, all sent, both roots directly subscribed; releasing root 0 disposes it, but its child 2 - kept
   alive and sent through root 1 - keeps a sent count of 2. *)
Definition kf_dispose_sent_graph : graph :=
  [ {| direct := 1; indirect := 0; isent := 0; st := Sent; refs := [2%nat]; present := true |};
    {| direct := 1; indirect := 0; isent := 0; st := Sent; refs := [2%nat]; present := true |};
    {| direct := 0; indirect := 2; isent := 2; st := Sent; refs := []; present := true |} ].

Theorem collector_keeps_sent_counts_refuted :
  exists g s, consistent g = true /\ consistent (remove_count g s true false 1 true) = false.
Proof. exists kf_dispose_sent_graph, 0%nat. split; vm_compute; reflexivity. Qed.

(* what does hold on that witness: nothing live is left unheld, and the other root is untouched *)
Example kf_dispose_sent_rest :
  let g' := remove_count kf_dispose_sent_graph 0 true false 1 true in
  no_garbage g' = true /\ get g' 1 = get kf_dispose_sent_graph 1 /\ present (get g' 0) = false /\ isent (get g' 2) = 2.
Proof. vm_compute. repeat split; reflexivity. Qed.

(* ---- proved: the collector never touches a directly subscribed resource's registration or state *)

Lemma get_set_same g i n : (i < length g)%nat -> get (set g i n) i = n.
Proof.
  revert i; induction g as [|x g IH]; intros i H; cbn in *; [lia|].
  destruct i; cbn; [reflexivity|]. apply IH. lia.
Qed.
Lemma get_set_other g i j n : i <> j -> get (set g i n) j = get g j.
Proof.
  revert i j; induction g as [|x g IH]; intros i j H; cbn; [reflexivity|].
  destruct i, j; cbn; try reflexivity; try congruence. apply IH. congruence.
Qed.
Lemma set_length g i n : length (set g i n) = length g.
Proof. revert i; induction g as [|x g IH]; intros i; cbn; [reflexivity|]. destruct i; cbn; [reflexivity|]. f_equal. apply IH. Qed.

Lemma set_beyond g i n : (length g <= i)%nat -> set g i n = g.
Proof.
  revert i; induction g as [|x g IH]; intros i H; cbn; [reflexivity|].
  destruct i; cbn in *; [lia|]. f_equal. apply IH. lia.
Qed.

(* state and registration of node j *)
Definition reg (g : graph) (j : nat) : sstate * bool * Z := (st (get g j), present (get g j), direct (get g j)).

Lemma remove_indirect_nodelete_reg g c sent j : reg (remove_indirect_nodelete g c sent) j = reg g j.
Proof.
  unfold remove_indirect_nodelete, reg. destruct (_ =? 0); [reflexivity|].
  destruct (Nat.eq_dec c j) as [->|Hne].
  - destruct (Nat.lt_ge_cases j (length g)) as [Hlt|Hge].
    + rewrite get_set_same by exact Hlt. reflexivity.
    + rewrite set_beyond by exact Hge. reflexivity.
  - rewrite get_set_other by exact Hne. reflexivity.
Qed.

Lemma fold_remove_reg l g j : reg (fold_left (fun acc c => remove_indirect_nodelete acc c false) l g) j = reg g j.
Proof.
  revert g; induction l as [|c l IH]; intros g; cbn; [reflexivity|].
  rewrite IH. apply remove_indirect_nodelete_reg.
Qed.

Lemma dispose_reg_other g i j : i <> j -> reg (dispose g i) j = reg g j.
Proof.
  intros H. unfold dispose. destruct (st (get g i)); try reflexivity;
    rewrite fold_remove_reg; unfold reg; rewrite get_set_other by exact H; reflexivity.
Qed.

Lemma unsend_reg_other g i j : i <> j -> reg (unsend g i) j = reg g j.
Proof.
  intros H. unfold unsend.
  set (g0 := set g i _).
  assert (H0 : reg g0 j = reg g j) by (unfold reg, g0; rewrite get_set_other by exact H; reflexivity).
  rewrite <- H0. clear H0. generalize g0. clear g0.
  induction (refs (get g i)) as [|c l IH]; intros g0; cbn; [reflexivity|].
  rewrite IH. destruct (sstate_eqb (st (get g0 c)) Sent && (0 <? isent (get g0 c))); [|reflexivity].
  unfold reg. destruct (Nat.eq_dec c j) as [->|Hne].
  - destruct (Nat.lt_ge_cases j (length g0)) as [Hlt|Hge].
    + rewrite get_set_same by exact Hlt. reflexivity.
    + rewrite set_beyond by exact Hge. reflexivity.
  - rewrite get_set_other by exact Hne. reflexivity.
Qed.

(* every key of the map built by the traversals belongs to a node that is not directly subscribed (or is the root) *)
Definition keys_ok (g : graph) (s : nat) (m : refmap) : Prop :=
  forall k v, In (k, v) m -> k = s \/ (0 <? direct (get g k)) = false.

Lemma rm_set_keys g s m i v : keys_ok g s m -> (i = s \/ (0 <? direct (get g i)) = false) -> keys_ok g s (rm_set m i v).
Proof.
  unfold keys_ok. induction m as [|[k w] m IH]; intros Hm Hi k' v' Hin; cbn in Hin.
  - destruct Hin as [E|[]]. inversion E; subst. exact Hi.
  - destruct (Nat.eqb_spec k i) as [->|Hne].
    + destruct Hin as [E|Hin]; [inversion E; subst; exact Hi|]. apply (Hm k' v'). right. exact Hin.
    + destruct Hin as [E|Hin]; [inversion E; subst; apply (Hm k' v'); left; reflexivity|].
      apply (IH (fun a b H => Hm a b (or_intror H)) Hi k' v' Hin).
Qed.

Lemma rm_get_in m i v : rm_get m i = Some v -> exists w, In (i, w) m.
Proof.
  induction m as [|[k w] m IH]; cbn; [discriminate|].
  destruct (Nat.eqb_spec k i) as [->|Hne]; intros H.
  - exists w. left. reflexivity.
  - destruct (IH H) as [w' Hw]. exists w'. right. exact Hw.
Qed.

Lemma trav1_keys fuel : forall g sd s i state m, keys_ok g s m -> keys_ok g s (trav1 fuel g sd i state m).
Proof.
  induction fuel as [|f IH]; intros g sd s i state m Hm; cbn; [exact Hm|].
  destruct (0 <? direct (get g i)) eqn:Hd; [exact Hm|].
  assert (Hfold : forall l st' m', keys_ok g s m' -> keys_ok g s (fold_left (fun acc c => trav1 f g sd c st' acc) l m')).
  { induction l as [|c l IHl]; intros st' m' Hm'; cbn; [exact Hm'|]. apply IHl, IH, Hm'. }
  destruct state; try (destruct (rm_get m i) as [r|];
    [apply rm_set_keys; [exact Hm|right; exact Hd]
    |apply Hfold, rm_set_keys; [exact Hm|right; exact Hd]]).
  apply Hfold, Hm.
Qed.

Lemma trav2_keys fuel : forall g sent s i state m, keys_ok g s m -> keys_ok g s (trav2 fuel g sent i state m).
Proof.
  induction fuel as [|f IH]; intros g sent s i state m Hm; cbn; [exact Hm|].
  destruct (0 <? direct (get g i)) eqn:Hd; [exact Hm|].
  destruct (rm_get m i) as [r|] eqn:Hr; [|exact Hm].
  assert (Hfold : forall l st' m', keys_ok g s m' -> keys_ok g s (fold_left (fun acc c => trav2 f g sent c st' acc) l m')).
  { induction l as [|c l IHl]; intros st' m' Hm'; cbn; [exact Hm'|]. apply IHl, IH, Hm'. }
  destruct (gc_ge_keep (r_state r)); [exact Hm|].
  destruct ((0 <? r_ind r) || match state with GKeep => true | _ => false end).
  - apply Hfold, rm_set_keys; [exact Hm|right; exact Hd].
  - destruct (r_state r); try exact Hm. apply Hfold, rm_set_keys; [exact Hm|right; exact Hd].
Qed.

(* C02 (collector, proved part): releasing or collecting never unregisters, disposes or "unsends" a resource the client
   is directly subscribed to - whatever the graph (cycles, sharing) and whatever its counters. *)
Theorem try_delete_keeps_direct : forall g s j,
  0 < direct (get g j) -> reg (try_delete g s) j = reg g j.
Proof.
  intros g s j Hj. unfold try_delete.
  destruct (0 <? direct (get g s)) eqn:Hs; [reflexivity|].
  set (sent := sstate_eqb (st (get g s)) Sent).
  set (m0 := [(s, _)]).
  set (m1 := trav1 _ _ _ _ _ _).
  destruct (rm_get m1 s) as [rr|]; [|reflexivity].
  destruct ((0 <? r_ind rr) && negb (sent && (r_isent rr =? 0))); [reflexivity|].
  set (m2 := trav2 _ _ _ _ _ _).
  assert (Hk : keys_ok g s m2).
  { apply trav2_keys, trav1_keys. intros k v [E|[]]. inversion E. left. reflexivity. }
  assert (Hjs : j <> s) by (intros ->; apply Z.ltb_lt in Hj; congruence).
  assert (Hnot : forall r, rm_get m2 j = Some r -> False).
  { intros r Hr. destruct (rm_get_in _ _ _ Hr) as [w Hw]. destruct (Hk _ _ Hw) as [E|E]; [congruence|].
    apply Z.ltb_lt in Hj. congruence. }
  (* the final loop never visits j *)
  assert (Hloop : forall l acc, reg acc j = reg g j ->
            reg (fold_left (fun acc i => match rm_get m2 i with
                                         | Some r => match r_state r with GDelete => dispose acc i | GUnsend => unsend acc i | _ => acc end
                                         | None => acc end) l acc) j = reg g j).
  { induction l as [|i l IH]; intros acc Hacc; cbn [fold_left]; [exact Hacc|]. apply IH.
    destruct (rm_get m2 i) as [r|] eqn:Hr; [|exact Hacc].
    destruct (Nat.eq_dec i j) as [->|Hne]; [exfalso; eapply Hnot; exact Hr|].
    destruct (r_state r); try exact Hacc.
    - rewrite dispose_reg_other by exact Hne. exact Hacc.
    - rewrite unsend_reg_other by exact Hne. exact Hacc. }
  apply Hloop. reflexivity.
Qed.
Print Assumptions try_delete_keeps_direct.
Print Assumptions collector_keeps_sent_counts_refuted.
