(* C04 / C05 / C06 / C07: one connection-side Subscription on a resource without references
   (server/subscription.go: loadAccess, CanGet, CanCall, OnReady, Loaded, GetRPCResources/populateResources,
   ReleaseRPCResources, Event/processEvent, Reaccess/reaccess/handleReaccess/validateAccess, queueEvents/unqueueEvents,
   unsubscribeDirect, Dispose) together with the connection's counter operations it calls
   (wsConn.addCount, UnsubscribeByRID, removeCount, tryDelete for a subscription without references).
   Every operation is one task of the connection worker. *)
From Coq Require Import List Arith Bool Lia.
Import ListNotations.

Inductive sst := Disposed | Loading | Loaded | Ready | ToSend | Sent | Deleted.
Definition sst_num (s : sst) : nat :=
  match s with Disposed => 0 | Loading => 1 | Loaded => 2 | Ready => 3 | ToSend => 4 | Sent => 5 | Deleted => 6 end.

Inductive ev := ECustom (n : nat) | EDelete.

(* an access answer *)
Inductive accv :=
| AGrant          (* get: true, call: "*" *)
| AGrantNoCall    (* get: true, call: "" *)
| ADeny           (* get: false, call: "set" *)
| ADenied         (* error system.accessDenied *)
| AError.         (* error system.internalError (not cached) *)

Inductive verdict := VOk | VAccessDenied | VInternalError | VDeleted.

Definition can_get (a : accv) : verdict :=
  match a with AGrant | AGrantNoCall => VOk | ADeny | ADenied => VAccessDenied | AError => VInternalError end.
Definition can_call (a : accv) : verdict :=      (* the method asked for is "set" *)
  match a with AGrant | ADeny => VOk | AGrantNoCall | ADenied => VAccessDenied | AError => VInternalError end.
Definition cacheable (a : accv) : bool := match a with AError => false | _ => true end.

(* continuations waiting for an access answer *)
Inductive cont := KGet (k : nat) | KCall (k : nat) | KValidate.

Inductive obs :=
| OCont (k : nat) (v : verdict)     (* a request continuation ran with this verdict *)
| OReady (k : nat)                  (* an OnReady continuation ran *)
| OAccess                           (* an access request was sent *)
| OEvent (e : ev)                   (* an event frame was sent to the client *)
| OUnsubEvent (v : verdict)         (* an unsubscribe event frame with this reason *)
| ORelease                          (* the cache entry's use was released (ResourceSubscription.Unsubscribe) *)
| OUnsubOk | OUnsubFail | OLimit.

Record sub := {
  st : sst; qL : bool; qR : bool;           (* queueFlag: loading, reaccess *)
  eq : list ev;                             (* eventQueue *)
  acc : option accv;                        (* cached access answer *)
  acbs : list cont;                         (* accessCallbacks *)
  fCalled : bool; fReacc : bool;            (* flags *)
  direct : nat;
  rcbs : list nat;                          (* readyCallbacks *)
  hasrs : bool;                             (* resourceSub != nil *)
  reg : bool;                               (* registered in wsConn.subs *)
  outst : nat                               (* access requests not yet answered *)
}.

Definition init : sub :=
  {| st := Loading; qL := true; qR := false; eq := []; acc := None; acbs := []; fCalled := false; fReacc := false;
     direct := 1; rcbs := []; hasrs := false; reg := true; outst := 0 |}.

Definition queueing (s : sub) : bool := qL s || qR s.

(* Subscription.Dispose (no references) *)
Definition dispose (s : sub) : sub * list obs :=
  match st s with
  | Disposed => (s, [])
  | prev =>
      ({| st := Disposed; qL := qL s; qR := qR s; eq := []; acc := acc s; acbs := acbs s; fCalled := fCalled s; fReacc := fReacc s;
          direct := direct s; rcbs := []; hasrs := false; reg := reg s; outst := outst s |},
       if hasrs s then match prev with Deleted => [] | _ => [ORelease] end else [])
  end.

(* wsConn.removeCount (direct) with tryDelete: dropping to zero disposes and unregisters *)
Definition remove_direct (s : sub) (count : nat) : sub * list obs :=
  if Nat.eqb (direct s) 0 then (s, []) else
  let s := {| st := st s; qL := qL s; qR := qR s; eq := eq s; acc := acc s; acbs := acbs s; fCalled := fCalled s; fReacc := fReacc s;
              direct := direct s - count; rcbs := rcbs s; hasrs := hasrs s; reg := reg s; outst := outst s |} in
  if Nat.ltb 0 (direct s) then (s, []) else
  let '(s, o) := dispose s in
  ({| st := st s; qL := qL s; qR := qR s; eq := eq s; acc := acc s; acbs := acbs s; fCalled := fCalled s; fReacc := fReacc s;
      direct := direct s; rcbs := rcbs s; hasrs := hasrs s; reg := false; outst := outst s |}, o).

(* Subscription.unsubscribeDirect *)
Definition unsubscribe_direct (s : sub) (reason : verdict) : sub * list obs :=
  if Nat.ltb 0 (direct s) then
    let '(s, o) := remove_direct s (direct s) in (s, o ++ [OUnsubEvent reason])
  else (s, []).

(* Subscription.processEvent for a model without references *)
Definition process_event (s : sub) (e : ev) : sub * list obs :=
  match e with
  | ECustom n => (s, [OEvent e])
  | EDelete =>
      let s := {| st := Deleted; qL := qL s; qR := qR s; eq := eq s; acc := acc s; acbs := acbs s; fCalled := fCalled s; fReacc := fReacc s;
                  direct := direct s; rcbs := rcbs s; hasrs := hasrs s; reg := reg s; outst := outst s |} in
      let '(s, o) := unsubscribe_direct s VDeleted in (s, OEvent e :: o)
  end.

(* Subscription.loadAccess *)
Definition load_access (s : sub) (k : cont) : sub * list obs * option accv :=   (* Some a: the continuation runs at once on a *)
  match acc s with
  | Some a => (s, [], Some a)
  | None =>
      let s := {| st := st s; qL := qL s; qR := qR s; eq := eq s; acc := acc s; acbs := acbs s ++ [k]; fCalled := fCalled s; fReacc := fReacc s;
                  direct := direct s; rcbs := rcbs s; hasrs := hasrs s; reg := reg s; outst := outst s |} in
      if fCalled s then (s, [], None) else
      ({| st := st s; qL := qL s; qR := qR s; eq := eq s; acc := acc s; acbs := acbs s; fCalled := true; fReacc := fReacc s;
          direct := direct s; rcbs := rcbs s; hasrs := hasrs s; reg := reg s; outst := S (outst s) |}, [OAccess], None)
  end.

(* Subscription.handleReaccess (the cached answer is dropped first, so loadAccess always registers the validation) *)
Definition handle_reaccess (s : sub) : sub * list obs :=
  let s := {| st := st s; qL := qL s; qR := qR s; eq := eq s; acc := None; acbs := acbs s; fCalled := fCalled s; fReacc := false;
              direct := direct s; rcbs := rcbs s; hasrs := hasrs s; reg := reg s; outst := outst s |} in
  if Nat.eqb (direct s) 0 then (s, []) else
  let s := {| st := st s; qL := qL s; qR := true; eq := eq s; acc := acc s; acbs := acbs s; fCalled := fCalled s; fReacc := fReacc s;
              direct := direct s; rcbs := rcbs s; hasrs := hasrs s; reg := reg s; outst := outst s |} in
  let '(s, o, _) := load_access s KValidate in (s, o).

(* the loop of unqueueEvents over the detached queue *)
Fixpoint drain_events (s : sub) (l : list ev) : sub * list obs :=
  match l with
  | [] => (s, [])
  | e :: l' =>
      let '(s, o) := process_event s e in
      match st s with
      | Disposed => (s, o)
      | _ => if queueing s
             then ({| st := st s; qL := qL s; qR := qR s; eq := l' ++ eq s; acc := acc s; acbs := acbs s; fCalled := fCalled s; fReacc := fReacc s;
                      direct := direct s; rcbs := rcbs s; hasrs := hasrs s; reg := reg s; outst := outst s |}, o)
             else let '(s, o') := drain_events s l' in (s, o ++ o')
      end
  end.

(* Subscription.unqueueEvents *)
Definition unqueue (s : sub) (loading : bool) : sub * list obs :=
  let s := {| st := st s; qL := if loading then false else qL s; qR := if loading then qR s else false; eq := eq s; acc := acc s; acbs := acbs s;
              fCalled := fCalled s; fReacc := fReacc s; direct := direct s; rcbs := rcbs s; hasrs := hasrs s; reg := reg s; outst := outst s |} in
  if queueing s then (s, []) else
  let '(s, o1) := if fReacc s then handle_reaccess s else (s, []) in
  if queueing s then (s, o1) else
  let l := eq s in
  let s := {| st := st s; qL := qL s; qR := qR s; eq := []; acc := acc s; acbs := acbs s; fCalled := fCalled s; fReacc := fReacc s;
              direct := direct s; rcbs := rcbs s; hasrs := hasrs s; reg := reg s; outst := outst s |} in
  let '(s, o2) := drain_events s l in (s, o1 ++ o2).

(* running one continuation on an access answer *)
Definition run_cont (s : sub) (k : cont) (a : accv) : sub * list obs :=
  match k with
  | KGet n => (s, [OCont n (can_get a)])
  | KCall n => (s, [OCont n (can_call a)])
  | KValidate =>
      let '(s, o1) := match can_get a with VOk => (s, []) | v => unsubscribe_direct s v end in
      let '(s, o2) := unqueue s false in (s, o1 ++ o2)
  end.

Fixpoint run_conts (s : sub) (ks : list cont) (a : accv) : sub * list obs :=
  match ks with
  | [] => (s, [])
  | k :: ks' => let '(s, o) := run_cont s k a in let '(s, o') := run_conts s ks' a in (s, o ++ o')
  end.

Inductive op :=
| OpGet (k : nat) | OpCall (k : nat) | OpReady (k : nat) | OpLoaded | OpResources | OpRelease
| OpEvent (e : ev) | OpReaccess | OpAnswer (a : accv) | OpAdd | OpUnsub (n : nat).

Definition step (s : sub) (o : op) : sub * list obs :=
  match o with
  | OpGet k | OpCall k =>
      let c := match o with OpGet _ => KGet k | _ => KCall k end in
      let '(s, ob, now) := load_access s c in
      match now with
      | Some a => let '(s, o') := run_cont s c a in (s, ob ++ o')
      | None => (s, ob)
      end
  | OpReady k =>
      if Nat.leb 2 (sst_num (st s)) then (s, [OReady k])      (* ready, or loaded with nothing to wait for *)
      else ({| st := st s; qL := qL s; qR := qR s; eq := eq s; acc := acc s; acbs := acbs s; fCalled := fCalled s; fReacc := fReacc s;
               direct := direct s; rcbs := rcbs s ++ [k]; hasrs := hasrs s; reg := reg s; outst := outst s |}, [])
  | OpLoaded =>
      match st s with
      | Disposed => (s, [ORelease])
      | _ => ({| st := Loaded; qL := true; qR := qR s; eq := eq s; acc := acc s; acbs := acbs s; fCalled := fCalled s; fReacc := fReacc s;
                 direct := direct s; rcbs := []; hasrs := true; reg := reg s; outst := outst s |}, map OReady (rcbs s))
      end
  | OpResources =>
      match st s with
      | Sent | ToSend | Disposed => (s, [])
      | _ => ({| st := ToSend; qL := qL s; qR := qR s; eq := eq s; acc := acc s; acbs := acbs s; fCalled := fCalled s; fReacc := fReacc s;
                 direct := direct s; rcbs := rcbs s; hasrs := hasrs s; reg := reg s; outst := outst s |}, [])
      end
  | OpRelease =>
      match st s with
      | Disposed | Sent => (s, [])
      | _ => unqueue {| st := Sent; qL := qL s; qR := qR s; eq := eq s; acc := acc s; acbs := acbs s; fCalled := fCalled s; fReacc := fReacc s;
                        direct := direct s; rcbs := rcbs s; hasrs := hasrs s; reg := reg s; outst := outst s |} true
      end
  | OpEvent e =>
      if negb (hasrs s) then (s, [])
      else if queueing s
      then ({| st := st s; qL := qL s; qR := qR s; eq := eq s ++ [e]; acc := acc s; acbs := acbs s; fCalled := fCalled s; fReacc := fReacc s;
               direct := direct s; rcbs := rcbs s; hasrs := hasrs s; reg := reg s; outst := outst s |}, [])
      else process_event s e
  | OpReaccess =>
      match st s with
      | Disposed => (s, [])
      | _ => if queueing s
             then ({| st := st s; qL := qL s; qR := qR s; eq := eq s; acc := acc s; acbs := acbs s; fCalled := fCalled s; fReacc := true;
                      direct := direct s; rcbs := rcbs s; hasrs := hasrs s; reg := reg s; outst := outst s |}, [])
             else handle_reaccess s
      end
  | OpAnswer a =>
      if Nat.eqb (outst s) 0 then (s, []) else
      let s := {| st := st s; qL := qL s; qR := qR s; eq := eq s; acc := acc s; acbs := acbs s; fCalled := fCalled s; fReacc := fReacc s;
                  direct := direct s; rcbs := rcbs s; hasrs := hasrs s; reg := reg s; outst := outst s - 1 |} in
      match st s with
      | Disposed => (s, [])               (* the continuations registered on a disposed subscription are never run *)
      | _ =>
          let ks := acbs s in
          let s := {| st := st s; qL := qL s; qR := qR s; eq := eq s; acc := if cacheable a then Some a else acc s; acbs := [];
                      fCalled := false; fReacc := fReacc s; direct := direct s; rcbs := rcbs s; hasrs := hasrs s; reg := reg s; outst := outst s |} in
          run_conts s ks a
      end
  | OpAdd =>
      if reg s then
        if Nat.leb 256 (direct s) then (s, [OLimit])
        else ({| st := st s; qL := qL s; qR := qR s; eq := eq s; acc := acc s; acbs := acbs s; fCalled := fCalled s; fReacc := fReacc s;
                 direct := S (direct s); rcbs := rcbs s; hasrs := hasrs s; reg := reg s; outst := outst s |}, [])
      else (s, [])
  | OpUnsub n =>
      if negb (reg s) || Nat.ltb (direct s) n then (s, [OUnsubFail])
      else let '(s, o) := remove_direct s n in (s, OUnsubOk :: o)
  end.

Fixpoint run (s : sub) (ops : list op) : sub * list (list obs) :=
  match ops with
  | [] => (s, [])
  | o :: ops' => let '(s, ob) := step s o in let '(s, obs) := run s ops' in (s, ob :: obs)
  end.
