(* Feasibility sketch for C19: model of rescache.Throttle (server/rescache/throttle.go) *)
From Coq Require Import List Arith Lia Bool.
Import ListNotations.

Record thr := { limit : nat; running : nat; queue : list nat }.

Inductive op := Add (id : nat) | Done.
Inductive res := Ok (t : thr) (ran : list nat) | Crash.   (* ran: starters executed by this call (directly or via `go cb()`) *)

Definition step (t : thr) (o : op) : res :=
  match o with
  | Add id =>
      if limit t <=? running t
      then Ok {| limit := limit t; running := running t; queue := queue t ++ [id] |} []
      else Ok {| limit := limit t; running := S (running t); queue := queue t |} [id]
  | Done =>
      if running t =? 0 then Crash                                   (* panic("throttle: negative running counter") *)
      else match queue t with
           | [] => Ok {| limit := limit t; running := running t - 1; queue := [] |} []
           | id :: q => Ok {| limit := limit t; running := running t; queue := q |} [id]
           end
  end.

(* ghost history: what was added, what was started (in order), how many Done calls *)
Record hist := { t_ : thr; added : list nat; started : list nat; ndone : nat; crashed : bool }.
Definition init (n : nat) : hist :=
  {| t_ := {| limit := n; running := 0; queue := [] |}; added := []; started := []; ndone := 0; crashed := false |}.

Definition hstep (h : hist) (o : op) : hist :=
  if crashed h then h else
  match step (t_ h) o with
  | Crash => {| t_ := t_ h; added := added h; started := started h; ndone := ndone h; crashed := true |}
  | Ok t' ran =>
      {| t_ := t'; added := (match o with Add id => added h ++ [id] | Done => added h end);
         started := started h ++ ran; ndone := (match o with Done => S (ndone h) | _ => ndone h end); crashed := false |}
  end.

(* environment contract: Done is only called for a starter that ran and has not been Done yet *)
Fixpoint wf (h : hist) (ops : list op) : Prop :=
  match ops with
  | [] => True
  | o :: ops' => (match o with Done => ndone h < length (started h) | Add _ => True end) /\ wf (hstep h o) ops'
  end.

Definition run (n : nat) (ops : list op) : hist := fold_left hstep ops (init n).

Record Inv (h : hist) : Prop := {
  i_nocrash : crashed h = false;
  i_bound : running (t_ h) <= limit (t_ h);
  i_full : queue (t_ h) <> [] -> running (t_ h) = limit (t_ h);
  i_fifo : started h ++ queue (t_ h) = added h;
  i_count : running (t_ h) + ndone h = length (started h)
}.

Lemma step_inv h o : 1 <= limit (t_ h) -> Inv h ->
  (match o with Done => ndone h < length (started h) | Add _ => True end) ->
  Inv (hstep h o) /\ limit (t_ (hstep h o)) = limit (t_ h).
Proof.
  intros Hl [Hc Hb Hf Hq Hn] Hwf. unfold hstep. rewrite Hc. destruct o as [id|]; cbn [step].
  - destruct (Nat.leb_spec (limit (t_ h)) (running (t_ h))) as [Hle|Hgt]; cbn.
    + split; [|reflexivity]. constructor; cbn.
      * reflexivity.
      * exact Hb.
      * intros _. lia.
      * rewrite app_nil_r, app_assoc, Hq. reflexivity.
      * rewrite app_nil_r. exact Hn.
    + split; [|reflexivity].
      assert (Hqe : queue (t_ h) = []).
      { destruct (queue (t_ h)) eqn:E; [reflexivity|]. assert (running (t_ h) = limit (t_ h)) by (apply Hf; discriminate). lia. }
      constructor; cbn.
      * reflexivity.
      * lia.
      * rewrite Hqe. intros Hne. congruence.
      * rewrite Hqe in *. rewrite !app_nil_r in *. rewrite Hq. reflexivity.
      * rewrite app_length. cbn. lia.
  - destruct (Nat.eqb_spec (running (t_ h)) 0) as [H0|Hpos]; [lia|].
    destruct (queue (t_ h)) as [|id q] eqn:Eq; cbn.
    + split; [|reflexivity]. constructor; cbn.
      * reflexivity.
      * lia.
      * intros Hne; congruence.
      * rewrite !app_nil_r in *. exact Hq.
      * rewrite app_nil_r. lia.
    + split; [|reflexivity]. constructor; cbn.
      * reflexivity.
      * exact Hb.
      * intros _. apply Hf. discriminate.
      * rewrite <- Hq. rewrite <- app_assoc. reflexivity.
      * rewrite app_length. cbn. lia.
Qed.

Theorem run_inv : forall n ops, 1 <= n -> wf (init n) ops -> Inv (run n ops) /\ limit (t_ (run n ops)) = n.
Proof.
  intros n ops Hn. unfold run.
  assert (H0 : Inv (init n) /\ limit (t_ (init n)) = n).
  { split; [constructor; cbn; auto; try lia; congruence|reflexivity]. }
  revert H0. generalize (init n). induction ops as [|o ops IH]; intros h [Hi Hl] Hwf; cbn; [auto|].
  destruct Hwf as [Ho Hwf]. apply IH; [|exact Hwf].
  destruct (step_inv h o ltac:(lia) Hi Ho) as [Hi' Hl']. split; [exact Hi'|lia].
Qed.

(* C19, bound: never more than N started-but-unanswered; never a panic; starters run in Add order *)
Theorem throttle_bound : forall n ops, 1 <= n -> wf (init n) ops ->
  let h := run n ops in
  crashed h = false /\ length (started h) - ndone h <= n /\ exists rest, added h = started h ++ rest.
Proof.
  intros n ops Hn Hwf h. destruct (run_inv n ops Hn Hwf) as [[Hc Hb Hf Hq Hc2] Hl]. fold h in Hc, Hb, Hf, Hq, Hc2, Hl.
  split; [exact Hc|]. split; [lia|]. exists (queue (t_ h)). symmetry. exact Hq.
Qed.

(* C19, progress: whenever every started request has been answered, nothing is left waiting *)
Theorem throttle_progress : forall n ops, 1 <= n -> wf (init n) ops ->
  let h := run n ops in
  ndone h = length (started h) -> started h = added h.
Proof.
  intros n ops Hn Hwf h Hall. destruct (run_inv n ops Hn Hwf) as [[Hc Hb Hf Hq Hc2] Hl]. fold h in Hc, Hb, Hf, Hq, Hc2, Hl.
  assert (Hr : running (t_ h) = 0) by lia.
  destruct (queue (t_ h)) as [|x q] eqn:Eq.
  - rewrite app_nil_r in Hq. exact Hq.
  - specialize (Hf ltac:(discriminate)). lia.
Qed.
(* C19, exact: at every moment the number of requests sent is min(added, answered + N): nothing waits while a slot
   is free, nothing is sent beyond the limit *)
Theorem throttle_exact : forall n ops, 1 <= n -> wf (init n) ops ->
  let h := run n ops in
  length (started h) = Nat.min (length (added h)) (ndone h + n).
Proof.
  intros n ops Hn Hwf h. destruct (run_inv n ops Hn Hwf) as [[Hc Hb Hf Hq Hc2] Hl]. fold h in Hc, Hb, Hf, Hq, Hc2, Hl.
  rewrite <- Hq, app_length.
  destruct (queue (t_ h)) as [|x q] eqn:Eq.
  - cbn. lia.
  - specialize (Hf ltac:(discriminate)). cbn. lia.
Qed.
Print Assumptions throttle_bound.
Print Assumptions throttle_exact.
Print Assumptions throttle_progress.

Example ex : let h := run 2 [Add 1; Add 2; Add 3; Add 4; Done; Done; Done; Done] in
  (started h, queue (t_ h), running (t_ h), crashed h) = ([1;2;3;4], [], 0, false).
Proof. reflexivity. Qed.
Example ex_panic : crashed (run 1 [Add 1; Done; Done]) = true.   (* the contract is needed *)
Proof. reflexivity. Qed.
