(* The instance of Comp/Core.v that is run against the gateway: a flat resource is a model (key/value list, Base/Value.v) or
   a collection (list of values); events are applied as Pure/ModelDiff.v and Comp/ResSub.v do it
   (ResourceSubscription.handleEventChange / handleEventAdd / handleEventRemove): [cnorm] is what the cache hands to its
   subscribers - the effective part of a change, an add or remove that is in range - or nothing. *)
From Coq Require Import List Arith Bool.
From RG Require Import Base.Value Pure.ModelDiff Comp.ResSub.
From RG Require Comp.Conv Comp.Core.
Import ListNotations.

Inductive cval := VM (m : kv) | VC (l : list value).
Inductive cupd := UChange (p : kv) | UAdd (i : nat) (x : value) | URemove (i : nat).

Definition capp (u : cupd) (v : cval) : cval :=
  match u, v with
  | UChange p, VM m => VM (snd (apply_change p m))
  | UAdd i x, VC l => if Nat.leb i (length l) && is_proper x then VC (insert_nth i x l) else VC l
  | URemove i, VC l => if Nat.ltb i (length l) then VC (remove_nth i l) else VC l
  | _, _ => v
  end.
Definition cnorm (u : cupd) (v : cval) : option cupd :=
  match u, v with
  | UChange p, VM m => match fst (apply_change p m) with [] => None | e => Some (UChange e) end
  | UAdd i x, VC l => if Nat.leb i (length l) && is_proper x then Some u else None
  | URemove i, VC l => if Nat.ltb i (length l) then Some u else None
  | _, _ => None
  end.

Definition kstep : Core.st cval cupd -> Core.op cupd -> Core.st cval cupd * list (Core.out cval cupd) := Core.step cval cupd capp cnorm.
Definition kinit (t : cval) : Core.st cval cupd := Core.init cval cupd (VM []) t.
Definition ktruth (s : Core.st cval cupd) : cval := Conv.truth cval cupd (Core.cv cval cupd s).

(* the premises of the theorems about Core hold of this instance *)
Lemma apply_change_idem : forall u v, apply_change (fst (apply_change u v)) v = apply_change u v.
Proof.
  induction u as [|[k x] ps IH]; intros v.
  - reflexivity.
  - specialize (IH v). cbn [apply_change].
    destruct (apply_change ps v) as [eff m'] eqn:E. cbn [fst] in IH.
    destruct x.
    all: try (destruct (lookup k m') as [ov|] eqn:L;
              [destruct (veq ov _) eqn:Q|];
              cbn [fst]; try exact IH;
              cbn [apply_change]; rewrite IH; rewrite L; try rewrite Q; reflexivity).
    destruct (has_key k m') eqn:H; cbn [fst]; try exact IH.
    cbn [apply_change]. rewrite IH, H. reflexivity.
Qed.

Lemma apply_change_nil : forall u v, fst (apply_change u v) = [] -> snd (apply_change u v) = v.
Proof.
  induction u as [|[k x] ps IH]; intros v.
  - reflexivity.
  - specialize (IH v). cbn [apply_change].
    destruct (apply_change ps v) as [eff m'] eqn:E. cbn [fst snd] in IH.
    destruct x.
    all: try (destruct (lookup k m') as [ov|] eqn:L;
              [destruct (veq ov _) eqn:Q|];
              cbn [fst snd]; intros H; try discriminate H; auto).
    destruct (has_key k m') eqn:H; cbn [fst snd]; intros H0; try discriminate H0; auto.
Qed.

Lemma cnorm_none : forall u v, cnorm u v = None -> capp u v = v.
Proof.
  intros [p|i x|i] [m|l]; unfold cnorm, capp; intros H; try reflexivity.
  - destruct (fst (apply_change p m)) eqn:E; [|discriminate H]. rewrite (apply_change_nil p m E). reflexivity.
  - destruct (Nat.leb i (length l) && is_proper x); [discriminate H|reflexivity].
  - destruct (Nat.ltb i (length l)); [discriminate H|reflexivity].
Qed.

Lemma cnorm_some : forall u v u', cnorm u v = Some u' -> capp u' v = capp u v.
Proof.
  intros [p|i x|i] [m|l] u'; unfold cnorm; intros H; try discriminate H.
  - destruct (fst (apply_change p m)) eqn:E; [discriminate H|]. injection H as <-. unfold capp. rewrite <- E, apply_change_idem. reflexivity.
  - destruct (Nat.leb i (length l) && is_proper x) eqn:E; [|discriminate H]. injection H as <-. reflexivity.
  - destruct (Nat.ltb i (length l)) eqn:E; [|discriminate H]. injection H as <-. reflexivity.
Qed.
