(* The instance of Comp/Core.v that is run against the gateway: flat models as key/value lists (Base/Value.v), change events
   as Pure/ModelDiff.v applies them (ResourceSubscription.handleEventChange); [kv_norm] is the effective part of a change. *)
From Coq Require Import List.
From RG Require Import Base.Value Pure.ModelDiff Comp.Conv Comp.Core.
Import ListNotations.

Definition kv_app (u v : kv) : kv := snd (apply_change u v).
Definition kv_norm (u v : kv) : option kv := match fst (apply_change u v) with [] => None | e => Some e end.
Definition kstep : Core.st kv kv -> Core.op kv -> Core.st kv kv * list (Core.out kv kv) := Core.step kv kv kv_app kv_norm.
Definition kinit (t : kv) : Core.st kv kv := Core.init kv kv [] t.
Definition ktruth (s : Core.st kv kv) : kv := Conv.truth kv kv (Core.cv kv kv s).
