(* Cache side of one resource: model of ResourceSubscription.handleEvent and its helpers
   (resourceSubscription.go:128-309), processResetGetResponse / processResetModel /
   processResetCollection (464-540) with the lcs model. One call of [handle] is the body of one
   cache task for this resource. Payload decoding is abstracted: an event arrives either decoded or
   as an undecodable payload (the *Bad constructors). *)
From Coq Require Import List Arith ZArith Bool Lia.
From RG Require Import Base.Value Pure.Lcs Pure.LcsTab Pure.ModelDiff.
Import ListNotations.

Inductive content := CModel (m : kv) | CColl (vs : list value).

Record rs := {
  cont : content;
  version : nat;          (* rs.version *)
  resetting : bool;       (* rs.resetting *)
  nsubs : nat;            (* len(rs.subs); 0 after a delete event *)
  count : Z;              (* e.count, the use count of the cache entry *)
  errs : nat              (* number of error log lines (observable through the logger) *)
}.

(* events as they arrive from the service (after DecodeEvent) *)
Inductive sev :=
| EChange (props : kv)            (* decodable change payload, {"values":{...}} or legacy form *)
| EChangeBad                      (* payload that DecodeChangeEvent rejects *)
| EAdd (idx : Z) (v : value)      (* decodable add; v may be improper (delete action) *)
| EAddBad
| ERemove (idx : Z)
| ERemoveBad
| EDelete
| ECustom (n : nat)
| EReaccess.

(* events handed to every subscriber (ResourceEvent with Version / Update set) *)
Inductive oev :=
| OChange (ver : nat) (changed : kv)
| OAdd (ver : nat) (idx : Z) (v : value)
| ORemove (ver : nat) (idx : Z) (v : value)
| ODelete (ver : nat)
| OCustom (ver : nat) (n : nat)
| OReaccess (ver : nat).

Definition set_cont (r : rs) (c : content) : rs :=
  {| cont := c; version := S (version r); resetting := resetting r; nsubs := nsubs r; count := count r; errs := errs r |}.
Definition log_err (r : rs) : rs :=
  {| cont := cont r; version := version r; resetting := resetting r; nsubs := nsubs r; count := count r; errs := S (errs r) |}.
Definition set_resetting (r : rs) (b : bool) : rs :=
  {| cont := cont r; version := version r; resetting := b; nsubs := nsubs r; count := count r; errs := errs r |}.

Fixpoint insert_nth {A} (n : nat) (x : A) (l : list A) : list A :=
  match n, l with
  | O, _ => x :: l
  | S n', y :: t => y :: insert_nth n' x t
  | S _, [] => [x]
  end.
Fixpoint remove_nth {A} (n : nat) (l : list A) : list A :=
  match n, l with
  | _, [] => []
  | O, _ :: t => t
  | S n', y :: t => y :: remove_nth n' t
  end.

(* fan-out happens only when there are subscribers; the list of outputs is what EACH subscriber gets *)
Definition emit (r : rs) (o : oev) : list oev := match nsubs r with O => [] | _ => [o] end.

(* handleEvent, for a loaded resource (state model/collection) *)
Definition handle_event (r : rs) (e : sev) : rs * list oev :=
  let ver := version r in
  match e with
  | EChange props =>
      match cont r with
      | CColl _ => if resetting r then (r, []) else (log_err r, [])
      | CModel m =>
          if resetting r then (r, []) else
          let '(eff, m') := apply_change props m in
          match eff with
          | [] => (r, [])
          | _ => (set_cont r (CModel m'), emit r (OChange ver eff))
          end
      end
  | EChangeBad =>
      if resetting r then (r, []) else (log_err r, [])     (* collection: kind error; model: decode error, then no changes *)
  | EAdd idx v =>
      if resetting r then (r, []) else
      match cont r with
      | CModel _ => (log_err r, [])
      | CColl vs =>
          if negb (is_proper v) then (log_err r, [])
          else if (idx <? 0)%Z || (Z.of_nat (length vs) <? idx)%Z then (log_err r, [])
          else (set_cont r (CColl (insert_nth (Z.to_nat idx) v vs)), emit r (OAdd ver idx v))
      end
  | EAddBad => if resetting r then (r, []) else (log_err r, [])
  | ERemove idx =>
      if resetting r then (r, []) else
      match cont r with
      | CModel _ => (log_err r, [])
      | CColl vs =>
          if (idx <? 0)%Z || (Z.of_nat (length vs) <=? idx)%Z then (log_err r, [])
          else match nth_error vs (Z.to_nat idx) with
               | Some v => (set_cont r (CColl (remove_nth (Z.to_nat idx) vs)), emit r (ORemove ver idx v))
               | None => (log_err r, [])
               end
      end
  | ERemoveBad => if resetting r then (r, []) else (log_err r, [])
  | EDelete =>
      if resetting r then (r, []) else
      (* handleEventDelete: all subscribers are released and the resource unregistered *)
      ({| cont := cont r; version := ver; resetting := false; nsubs := 0;
          count := (count r - Z.of_nat (nsubs r))%Z; errs := errs r |}, emit r (ODelete ver))
  | ECustom n => (r, emit r (OCustom ver n))
  | EReaccess => (r, emit r (OReaccess ver))
  end.

Fixpoint handle_events (r : rs) (es : list sev) : rs * list oev :=
  match es with
  | [] => (r, [])
  | e :: es' => let '(r1, o1) := handle_event r e in
                let '(r2, o2) := handle_events r1 es' in (r2, o1 ++ o2)
  end.

(* answers to a reset re-fetch *)
Inductive reset_answer :=
| RModel (m : kv) | RColl (vs : list value) | RNotFound | RError.   (* RError: any other error, timeout, undecodable *)

Definition lcs_sevs (a b : list value) : list sev :=
  map (fun e => match e with
                | Lcs.Remove i => ERemove i
                | Lcs.Add i v => EAdd i v
                end) (lcs_model veq a b).

(* the reset answer task: rs.resetting = false; processResetGetResponse *)
Definition reset_response (r : rs) (a : reset_answer) : rs * list oev :=
  let r := set_resetting r false in
  match a, cont r with
  | RNotFound, _ => handle_event r EDelete
  | RError, _ => (log_err r, [])
  | RModel new, CModel old =>
      match reset_props old new with
      | [] => (r, [])
      | props => handle_event r (EChange props)
      end
  | RColl new, CColl old => handle_events r (lcs_sevs old new)
  | RModel _, CColl _ => (log_err r, [])
  | RColl _, CModel _ => (log_err r, [])
  end.

Inductive op := OpEvent (e : sev) | OpResetStart | OpResetAnswer (a : reset_answer).

Definition step (r : rs) (o : op) : rs * list oev :=
  match o with
  | OpEvent e => handle_event r e
  | OpResetStart => (set_resetting r true, [])    (* handleResetResource; a second one while resetting is a no-op *)
  | OpResetAnswer a => reset_response r a
  end.

Fixpoint run (r : rs) (ops : list op) : rs * list (list oev) :=
  match ops with
  | [] => (r, [])
  | o :: ops' => let '(r1, out) := step r o in
                 let '(r2, outs) := run r1 ops' in (r2, out :: outs)
  end.

Definition init (c : content) : rs :=
  {| cont := c; version := 0; resetting := false; nsubs := 1; count := 1%Z; errs := 0 |}.
