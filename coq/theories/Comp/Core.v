(* Integrated model of the flat-resource fragment of the gateway: any number of connections, one cached resource; subscribe
   requests (any number per connection: direct subscriptions are counted) with their access and get requests, access answers
   that grant or deny, unsubscribe requests with a count, re-subscription after the subscription was given up, change and
   custom events, client disconnects at any moment, and both kinds of task queue (the resource's cache queue and every
   connection's queue, which carries requests, access answers, the Loaded/Event items of its subscriptions and the disposal
   task in arrival order).  One [op] is one stimulus of the harness (client frame, client disconnect, service answer, service
   event) or one scheduler grant; [step] returns what the gateway emits on it.  A connection's Subscription object for the
   resource is an *instance*: a fresh index of the subscriber table of Comp/Conv.v each time one is created
   (wsConn.subscribe after the previous one was disposed).  The cache/subscription core IS Comp/Conv.v: every op is executed
   as a short list of Conv actions ([acts_of]), so every reachable state of this machine is a reachable Conv state and
   Conv's invariant and theorems apply to it unchanged.
   Mirrors: rpc.HandleRequest (subscribe / unsubscribe with count), wsConn.SubscribeResource / subscribe / addCount /
   UnsubscribeResource / UnsubscribeByRID / removeCount / tryDelete (no references) / Access / Dispose / dispose,
   Subscription.CanGet / loadAccess (callbacks joined on one request; verdict cached) and Cache.sendRequest (the access answer
   passes through the resource's queue, then is handled on the connection queue), OnReady / readyCallbacks + GetRPCResources
   (empty for a resource already sent) + ReleaseRPCResources (respond, then drain the held events), Subscription.Dispose
   (pending callbacks are dropped), rescache.Subscribe / addSubscriber (first subscriber sends the get request),
   ResourceSubscription.Unsubscribe, EventSubscription.Enqueue / processQueue, wsConn.outputWorker / Enqueue (refused while
   disposing). *)
From Coq Require Import List Arith Lia Bool.
From RG Require Import Comp.Conv.
Import ListNotations.

Section Core.
Variables (val upd : Type) (app : upd -> val -> val) (norm : upd -> val -> option upd) (d : val).

Notation cst := (Conv.st val upd).
Notation cstep := (Conv.step val upd app norm).
Notation csubs := (Conv.subs val upd).
Notation sub := (Conv.sub val upd).

Inductive qitem := QReq (id : nat) | QUnsub (id cnt : nat) | QAccess (i : nat) | QSub (i : nat) | QDispose.

Record conn := { cqueue : list qitem;       (* wsConn.queue, oldest first *)
                 cur : option nat;          (* c.subs[rid]: the instance, if any *)
                 direct : nat;              (* its direct subscription count *)
                 disc : bool }.             (* the client closed the connection *)

Record inst := { owner : nat;               (* connection *)
                 acb : list nat;            (* accessCallbacks: ids of the requests waiting for the verdict *)
                 rcb : list nat;            (* readyCallbacks: ids of the requests waiting for the resource *)
                 acc : option bool;         (* Subscription.access: the verdict handled on the connection queue *)
                 ans : option bool;         (* the answer delivered by the messaging system *)
                 lost : list nat }.         (* ids of requests whose callbacks were dropped by Dispose *)

Record st := { cv : cst; conns : nat -> conn; insts : nat -> inst; next : nat; mqsub : bool; getreq : bool }.

Inductive ecode := EDenied | ENoSub | EInvalid.
Inductive out :=
| OMqSub | OAccessReq (c i : nat) | OGetReq
| OResp (c id : nat) (v : option val)   (* result; the resource set holds the resource, or is empty when the client has it *)
| OErr (c id : nat) (e : ecode)
| OAck (c id k : nat)                   (* unsubscribe of k direct subscriptions succeeded *)
| OEvent (c : nat) (u : upd) | OCustom (c : nat)
| OConnUnsub (c : nat).                 (* the connection's own subscription at the messaging system is given up *)

Inductive op :=
| CSub (c id : nat)            (* client frame: subscribe *)
| CUnsub (c id cnt : nat)      (* client frame: unsubscribe with count (0 stands for a count that is not positive) *)
| Disc (c : nat)               (* the client closes the connection *)
| MqAccess (i : nat) (g : bool)(* the service answers the access request made for instance i: get granted or not *)
| MqGet                        (* the service answers the get request with its current state *)
| MqEvent (u : upd) | MqCustom (* service events *)
| GrantEs                      (* cache worker runs the head of the resource's queue *)
| GrantConn (c : nat).         (* connection worker runs the head of connection c's queue *)

Definition unanswered (y : inst) : bool := match ans y with None => true | Some _ => false end.
Definition conn0 : conn := {| cqueue := []; cur := None; direct := 0; disc := false |}.
Definition inst0 : inst := {| owner := 0; acb := []; rcb := []; acc := None; ans := None; lost := [] |}.
Definition init (t : val) : st :=
  {| cv := Conv.init val upd d t; conns := fun _ => conn0; insts := fun _ => inst0; next := 0; mqsub := false; getreq := false |}.

Definition set_conn (f : nat -> conn) (c : nat) (x : conn) : nat -> conn := fun c' => if Nat.eqb c' c then x else f c'.
Definition set_inst (f : nat -> inst) (i : nat) (x : inst) : nat -> inst := fun i' => if Nat.eqb i' i then x else f i'.
Definition with_q (x : conn) (q : list qitem) : conn := {| cqueue := q; cur := cur x; direct := direct x; disc := disc x |}.
Definition push_q (x : conn) (i : qitem) : conn := with_q x (cqueue x ++ [i]).
Definition pop_q (x : conn) : conn := with_q x (tl (cqueue x)).
Definition with_cbs (y : inst) (a r : list nat) (ac : option bool) (l : list nat) : inst :=
  {| owner := owner y; acb := a; rcb := r; acc := ac; ans := ans y; lost := l |}.

(* Subscription.processEvent with what it sends *)
Definition proc_o (c : nat) (p : nat * val) (e : Conv.ev upd) : (nat * val) * list out :=
  let '(ver, v) := p in
  if Nat.eqb ver (Conv.e_ver upd e) then
    match Conv.e_upd upd e with
    | Some u => ((S ver, app u v), [OEvent c u])
    | None => ((ver, v), [OCustom c])
    end
  else ((ver, v), []).
Fixpoint replay_o (c : nat) (p : nat * val) (l : list (Conv.ev upd)) : list out :=
  match l with
  | [] => []
  | e :: l' => let '(p', o) := proc_o c p e in o ++ replay_o c p' l'
  end.

(* the responses of the subscribe requests [ids] once access is granted and the resource loaded: the first one carries the
   snapshot (unless the client has the resource already) and is followed by the events held since it was taken *)
Definition respond_ids (c : nat) (x : sub) (ids : list nat) : list out :=
  match ids with
  | [] => []
  | id :: r =>
      (if Conv.sent val upd x then [OResp c id None]
       else OResp c id (Some (Conv.sval val upd x)) :: replay_o c (Conv.sver val upd x, Conv.sval val upd x) (Conv.eq val upd x))
      ++ map (fun id' => OResp c id' None) r
  end.
(* the Conv action that goes with it *)
Definition respond_acts (i : nat) (x : sub) (ids : list nat) : list (Conv.action upd) :=
  match ids with
  | [] => []
  | _ => if Conv.sent val upd x then [] else [Conv.Respond upd i (length (Conv.eq val upd x))]
  end.
Definition is_live (σ : cst) (i : nat) : bool := Conv.loaded val upd (csubs σ i).
Definition is_closed (σ : cst) (i : nat) : bool := Conv.closed val upd (csubs σ i).
Definition is_gone (σ : cst) (i : nat) : bool := Conv.gone val upd (csubs σ i).

(* cache worker: every instance that got a new item gets one more task on its connection's queue (in instance order) *)
Definition grew (σ σ' : cst) (i : nat) : bool :=
  Nat.ltb (length (Conv.cq val upd (csubs σ i))) (length (Conv.cq val upd (csubs σ' i))).
Definition fan (σ σ' : cst) (own : nat -> nat) (n : nat) (f : nat -> conn) : nat -> conn :=
  fold_left (fun g i => if grew σ σ' i then set_conn g (own i) (push_q (g (own i)) (QSub i)) else g) (seq 0 n) f.

(* an access answer reaches the connection through the resource's queue (Cache.sendRequest); a closing connection refuses it *)
Definition nop_head (σ : cst) : option nat :=
  match Conv.qe val upd σ with Conv.INop _ _ i :: _ => Some i | _ => None end.
Definition pass (σ : cst) (own : nat -> nat) (f : nat -> conn) : nat -> conn :=
  match nop_head σ with
  | Some i => if is_closed σ i then f else set_conn f (own i) (push_q (f (own i)) (QAccess i))
  | None => f
  end.

Definition is_add_head (σ : cst) : bool :=
  match Conv.qe val upd σ with Conv.IAddSub _ _ _ :: _ => true | _ => false end.

Definition insts_of (s : st) (c : nat) : list nat := filter (fun i => Nat.eqb (owner (insts s i)) c) (seq 0 (next s)).

(* the Conv actions one op stands for *)
Definition acts_of (s : st) (o : op) : list (Conv.action upd) :=
  match o with
  | CSub _ _ | CUnsub _ _ _ | Disc _ => []
  | MqAccess i _ => if Nat.ltb i (next s) && unanswered (insts s i) then [Conv.SvcNop upd i] else []
  | MqGet => if getreq s && negb (Conv.answered val upd (cv s)) then [Conv.SvcAnswer upd] else []
  | MqEvent u => if mqsub s then [Conv.SvcUpdate upd u] else [Conv.SvcUpdate upd u; Conv.RunE upd]
  | MqCustom => if mqsub s then [Conv.SvcCustom upd] else [Conv.SvcCustom upd; Conv.RunE upd]
  | GrantEs => [Conv.RunE upd]
  | GrantConn c =>
      let x := conns s c in
      match cqueue x with
      | [] => []
      | QReq id :: _ =>
          match cur x with
          | None => [Conv.Subscribe upd (next s)]
          | Some i =>
              match acc (insts s i) with
              | Some true => if is_live (cv s) i then respond_acts i (csubs (cv s) i) [id] else []
              | _ => []
              end
          end
      | QUnsub _ cnt :: _ =>
          match cur x with
          | Some i => if Nat.leb 1 cnt && Nat.leb cnt (direct x) && Nat.eqb (direct x - cnt) 0 then [Conv.Dispose upd i false] else []
          | None => []
          end
      | QAccess i :: _ =>
          if is_gone (cv s) i then []
          else match ans (insts s i) with
               | Some true => if is_live (cv s) i then respond_acts i (csubs (cv s) i) (acb (insts s i)) else []
               | Some false => if Nat.eqb (direct x - length (acb (insts s i))) 0 then [Conv.Dispose upd i false] else []
               | None => []
               end
      | QSub i :: _ =>
          let σ1 := cstep (cv s) (Conv.RunC upd i) in
          let was_loading := negb (is_live (cv s) i) && is_live σ1 i in
          Conv.RunC upd i :: (if was_loading then respond_acts i (csubs σ1 i) (rcb (insts s i)) else [])
      | QDispose :: _ => map (fun i => Conv.Dispose upd i true) (insts_of s c)
      end
  end.

Definition step (s : st) (o : op) : st * list out :=
  let σ' := fold_left cstep (acts_of s o) (cv s) in
  let keep f := {| cv := σ'; conns := f; insts := insts s; next := next s; mqsub := mqsub s; getreq := getreq s |} in
  match o with
  | CSub c id =>
      let x := conns s c in
      if disc x then (s, []) else (keep (set_conn (conns s) c (push_q x (QReq id))), [])
  | CUnsub c id cnt =>
      let x := conns s c in
      if disc x then (s, []) else (keep (set_conn (conns s) c (push_q x (QUnsub id cnt))), [])
  | Disc c =>
      let x := conns s c in
      if disc x then (s, []) else
      (keep (set_conn (conns s) c {| cqueue := cqueue x ++ [QDispose]; cur := cur x; direct := direct x; disc := true |}), [])
  | MqAccess i g =>
      let y := insts s i in
      if Nat.ltb i (next s) && unanswered y then
        ({| cv := σ'; conns := conns s; next := next s; mqsub := mqsub s; getreq := getreq s;
            insts := set_inst (insts s) i {| owner := owner y; acb := acb y; rcb := rcb y; acc := acc y; ans := Some g; lost := lost y |} |}, [])
      else (s, [])
  | MqGet | MqEvent _ | MqCustom => (keep (conns s), [])
  | GrantEs =>
      let first_get := is_add_head (cv s) && negb (getreq s) in
      let own := fun i => owner (insts s i) in
      ({| cv := σ'; conns := pass (cv s) own (fan (cv s) σ' own (next s) (conns s)); insts := insts s; next := next s;
          mqsub := mqsub s; getreq := getreq s || is_add_head (cv s) |},
       if first_get then [OGetReq] else [])
  | GrantConn c =>
      let x := conns s c in
      match cqueue x with
      | [] => (s, [])
      | QReq id :: q =>
          match cur x with
          | None =>
              (* NewSubscription; cache.Subscribe; CanGet sends the access request *)
              let i := next s in
              ({| cv := σ'; mqsub := true; getreq := getreq s; next := S i;
                  conns := set_conn (conns s) c {| cqueue := q; cur := Some i; direct := 1; disc := disc x |};
                  insts := set_inst (insts s) i {| owner := c; acb := [id]; rcb := []; acc := None; ans := None; lost := [] |} |},
               (if mqsub s then [] else [OMqSub]) ++ [OAccessReq c i])
          | Some i =>
              let y := insts s i in
              let x' := {| cqueue := q; cur := cur x; direct := S (direct x); disc := disc x |} in
              match acc y with
              | Some true =>
                  if is_live (cv s) i then
                    ({| cv := σ'; conns := set_conn (conns s) c x'; insts := insts s; next := next s; mqsub := mqsub s; getreq := getreq s |},
                     respond_ids c (csubs (cv s) i) [id])
                  else
                    ({| cv := σ'; conns := set_conn (conns s) c x'; next := next s; mqsub := mqsub s; getreq := getreq s;
                        insts := set_inst (insts s) i (with_cbs y (acb y) (rcb y ++ [id]) (acc y) (lost y)) |}, [])
              | _ =>
                  ({| cv := σ'; conns := set_conn (conns s) c x'; next := next s; mqsub := mqsub s; getreq := getreq s;
                      insts := set_inst (insts s) i (with_cbs y (acb y ++ [id]) (rcb y) (acc y) (lost y)) |}, [])
              end
          end
      | QUnsub id cnt :: q =>
          match cur x with
          | Some i =>
              if Nat.eqb cnt 0 then (keep (set_conn (conns s) c (with_q x q)), [OErr c id EInvalid])
              else if Nat.leb cnt (direct x) then
                let y := insts s i in
                if Nat.eqb (direct x - cnt) 0 then
                  (* tryDelete: Dispose drops whatever still waits *)
                  ({| cv := σ'; next := next s; mqsub := mqsub s; getreq := getreq s;
                      conns := set_conn (conns s) c {| cqueue := q; cur := None; direct := 0; disc := disc x |};
                      insts := set_inst (insts s) i (with_cbs y [] [] (acc y) (lost y ++ acb y ++ rcb y)) |}, [OAck c id cnt])
                else
                  (keep (set_conn (conns s) c {| cqueue := q; cur := cur x; direct := direct x - cnt; disc := disc x |}), [OAck c id cnt])
              else (keep (set_conn (conns s) c (with_q x q)), [OErr c id ENoSub])
          | None =>
              (keep (set_conn (conns s) c (with_q x q)), [OErr c id (if Nat.eqb cnt 0 then EInvalid else ENoSub)])
          end
      | QAccess i :: q =>
          let y := insts s i in
          if is_gone (cv s) i then (keep (set_conn (conns s) c (with_q x q)), [])
          else match ans y with
               | Some true =>
                   if is_live (cv s) i then
                     ({| cv := σ'; conns := set_conn (conns s) c (with_q x q); next := next s; mqsub := mqsub s; getreq := getreq s;
                         insts := set_inst (insts s) i (with_cbs y [] (rcb y) (Some true) (lost y)) |},
                      respond_ids c (csubs (cv s) i) (acb y))
                   else
                     ({| cv := σ'; conns := set_conn (conns s) c (with_q x q); next := next s; mqsub := mqsub s; getreq := getreq s;
                         insts := set_inst (insts s) i (with_cbs y [] (rcb y ++ acb y) (Some true) (lost y)) |}, [])
               | Some false =>
                   let left := direct x - length (acb y) in
                   ({| cv := σ'; next := next s; mqsub := mqsub s; getreq := getreq s;
                       conns := set_conn (conns s) c {| cqueue := q; cur := if Nat.eqb left 0 then None else cur x; direct := left; disc := disc x |};
                       insts := set_inst (insts s) i (with_cbs y [] (if Nat.eqb left 0 then [] else rcb y) (Some false)
                                                               (if Nat.eqb left 0 then lost y ++ rcb y else lost y)) |},
                    map (fun id => OErr c id EDenied) (acb y))
               | None => (keep (set_conn (conns s) c (with_q x q)), [])
               end
      | QSub i :: q =>
          let σ1 := cstep (cv s) (Conv.RunC upd i) in
          let y := csubs (cv s) i in
          let ev_out :=
            match Conv.cq val upd y with
            | Conv.CEvent _ e :: _ =>
                if Conv.loaded val upd y && negb (Conv.flag val upd y)
                then snd (proc_o c (Conv.sver val upd y, Conv.sval val upd y) e) else []
            | _ => []
            end in
          let was_loading := negb (is_live (cv s) i) && is_live σ1 i in
          let z := insts s i in
          ({| cv := σ'; conns := set_conn (conns s) c (with_q x q); next := next s; mqsub := mqsub s; getreq := getreq s;
              insts := if was_loading then set_inst (insts s) i (with_cbs z (acb z) [] (acc z) (lost z)) else insts s |},
           ev_out ++ (if was_loading then respond_ids c (csubs σ1 i) (rcb z) else []))
      | QDispose :: q =>
          ({| cv := σ'; next := next s; mqsub := mqsub s; getreq := getreq s;
              conns := set_conn (conns s) c {| cqueue := q; cur := None; direct := 0; disc := disc x |};
              insts := match cur x with
                       | Some i => set_inst (insts s) i (with_cbs (insts s i) [] [] (acc (insts s i)) (lost (insts s i) ++ acb (insts s i) ++ rcb (insts s i)))
                       | None => insts s
                       end |},
           [OConnUnsub c])
      end
  end.

Fixpoint run (s : st) (ops : list op) : st * list (list out) :=
  match ops with
  | [] => (s, [])
  | o :: ops' => let '(s1, out1) := step s o in
                 let '(s2, outs) := run s1 ops' in (s2, out1 :: outs)
  end.

(* ---- history-indexed execution and the observations the theorems speak about ---- *)
Definition exec1 (p : st * list out) (o : op) : st * list out :=
  let '(s, outs) := p in let '(s', o') := step s o in (s', outs ++ o').
Definition exec (t : val) (ops : list op) : st * list out := fold_left exec1 ops (init t, []).

(* What client c holds, kept by the client from the frames sent to it alone: its number of direct subscriptions (one more with
   every successful subscribe response, k fewer with a successful unsubscribe of k) and its copy of the resource (the
   snapshot of a response that carried it, every change event applied, dropped when the count returns to zero). *)
Record ledger := { lcnt : nat; lcopy : option val }.
Definition lstep (c : nat) (p : ledger) (o : out) : ledger :=
  match o with
  | OResp c' _ v => if Nat.eqb c' c then {| lcnt := S (lcnt p); lcopy := match v with Some x => Some x | None => lcopy p end |} else p
  | OAck c' _ k => if Nat.eqb c' c then {| lcnt := lcnt p - k; lcopy := if Nat.eqb (lcnt p - k) 0 then None else lcopy p |} else p
  | OEvent c' u => if Nat.eqb c' c then {| lcnt := lcnt p; lcopy := option_map (app u) (lcopy p) |} else p
  | _ => p
  end.
Definition client (c : nat) (outs : list out) : ledger := fold_left (lstep c) outs {| lcnt := 0; lcopy := None |}.

(* the client is never acknowledged an unsubscribe of more direct subscriptions than it holds (it is, when an unsubscribe request
   meets subscribe requests that are still waiting: recorded finding KF-PENDING-DROPPED) *)
Definition no_underflow (c : nat) (outs : list out) : Prop :=
  forall pre id k post, outs = pre ++ OAck c id k :: post -> k <= lcnt (client c pre).

(* ids of the responses (results, acknowledgements and errors) sent to c *)
Definition resps (c : nat) (outs : list out) : list nat :=
  flat_map (fun o => match o with
                     | OResp c' id _ | OErr c' id _ | OAck c' id _ => if Nat.eqb c' c then [id] else []
                     | _ => [] end) outs.
(* ids of the requests c made *)
Definition reqs (c : nat) (ops : list op) : list nat :=
  flat_map (fun o => match o with
                     | CSub c' id | CUnsub c' id _ => if Nat.eqb c' c then [id] else []
                     | _ => [] end) ops.
(* ids of c's requests whose continuation was dropped with the subscription (Subscription.Dispose) *)
Definition dropped (s : st) (c : nat) : list nat := flat_map (fun i => lost (insts s i)) (insts_of s c).
(* the responses that carried the resource's data *)
Definition has_data (c : nat) (o : out) : bool := match o with OResp c' _ (Some _) => Nat.eqb c' c | _ => false end.
(* frames sent to c and requests made on its behalf *)
Definition for_conn (c : nat) (o : out) : bool :=
  match o with
  | OResp c' _ _ | OErr c' _ _ | OAck c' _ _ | OEvent c' _ | OCustom c' | OAccessReq c' _ => Nat.eqb c' c
  | _ => false
  end.
Definition count_out (f : out -> bool) (outs : list out) : nat := length (filter f outs).
Definition is_getreq (o : out) := match o with OGetReq => true | _ => false end.
Definition is_mqsub (o : out) := match o with OMqSub => true | _ => false end.
Definition pending (s : st) (c : nat) : nat :=
  match cur (conns s c) with Some i => length (acb (insts s i)) + length (rcb (insts s i)) | None => 0 end.

(* nothing left to do: both kinds of queue are empty and every request the gateway sent has been answered *)
Definition quiescent (s : st) : Prop :=
  Conv.qe val upd (cv s) = [] /\
  (forall c, cqueue (conns s c) = []) /\
  (getreq s = true -> Conv.answered val upd (cv s) = true) /\
  (forall i, i < next s -> unanswered (insts s i) = false).

End Core.
