(* Integrated model of the flat-resource fragment of the gateway: any number of connections, one cached resource,
   subscribe requests with their access and get requests, change and custom events, both task queues (the resource's
   cache queue and every connection's queue, which carries requests, access answers and the subscription's Loaded/Event
   items in arrival order).  One [op] is one stimulus of the harness (client frame, service answer, service event) or one
   scheduler grant; [step] returns what the gateway emits on it.  The cache/subscription core IS Comp/Conv.v: every op is
   executed as a short list of Conv actions ([acts_of]), so every reachable state of this machine is a reachable Conv state
   and Conv's invariant and convergence theorem apply to it unchanged.
   Mirrors: wsConn.SubscribeResource / Subscribe / Access, Subscription.CanGet/loadAccess and Cache.sendRequest (the access
   answer passes through the resource's queue, then is handled on the connection queue), OnReady + GetRPCResources + ReleaseRPCResources (respond, then drain the held events), rescache.Subscribe /
   addSubscriber (first subscriber sends the get request), EventSubscription.Enqueue / processQueue, wsConn.outputWorker. *)
From Coq Require Import List Arith Lia Bool.
From RG Require Import Comp.Conv.
Import ListNotations.

Section Core.
Variables (val upd : Type) (app : upd -> val -> val) (norm : upd -> val -> option upd) (d : val).

Notation cst := (Conv.st val upd).
Notation cstep := (Conv.step val upd app norm).
Notation csubs := (Conv.subs val upd).
Notation sub := (Conv.sub val upd).

Inductive qitem := QReq (id : nat) | QAccess | QSub.

Record conn := { cqueue : list qitem;       (* wsConn.queue, oldest first *)
                 reqid : option nat;        (* id of the subscribe request being served / served *)
                 asked : bool;              (* a subscribe frame was received *)
                 areq : bool;               (* access request sent *)
                 aans : bool;               (* access answer delivered by the messaging system *)
                 granted : bool }.          (* access answer handled on the connection queue (Subscription.access set) *)

Record st := { cv : cst; conns : nat -> conn; mqsub : bool; getreq : bool }.

Inductive out :=
| OMqSub | OAccessReq (c : nat) | OGetReq
| OResp (c id : nat) (v : val) | OEvent (c : nat) (u : upd) | OCustom (c : nat).

Inductive op :=
| CSub (c id : nat)            (* client frame: subscribe *)
| MqAccess (c : nat)           (* the service grants the access request of connection c *)
| MqGet                        (* the service answers the get request with its current state *)
| MqEvent (u : upd) | MqCustom (* service events *)
| GrantEs                      (* cache worker runs the head of the resource's queue *)
| GrantConn (c : nat).         (* connection worker runs the head of connection c's queue *)

Definition conn0 : conn := {| cqueue := []; reqid := None; asked := false; areq := false; aans := false; granted := false |}.
Definition init (t : val) : st := {| cv := Conv.init val upd d t; conns := fun _ => conn0; mqsub := false; getreq := false |}.

Definition set_conn (f : nat -> conn) (c : nat) (x : conn) : nat -> conn := fun c' => if Nat.eqb c' c then x else f c'.
Definition push_q (x : conn) (i : qitem) : conn :=
  {| cqueue := cqueue x ++ [i]; reqid := reqid x; asked := asked x; areq := areq x; aans := aans x; granted := granted x |}.
Definition pop_q (x : conn) : conn :=
  {| cqueue := tl (cqueue x); reqid := reqid x; asked := asked x; areq := areq x; aans := aans x; granted := granted x |}.

(* Subscription.processEvent with what it sends *)
Definition proc_o (c : nat) (p : nat * val) (e : Conv.ev upd) : (nat * val) * list out :=
  let '(ver, v) := p in
  if Nat.eqb ver (Conv.e_ver upd e) then
    match Conv.e_upd upd e with
    | Some u => ((S ver, app u v), [OEvent c u])
    | None => ((ver, v), [OCustom c])
    end
  else ((ver, v), []).
Fixpoint replay_o (c : nat) (p : nat * val) (l : list (Conv.ev upd)) : list out :=
  match l with
  | [] => []
  | e :: l' => let '(p', o) := proc_o c p e in o ++ replay_o c p' l'
  end.

(* the response of a subscribe request: the snapshot, then the events held since it was taken *)
Definition respond_out (c : nat) (x : sub) (id : nat) : list out :=
  OResp c id (Conv.sval val upd x) :: replay_o c (Conv.sver val upd x, Conv.sval val upd x) (Conv.eq val upd x).
Definition can_respond (x : sub) : bool := Conv.loaded val upd x && negb (Conv.sent val upd x).
Definition rid_of (x : conn) : nat := match reqid x with Some id => id | None => 0 end.

(* cache worker: whoever got a new item on its subscription gets one more task on its connection queue *)
Definition fan (σ σ' : cst) (f : nat -> conn) : nat -> conn :=
  fun c => if Nat.ltb (length (Conv.cq val upd (csubs σ c))) (length (Conv.cq val upd (csubs σ' c)))
           then push_q (f c) QSub else f c.

(* an access answer reaches the connection through the resource's queue (Cache.sendRequest) *)
Definition nop_head (σ : cst) : option nat :=
  match Conv.qe val upd σ with Conv.INop _ _ c :: _ => Some c | _ => None end.
Definition pass (σ : cst) (f : nat -> conn) : nat -> conn :=
  match nop_head σ with Some c => set_conn f c (push_q (f c) QAccess) | None => f end.

Definition is_add_head (σ : cst) : bool :=
  match Conv.qe val upd σ with Conv.IAddSub _ _ _ :: _ => true | _ => false end.

(* the Conv actions one op stands for *)
Definition acts_of (s : st) (o : op) : list (Conv.action upd) :=
  match o with
  | CSub _ _ => []
  | MqAccess c => if areq (conns s c) && negb (aans (conns s c)) then [Conv.SvcNop upd c] else []
  | MqGet => if getreq s && negb (Conv.answered val upd (cv s)) then [Conv.SvcAnswer upd] else []
  | MqEvent u => if mqsub s then [Conv.SvcUpdate upd u] else [Conv.SvcUpdate upd u; Conv.RunE upd]
  | MqCustom => if mqsub s then [Conv.SvcCustom upd] else [Conv.SvcCustom upd; Conv.RunE upd]
  | GrantEs => [Conv.RunE upd]
  | GrantConn c =>
      let x := conns s c in
      match cqueue x with
      | [] => []
      | QReq _ :: _ => if reqid x then [] else [Conv.Subscribe upd c]
      | QAccess :: _ =>
          if can_respond (csubs (cv s) c) then [Conv.Respond upd c (length (Conv.eq val upd (csubs (cv s) c)))] else []
      | QSub :: _ =>
          let σ1 := cstep (cv s) (Conv.RunC upd c) in
          if granted x && can_respond (csubs σ1 c)
          then [Conv.RunC upd c; Conv.Respond upd c (length (Conv.eq val upd (csubs σ1 c)))]
          else [Conv.RunC upd c]
      end
  end.

Definition step (s : st) (o : op) : st * list out :=
  let σ' := fold_left cstep (acts_of s o) (cv s) in
  match o with
  | CSub c id =>
      let x := conns s c in
      if asked x then (s, []) else
      ({| cv := σ'; mqsub := mqsub s; getreq := getreq s;
          conns := set_conn (conns s) c
                     {| cqueue := cqueue x ++ [QReq id]; reqid := reqid x; asked := true; areq := areq x; aans := aans x; granted := granted x |} |}, [])
  | MqAccess c =>
      let x := conns s c in
      if areq x && negb (aans x) then
        ({| cv := σ'; mqsub := mqsub s; getreq := getreq s;
            conns := set_conn (conns s) c
                       {| cqueue := cqueue x; reqid := reqid x; asked := asked x; areq := areq x; aans := true; granted := granted x |} |}, [])
      else (s, [])
  | MqGet | MqEvent _ | MqCustom =>
      ({| cv := σ'; conns := conns s; mqsub := mqsub s; getreq := getreq s |}, [])
  | GrantEs =>
      let first_get := is_add_head (cv s) && negb (getreq s) in
      ({| cv := σ'; conns := pass (cv s) (fan (cv s) σ' (conns s)); mqsub := mqsub s; getreq := getreq s || is_add_head (cv s) |},
       if first_get then [OGetReq] else [])
  | GrantConn c =>
      let x := conns s c in
      match cqueue x with
      | [] => (s, [])
      | QReq id :: _ =>
          if reqid x then ({| cv := σ'; conns := set_conn (conns s) c (pop_q x); mqsub := mqsub s; getreq := getreq s |}, []) else
          ({| cv := σ'; mqsub := true; getreq := getreq s;
              conns := set_conn (conns s) c
                         {| cqueue := tl (cqueue x); reqid := Some id; asked := asked x; areq := true; aans := aans x; granted := granted x |} |},
           (if mqsub s then [] else [OMqSub]) ++ [OAccessReq c])
      | QAccess :: _ =>
          ({| cv := σ'; mqsub := mqsub s; getreq := getreq s;
              conns := set_conn (conns s) c
                         {| cqueue := tl (cqueue x); reqid := reqid x; asked := asked x; areq := areq x; aans := aans x; granted := true |} |},
           if can_respond (csubs (cv s) c) then respond_out c (csubs (cv s) c) (rid_of x) else [])
      | QSub :: _ =>
          let σ1 := cstep (cv s) (Conv.RunC upd c) in
          let y := csubs (cv s) c in
          let ev_out :=
            match Conv.cq val upd y with
            | Conv.CEvent _ e :: _ =>
                if Conv.loaded val upd y && negb (Conv.flag val upd y)
                then snd (proc_o c (Conv.sver val upd y, Conv.sval val upd y) e) else []
            | _ => []
            end in
          ({| cv := σ'; conns := set_conn (conns s) c (pop_q x); mqsub := mqsub s; getreq := getreq s |},
           ev_out ++ (if granted x && can_respond (csubs σ1 c) then respond_out c (csubs σ1 c) (rid_of x) else []))
      end
  end.

Fixpoint run (s : st) (ops : list op) : st * list (list out) :=
  match ops with
  | [] => (s, [])
  | o :: ops' => let '(s1, out1) := step s o in
                 let '(s2, outs) := run s1 ops' in (s2, out1 :: outs)
  end.

(* ---- history-indexed execution and the observations the theorems speak about ---- *)
Definition exec1 (p : st * list out) (o : op) : st * list out :=
  let '(s, outs) := p in let '(s', o') := step s o in (s', outs ++ o').
Definition exec (t : val) (ops : list op) : st * list out := fold_left exec1 ops (init t, []).

(* what client c holds, rebuilt from the frames sent to it: the response's snapshot, then every change event applied *)
Definition vstep (c : nat) (cur : option val) (o : out) : option val :=
  match o with
  | OResp c' _ v => if Nat.eqb c' c then Some v else cur
  | OEvent c' u => if Nat.eqb c' c then option_map (app u) cur else cur
  | _ => cur
  end.
Definition view (c : nat) (outs : list out) : option val := fold_left (vstep c) outs None.
(* ids of the responses sent to c *)
Definition resps (c : nat) (outs : list out) : list nat :=
  flat_map (fun o => match o with OResp c' id _ => if Nat.eqb c' c then [id] else [] | _ => [] end) outs.
Definition count_out (f : out -> bool) (outs : list out) : nat := length (filter f outs).
Definition is_getreq (o : out) := match o with OGetReq => true | _ => false end.
Definition is_mqsub (o : out) := match o with OMqSub => true | _ => false end.
(* id of the first subscribe frame of c *)
Fixpoint first_req (c : nat) (ops : list op) : option nat :=
  match ops with
  | [] => None
  | CSub c' id :: r => if Nat.eqb c' c then Some id else first_req c r
  | _ :: r => first_req c r
  end.

(* nothing left to do: both kinds of queue are empty and every request the gateway sent has been answered *)
Definition quiescent (s : st) : Prop :=
  Conv.qe val upd (cv s) = [] /\
  (forall c, cqueue (conns s c) = []) /\
  (getreq s = true -> Conv.answered val upd (cv s) = true) /\
  (forall c, areq (conns s c) = true -> aans (conns s c) = true).

End Core.
