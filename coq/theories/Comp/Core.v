(* Integrated model of the flat-resource fragment of the gateway: any number of connections, one cached resource; subscribe
   requests (any number per connection: direct subscriptions are counted) with their access and get requests, access answers
   that grant or deny, unsubscribe requests with a count, re-subscription after the subscription was given up, change and
   custom events, token events of a connection and reaccess events of the resource with the re-validation of access they
   trigger (deferred while the subscription is loading, joined to a request already in flight, revocation by an unsubscribe
   event), client disconnects at any moment, and both kinds of task queue (the resource's cache queue and every connection's
   queue, which carries requests, token events, access answers, the Loaded/Event/reaccess items of its subscriptions and the
   disposal task in arrival order).  One [op] is one stimulus of the harness (client frame, client disconnect, service answer,
   service event) or one scheduler grant; [step] returns what the gateway emits on it.  A connection's Subscription object
   for the resource is an *instance*: a fresh index of the subscriber table of Comp/Conv.v each time one is created
   (wsConn.subscribe after the previous one was disposed).  The cache/subscription core IS Comp/Conv.v: a connection task is
   a sequence of Conv actions applied one after the other ([act]); what [step] does to the Conv state is exactly the list of
   actions it records ([acts_of]), so every reachable state of this machine is a reachable Conv state.
   Mirrors: rpc.HandleRequest (subscribe / unsubscribe with count), wsConn.SubscribeResource / subscribe / addCount /
   UnsubscribeResource / UnsubscribeByRID / removeCount / tryDelete (no references) / Access / setToken / Dispose / dispose,
   Subscription.CanGet / loadAccess (callbacks joined on one request; verdict cached) and Cache.sendRequest (the access answer
   passes through the resource's queue, then is handled on the connection queue), OnReady / readyCallbacks + GetRPCResources
   (empty for a resource already sent) + ReleaseRPCResources, queueEvents / unqueueEvents (both reasons), Reaccess / reaccess /
   handleReaccess / validateAccess / unsubscribeDirect, Subscription.Dispose (pending callbacks are dropped),
   rescache.Subscribe / addSubscriber, ResourceSubscription.Unsubscribe / handleEvent (reaccess passes before the resource is
   loaded), EventSubscription.Enqueue / processQueue, wsConn.outputWorker / Enqueue (refused while disposing). *)
From Coq Require Import List Arith Lia Bool.
From RG Require Import Comp.Conv.
Import ListNotations.

Section Core.
Variables (val upd : Type) (app : upd -> val -> val) (norm : upd -> val -> option upd) (d : val).

Notation cst := (Conv.st val upd).
Notation cstep := (Conv.step val upd app norm).
Notation csubs := (Conv.subs val upd).
Notation sub := (Conv.sub val upd).

Inductive qitem := QReq (id : nat) | QUnsub (id cnt : nat) | QToken (t : nat) | QAccess (i : nat) | QSub (i : nat) | QDispose.

Record conn := { cqueue : list qitem;       (* wsConn.queue, oldest first *)
                 cur : option nat;          (* c.subs[rid]: the instance, if any *)
                 direct : nat;              (* its direct subscription count *)
                 tokset : bool;             (* a token event has been handled (c.token != nil) *)
                 tok : nat;                 (* the token (0: none / null) *)
                 disc : bool }.             (* the client closed the connection *)

(* what waits for an access answer: a subscribe request, or the validation started by a re-access trigger *)
Inductive acbk := AReq (id : nat) | AVal.

Record inst := { owner : nat;               (* connection *)
                 acb : list acbk;           (* accessCallbacks *)
                 rcb : list nat;            (* readyCallbacks: ids of the requests waiting for the resource *)
                 acc : option bool;         (* Subscription.access: the cached verdict *)
                 inflight : bool;           (* flagAccessCalled: an access request is out *)
                 ans : option bool;         (* its answer, delivered by the messaging system and not yet handled *)
                 reflag : bool;             (* flagReaccess: a trigger arrived while events were being queued *)
                 rq : bool;                 (* queueReasonReaccess: events are held until the re-validation is answered *)
                 lost : list nat }.         (* ids of requests whose callbacks were dropped by Dispose *)

Record st := { cv : cst; conns : nat -> conn; insts : nat -> inst; next : nat; mqsub : bool; getreq : bool }.

Inductive ecode := EDenied | ENoSub | EInvalid.
Inductive out :=
| OMqSub | OAccessReq (c i t : nat) | OGetReq   (* access request of connection c for instance i carrying token t *)
| OResp (c id : nat) (v : option val)   (* result; the resource set holds the resource, or is empty when the client has it *)
| OErr (c id : nat) (e : ecode)
| OAck (c id k : nat)                   (* unsubscribe of k direct subscriptions succeeded *)
| OEvent (c : nat) (u : upd) | OCustom (c : nat)
| OUnsubEv (c : nat)                    (* unsubscribe event: access was revoked *)
| OConnUnsub (c : nat).                 (* the connection's own subscription at the messaging system is given up *)

Inductive op :=
| CSub (c id : nat)            (* client frame: subscribe *)
| CUnsub (c id cnt : nat)      (* client frame: unsubscribe with count (0 stands for a count that is not positive) *)
| Disc (c : nat)               (* the client closes the connection *)
| ConnToken (c t : nat)        (* the service sets connection c's token *)
| MqAccess (i : nat) (g : bool)(* the service answers the access request made for instance i: get granted or not *)
| MqGet                        (* the service answers the get request with its current state *)
| MqEvent (u : upd) | MqCustom (* service events *)
| MqReacc                      (* the service emits a reaccess event for the resource *)
| GrantEs                      (* cache worker runs the head of the resource's queue *)
| GrantConn (c : nat).         (* connection worker runs the head of connection c's queue *)

Definition conn0 : conn := {| cqueue := []; cur := None; direct := 0; tokset := false; tok := 0; disc := false |}.
Definition inst0 : inst := {| owner := 0; acb := []; rcb := []; acc := None; inflight := false; ans := None;
                              reflag := false; rq := false; lost := [] |}.
Definition init (t : val) : st :=
  {| cv := Conv.init val upd d t; conns := fun _ => conn0; insts := fun _ => inst0; next := 0; mqsub := false; getreq := false |}.

Definition set_conn (f : nat -> conn) (c : nat) (x : conn) : nat -> conn := fun c' => if Nat.eqb c' c then x else f c'.
Definition set_inst (f : nat -> inst) (i : nat) (x : inst) : nat -> inst := fun i' => if Nat.eqb i' i then x else f i'.
Definition with_q (x : conn) (q : list qitem) : conn :=
  {| cqueue := q; cur := cur x; direct := direct x; tokset := tokset x; tok := tok x; disc := disc x |}.
Definition push_q (x : conn) (i : qitem) : conn := with_q x (cqueue x ++ [i]).
Definition with_cd (x : conn) (cu : option nat) (n : nat) : conn :=
  {| cqueue := cqueue x; cur := cu; direct := n; tokset := tokset x; tok := tok x; disc := disc x |}.

(* Subscription.processEvent with what it sends *)
Definition proc_o (c : nat) (p : nat * val) (e : Conv.ev upd) : (nat * val) * list out :=
  let '(ver, v) := p in
  if Nat.eqb ver (Conv.e_ver upd e) then
    match Conv.e_upd upd e with
    | Some u => ((S ver, app u v), [OEvent c u])
    | None => ((ver, v), [OCustom c])
    end
  else ((ver, v), []).
Fixpoint replay_o (c : nat) (p : nat * val) (l : list (Conv.ev upd)) : list out :=
  match l with
  | [] => []
  | e :: l' => let '(p', o) := proc_o c p e in o ++ replay_o c p' l'
  end.
Definition drained (c : nat) (x : sub) : list out :=
  replay_o c (Conv.sver val upd x, Conv.sval val upd x) (Conv.eq val upd x).

(* ---- one connection task: the Conv state it works on, the Conv actions it has applied, its connection, the Subscription
        object (instance) it serves, and what it has sent so far ---- *)
Record tk := { ts : cst; ta : list (Conv.action upd); tx : conn; ty : inst; to : list out }.
Definition act (k : tk) (a : Conv.action upd) : tk :=
  {| ts := cstep (ts k) a; ta := ta k ++ [a]; tx := tx k; ty := ty k; to := to k |}.
Definition emit (k : tk) (o : list out) : tk := {| ts := ts k; ta := ta k; tx := tx k; ty := ty k; to := to k ++ o |}.
Definition setx (k : tk) (x : conn) : tk := {| ts := ts k; ta := ta k; tx := x; ty := ty k; to := to k |}.
Definition sety (k : tk) (y : inst) : tk := {| ts := ts k; ta := ta k; tx := tx k; ty := y; to := to k |}.
Definition upd_y (y : inst) (a : list acbk) (r : list nat) (ac : option bool) (fl : bool) (an : option bool) (rf rqq : bool) (l : list nat) : inst :=
  {| owner := owner y; acb := a; rcb := r; acc := ac; inflight := fl; ans := an; reflag := rf; rq := rqq; lost := l |}.

Section Task.
Variables (c i : nat).     (* the connection and the instance the task works on *)
Definition me (k : tk) : sub := csubs (ts k) i.
Definition gone_ (k : tk) : bool := Conv.gone val upd (me k).
Definition loaded_ (k : tk) : bool := Conv.loaded val upd (me k).
Definition sent_ (k : tk) : bool := Conv.sent val upd (me k).
Definition flag_ (k : tk) : bool := Conv.flag val upd (me k).
Definition ids_of (l : list acbk) : list nat := flat_map (fun b => match b with AReq id => [id] | AVal => [] end) l.

(* Subscription.Dispose (no references) + delete(c.subs, rid): the waiting continuations are dropped *)
Definition dispose_t (k : tk) : tk :=
  if gone_ k then k else
  let k := act k (Conv.Dispose upd i false) in
  let y := ty k in
  let k := sety k (upd_y y (acb y) [] (acc y) (inflight y) (ans y) (reflag y) (rq y) (lost y ++ rcb y)) in
  setx k (with_cd (tx k) None (direct (tx k))).
(* wsConn.removeCount (direct) with tryDelete *)
Definition remove_direct (k : tk) (n : nat) : tk :=
  if Nat.eqb (direct (tx k)) 0 then k else
  let k := setx k (with_cd (tx k) (cur (tx k)) (direct (tx k) - n)) in
  if Nat.eqb (direct (tx k)) 0 then dispose_t k else k.
(* Subscription.unsubscribeDirect *)
Definition unsubscribe_direct (k : tk) : tk :=
  if Nat.ltb 0 (direct (tx k)) then emit (remove_direct k (direct (tx k))) [OUnsubEv c] else k.
(* Subscription.loadAccess for a continuation that cannot run at once (no cached verdict) *)
Definition load_access (k : tk) (b : acbk) : tk :=
  let y := ty k in
  let k := sety k (upd_y y (acb y ++ [b]) (rcb y) (acc y) (inflight y) (ans y) (reflag y) (rq y) (lost y)) in
  if inflight y then k else
  let y := ty k in
  emit (sety k (upd_y y (acb y) (rcb y) (acc y) true (ans y) (reflag y) (rq y) (lost y))) [OAccessReq c i (tok (tx k))].
(* Subscription.handleReaccess *)
Definition handle_reaccess (k : tk) : tk :=
  let y := ty k in
  let k := sety k (upd_y y (acb y) (rcb y) (acc y) (inflight y) (ans y) false (rq y) (lost y)) in
  if Nat.eqb (direct (tx k)) 0 then k else
  let y := ty k in
  let k := sety k (upd_y y (acb y) (rcb y) None (inflight y) (ans y) (reflag y) true (lost y)) in
  load_access (act k (Conv.StartQueue upd i)) AVal.
(* Subscription.reaccess *)
Definition reaccess (k : tk) : tk :=
  if gone_ k then k
  else if flag_ k then
    let y := ty k in sety k (upd_y y (acb y) (rcb y) (acc y) (inflight y) (ans y) true (rq y) (lost y))
  else handle_reaccess k.
(* GetRPCResources + Reply + ReleaseRPCResources for the first of the waiting requests, empty results for the others *)
Definition respond (k : tk) (ids : list nat) : tk :=
  match ids with
  | [] => k
  | id :: r =>
      let k :=
        if sent_ k then emit k [OResp c id None]
        else
          let k := emit k [OResp c id (Some (Conv.sval val upd (me k)))] in
          if reflag (ty k) then
            (* unqueueEvents(loading) starts with the deferred re-access: the held events stay held *)
            handle_reaccess (act k (Conv.Respond upd i 0))
          else
            let ev := drained c (me k) in
            emit (act k (Conv.Respond upd i (length (Conv.eq val upd (me k))))) ev in
      emit k (map (fun id' => OResp c id' None) r)
  end.
(* Subscription.OnReady for request id *)
Definition on_ready (k : tk) (id : nat) : tk :=
  if loaded_ k then respond k [id]
  else let y := ty k in sety k (upd_y y (acb y) (rcb y ++ [id]) (acc y) (inflight y) (ans y) (reflag y) (rq y) (lost y)).
(* unqueueEvents(reaccess) after a validation *)
Definition unqueue_reaccess (k : tk) : tk :=
  let y := ty k in
  let k := sety k (upd_y y (acb y) (rcb y) (acc y) (inflight y) (ans y) (reflag y) false (lost y)) in
  if gone_ k then k
  else if reflag (ty k) then handle_reaccess k
  else
    let ev := drained c (me k) in
    emit (act k (Conv.Unqueue upd i (length (Conv.eq val upd (me k))))) ev.
(* one waiting continuation run on the verdict g *)
Definition run_cb (g : bool) (k : tk) (b : acbk) : tk :=
  match b with
  | AReq id =>
      if g then (if gone_ k then k else on_ready k id)
      else remove_direct (emit k [OErr c id EDenied]) 1
  | AVal =>
      unqueue_reaccess (if g then k else unsubscribe_direct k)
  end.
End Task.

Definition is_live (σ : cst) (i : nat) : bool := Conv.loaded val upd (csubs σ i).
Definition is_closed (σ : cst) (i : nat) : bool := Conv.closed val upd (csubs σ i).
Definition is_gone (σ : cst) (i : nat) : bool := Conv.gone val upd (csubs σ i).

(* cache worker: every instance that got a new item gets one more task on its connection's queue (in instance order) *)
Definition grew (σ σ' : cst) (i : nat) : bool :=
  Nat.ltb (length (Conv.cq val upd (csubs σ i))) (length (Conv.cq val upd (csubs σ' i))).
Definition fan (σ σ' : cst) (own : nat -> nat) (n : nat) (f : nat -> conn) : nat -> conn :=
  fold_left (fun g i => if grew σ σ' i then set_conn g (own i) (push_q (g (own i)) (QSub i)) else g) (seq 0 n) f.

(* an access answer reaches the connection through the resource's queue (Cache.sendRequest); a closing connection refuses it *)
Definition nop_head (σ : cst) : option nat :=
  match Conv.qe val upd σ with Conv.INop _ _ i :: _ => Some i | _ => None end.
Definition pass (σ : cst) (own : nat -> nat) (f : nat -> conn) : nat -> conn :=
  match nop_head σ with
  | Some i => if is_closed σ i then f else set_conn f (own i) (push_q (f (own i)) (QAccess i))
  | None => f
  end.

Definition is_add_head (σ : cst) : bool :=
  match Conv.qe val upd σ with Conv.IAddSub _ _ _ :: _ => true | _ => false end.

(* the disposal task of the connection has run: tasks are refused *)
Definition is_done (x : conn) : bool := disc x && negb (existsb (fun it => match it with QDispose => true | _ => false end) (cqueue x)).
Definition insts_of (s : st) (c : nat) : list nat := filter (fun i => Nat.eqb (owner (insts s i)) c) (seq 0 (next s)).
Definition unanswered (y : inst) : bool := inflight y && match ans y with None => true | Some _ => false end.

(* the task a grant of connection c runs: (final task state, the instance it served if any, new value of [next], mqsub) *)
Definition conn_task (s : st) (c : nat) : tk * option nat * nat * bool :=
  let x := conns s c in
  let k0 (x' : conn) (y : inst) := {| ts := cv s; ta := []; tx := x'; ty := y; to := [] |} in
  match cqueue x with
  | [] => (k0 x inst0, None, next s, mqsub s)
  | QReq id :: q =>
      let x := with_q x q in
      match cur x with
      | None =>
          (* NewSubscription; cache.Subscribe; CanGet sends the access request *)
          let i := next s in
          let y := {| owner := c; acb := []; rcb := []; acc := None; inflight := false; ans := None; reflag := false; rq := false; lost := [] |} in
          let k := act (k0 (with_cd x (Some i) 1) y) (Conv.Subscribe upd i) in
          let k := emit k (if mqsub s then [] else [OMqSub]) in
          (load_access c i k (AReq id), Some i, S i, true)
      | Some i =>
          let k := k0 (with_cd x (cur x) (S (direct x))) (insts s i) in
          let k := match acc (ty k) with
                   | Some true => on_ready c i k id
                   | Some false => remove_direct i (emit k [OErr c id EDenied]) 1
                   | None => load_access c i k (AReq id)
                   end in
          (k, Some i, next s, mqsub s)
      end
  | QUnsub id cnt :: q =>
      let x := with_q x q in
      match cur x with
      | Some i =>
          let k := k0 x (insts s i) in
          let k := if Nat.eqb cnt 0 then emit k [OErr c id EInvalid]
                   else if Nat.leb cnt (direct x) then
                     (* the continuations still waiting are dropped if the subscription is disposed *)
                     let k := emit k [OAck c id cnt] in
                     let k := if Nat.eqb (direct x - cnt) 0
                              then let y := ty k in sety k (upd_y y [] (rcb y) (acc y) (inflight y) (ans y) (reflag y) (rq y) (lost y ++ ids_of (acb y)))
                              else k in
                     remove_direct i k cnt
                   else emit k [OErr c id ENoSub] in
          (k, Some i, next s, mqsub s)
      | None => (emit (k0 x inst0) [OErr c id (if Nat.eqb cnt 0 then EInvalid else ENoSub)], None, next s, mqsub s)
      end
  | QToken t :: q =>
      let x := with_q x q in
      let x' := {| cqueue := cqueue x; cur := cur x; direct := direct x; tokset := true; tok := t; disc := disc x |} in
      match cur x with
      | Some i => (if tokset x then reaccess c i (k0 x' (insts s i)) else k0 x' (insts s i), Some i, next s, mqsub s)
      | None => (k0 x' inst0, None, next s, mqsub s)
      end
  | QAccess i :: q =>
      let x := with_q x q in
      let y := insts s i in
      let k := k0 x y in
      let k :=
        if is_gone (cv s) i then k
        else match ans y with
             | Some g =>
                 let k := sety k (upd_y y [] (rcb y) (Some g) false None (reflag y) (rq y) (lost y)) in
                 fold_left (run_cb c i g) (acb y) k
             | None => k
             end in
      (k, Some i, next s, mqsub s)
  | QSub i :: q =>
      let x := with_q x q in
      let y := csubs (cv s) i in
      let k := k0 x (insts s i) in
      let k :=
        match Conv.cq val upd y with
        | Conv.CEvent _ e :: _ =>
            let o := if Conv.loaded val upd y && negb (Conv.flag val upd y)
                     then snd (proc_o c (Conv.sver val upd y, Conv.sval val upd y) e) else [] in
            emit (act k (Conv.RunC upd i)) o
        | Conv.CLoaded _ :: _ =>
            let k := act k (Conv.RunC upd i) in
            if Conv.gone val upd y then k
            else let z := ty k in
                 respond c i (sety k (upd_y z (acb z) [] (acc z) (inflight z) (ans z) (reflag z) (rq z) (lost z))) (rcb z)
        | Conv.CReacc _ :: _ => reaccess c i (act k (Conv.RunC upd i))
        | [] => act k (Conv.RunC upd i)
        end in
      (k, Some i, next s, mqsub s)
  | QDispose :: q =>
      let x := with_q x q in
      let k := k0 (with_cd x None 0) (match cur x with Some i => insts s i | None => inst0 end) in
      let k := fold_left act (map (fun j => Conv.Dispose upd j true) (insts_of s c)) k in
      let y := ty k in
      let k := sety k (upd_y y [] [] (acc y) (inflight y) (ans y) (reflag y) (rq y) (lost y ++ ids_of (acb y) ++ rcb y)) in
      (emit k [OConnUnsub c], cur x, next s, mqsub s)
  end.

(* the Conv actions one op stands for *)
Definition acts_of (s : st) (o : op) : list (Conv.action upd) :=
  match o with
  | CSub _ _ | CUnsub _ _ _ | Disc _ | ConnToken _ _ => []
  | MqAccess i _ => if Nat.ltb i (next s) && unanswered (insts s i) then [Conv.SvcNop upd i] else []
  | MqGet => if getreq s && negb (Conv.answered val upd (cv s)) then [Conv.SvcAnswer upd] else []
  | MqEvent u => if mqsub s then [Conv.SvcUpdate upd u] else [Conv.SvcUpdate upd u; Conv.RunE upd]
  | MqCustom => if mqsub s then [Conv.SvcCustom upd] else [Conv.SvcCustom upd; Conv.RunE upd]
  | MqReacc => if mqsub s then [Conv.SvcReacc upd] else [Conv.SvcReacc upd; Conv.RunE upd]
  | GrantEs => [Conv.RunE upd]
  | GrantConn c => ta (fst (fst (fst (conn_task s c))))
  end.

Definition step (s : st) (o : op) : st * list out :=
  let σ' := fold_left cstep (acts_of s o) (cv s) in
  let keep f := {| cv := σ'; conns := f; insts := insts s; next := next s; mqsub := mqsub s; getreq := getreq s |} in
  match o with
  | CSub c id =>
      let x := conns s c in
      if disc x then (s, []) else (keep (set_conn (conns s) c (push_q x (QReq id))), [])
  | CUnsub c id cnt =>
      let x := conns s c in
      if disc x then (s, []) else (keep (set_conn (conns s) c (push_q x (QUnsub id cnt))), [])
  | ConnToken c t =>
      let x := conns s c in
      (* (the connection's subscription for its own events is given up by the disposal task, not by the client's leaving) *)
      if is_done x then (s, []) else (keep (set_conn (conns s) c (push_q x (QToken t))), [])
  | Disc c =>
      let x := conns s c in
      if disc x then (s, []) else
      (keep (set_conn (conns s) c {| cqueue := cqueue x ++ [QDispose]; cur := cur x; direct := direct x; tokset := tokset x; tok := tok x; disc := true |}), [])
  | MqAccess i g =>
      let y := insts s i in
      if Nat.ltb i (next s) && unanswered y then
        ({| cv := σ'; conns := conns s; next := next s; mqsub := mqsub s; getreq := getreq s;
            insts := set_inst (insts s) i (upd_y y (acb y) (rcb y) (acc y) (inflight y) (Some g) (reflag y) (rq y) (lost y)) |}, [])
      else (s, [])
  | MqGet | MqEvent _ | MqCustom | MqReacc => (keep (conns s), [])
  | GrantEs =>
      let first_get := is_add_head (cv s) && negb (getreq s) in
      let own := fun i => owner (insts s i) in
      ({| cv := σ'; conns := pass (cv s) own (fan (cv s) σ' own (next s) (conns s)); insts := insts s; next := next s;
          mqsub := mqsub s; getreq := getreq s || is_add_head (cv s) |},
       if first_get then [OGetReq] else [])
  | GrantConn c =>
      match cqueue (conns s c) with
      | [] => (s, [])
      | _ =>
          let '(k, oi, nx, ms) := conn_task s c in
          ({| cv := σ'; conns := set_conn (conns s) c (tx k);
              insts := match oi with Some i => set_inst (insts s) i (ty k) | None => insts s end;
              next := nx; mqsub := ms; getreq := getreq s |}, to k)
      end
  end.

Fixpoint run (s : st) (ops : list op) : st * list (list out) :=
  match ops with
  | [] => (s, [])
  | o :: ops' => let '(s1, out1) := step s o in
                 let '(s2, outs) := run s1 ops' in (s2, out1 :: outs)
  end.

(* ---- history-indexed execution and the observations the theorems speak about ---- *)
Definition exec1 (p : st * list out) (o : op) : st * list out :=
  let '(s, outs) := p in let '(s', o') := step s o in (s', outs ++ o').
Definition exec (t : val) (ops : list op) : st * list out := fold_left exec1 ops (init t, []).

(* What client c holds, kept by the client from the frames sent to it alone: its number of direct subscriptions (one more with
   every successful subscribe response, k fewer with a successful unsubscribe of k) and its copy of the resource (the
   snapshot of a response that carried it, every change event applied, dropped when the count returns to zero or an
   unsubscribe event revokes the subscriptions). *)
Record ledger := { lcnt : nat; lcopy : option val }.
Definition lstep (c : nat) (p : ledger) (o : out) : ledger :=
  match o with
  | OResp c' _ v => if Nat.eqb c' c then {| lcnt := S (lcnt p); lcopy := match v with Some x => Some x | None => lcopy p end |} else p
  | OAck c' _ k => if Nat.eqb c' c then {| lcnt := lcnt p - k; lcopy := if Nat.eqb (lcnt p - k) 0 then None else lcopy p |} else p
  | OEvent c' u => if Nat.eqb c' c then {| lcnt := lcnt p; lcopy := option_map (app u) (lcopy p) |} else p
  | OUnsubEv c' => if Nat.eqb c' c then {| lcnt := 0; lcopy := None |} else p
  | _ => p
  end.
Definition client (c : nat) (outs : list out) : ledger := fold_left (lstep c) outs {| lcnt := 0; lcopy := None |}.

(* the client is never acknowledged an unsubscribe of more direct subscriptions than it holds (it is, when an unsubscribe request
   meets subscribe requests that are still waiting: recorded finding KF-PENDING-DROPPED) *)
Definition no_underflow (c : nat) (outs : list out) : Prop :=
  forall pre id k post, outs = pre ++ OAck c id k :: post -> k <= lcnt (client c pre).

(* the client is never sent an empty resource set while it holds nothing (it is, when it gives up its last subscription while
   another subscribe request of its own waits for a re-validation: the gateway still counts that request, keeps the
   subscription, and later answers the request with an empty set) *)
Definition no_bare_resp (c : nat) (outs : list out) : Prop :=
  forall pre id post, outs = pre ++ OResp c id None :: post -> 0 < lcnt (client c pre).

(* ids of the responses (results, acknowledgements and errors) sent to c *)
Definition resps (c : nat) (outs : list out) : list nat :=
  flat_map (fun o => match o with
                     | OResp c' id _ | OErr c' id _ | OAck c' id _ => if Nat.eqb c' c then [id] else []
                     | _ => [] end) outs.
(* ids of the requests c made *)
Definition reqs (c : nat) (ops : list op) : list nat :=
  flat_map (fun o => match o with
                     | CSub c' id | CUnsub c' id _ => if Nat.eqb c' c then [id] else []
                     | _ => [] end) ops.
(* ids of c's requests whose continuation was dropped with the subscription (Subscription.Dispose) *)
Definition dropped (s : st) (c : nat) : list nat := flat_map (fun i => lost (insts s i)) (insts_of s c).
(* the responses that carried the resource's data *)
Definition has_data (c : nat) (o : out) : bool := match o with OResp c' _ (Some _) => Nat.eqb c' c | _ => false end.
(* frames sent to c and requests made on its behalf *)
Definition for_conn (c : nat) (o : out) : bool :=
  match o with
  | OResp c' _ _ | OErr c' _ _ | OAck c' _ _ | OEvent c' _ | OCustom c' | OUnsubEv c' | OAccessReq c' _ _ => Nat.eqb c' c
  | _ => false
  end.
Definition count_out (f : out -> bool) (outs : list out) : nat := length (filter f outs).
Definition is_getreq (o : out) := match o with OGetReq => true | _ => false end.
Definition is_mqsub (o : out) := match o with OMqSub => true | _ => false end.
Definition pending (s : st) (c : nat) : nat :=
  match cur (conns s c) with Some i => length (ids_of (acb (insts s i))) + length (rcb (insts s i)) | None => 0 end.

(* nothing left to do: both kinds of queue are empty and every request the gateway sent has been answered *)
Definition quiescent (s : st) : Prop :=
  Conv.qe val upd (cv s) = [] /\
  (forall c, cqueue (conns s c) = []) /\
  (getreq s = true -> Conv.answered val upd (cv s) = true) /\
  (forall i, i < next s -> inflight (insts s i) = false).

End Core.
