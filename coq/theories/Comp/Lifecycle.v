(* C20: the service life-cycle flags (service.go Start/start/Stop, wsConn.go newWSConn, wsHandler.go stopWSHandler,
   mqClient.go handleClosedMQ). Stop is not atomic: it sets [stopping], closes every client socket and waits for the
   connections to be disposed, stops the HTTP server and the messaging client, and only then reports on the stop channel. *)
From Coq Require Import List Arith Bool Lia.
Import ListNotations.

Record svc := {
  running : bool;          (* s.stop != nil: the stop channel exists *)
  stopping : bool;         (* s.stopping *)
  conns : nat;             (* len(s.conns) *)
  reported : list nat;     (* causes sent on the stop channel, oldest first *)
  cached : nat             (* entries of the resource cache (Cache.eventSubs) *)
}.
Definition init : svc := {| running := false; stopping := false; conns := 0; reported := []; cached := 0 |}.

Inductive op :=
| Start
| StopBegin (cause : nat)      (* Stop(err) / handleClosedMQ(err): the flag part *)
| StopClose                    (* stopWSHandler: every connection disconnected and disposed *)
| StopEnd (cause : nat)        (* the report on the stop channel *)
| NewConn                      (* newWSConn: WebSocket upgrade or temporary HTTP connection *)
| Load                         (* a resource is fetched into the cache on behalf of a connection *)
| ConnClose.

Inductive out := Ok | Refused | Ignored.

Definition step (s : svc) (o : op) : svc * out :=
  match o with
  | Start => if running s then (s, Ignored) else if stopping s then (s, Refused)
             else ({| running := true; stopping := false; conns := conns s; reported := reported s; cached := 0 |}, Ok)   (* Cache.Start: a new, empty map *)
  | StopBegin _ => if negb (running s) || stopping s then (s, Ignored)
                   else ({| running := true; stopping := true; conns := conns s; reported := reported s; cached := cached s |}, Ok)
  | StopClose => if stopping s then ({| running := running s; stopping := true; conns := 0; reported := reported s; cached := cached s |}, Ok) else (s, Ignored)
  | StopEnd c => if stopping s then ({| running := false; stopping := false; conns := conns s; reported := reported s ++ [c]; cached := cached s |}, Ok) else (s, Ignored)
  | NewConn => if running s && negb (stopping s)
               then ({| running := running s; stopping := stopping s; conns := S (conns s); reported := reported s; cached := cached s |}, Ok)
               else (s, Refused)          (* WebSocket: no upgrade; HTTP: 503 system.serviceUnavailable *)
  | Load => if running s && negb (stopping s) && negb (Nat.eqb (conns s) 0)
            then ({| running := running s; stopping := stopping s; conns := conns s; reported := reported s; cached := S (cached s) |}, Ok)
            else (s, Ignored)
  | ConnClose => ({| running := running s; stopping := stopping s; conns := conns s - 1; reported := reported s; cached := cached s |}, Ok)
  end.

Definition run (ops : list op) : svc := fold_left (fun s o => fst (step s o)) ops init.

(* a connection is accepted exactly while the service is started and not stopping *)
Theorem conn_only_while_serving : forall s, snd (step s NewConn) = Ok <-> (running s = true /\ stopping s = false).
Proof.
  intros s. unfold step. destruct (running s), (stopping s); cbn; split; intros H; try discriminate; try (destruct H; discriminate); auto.
Qed.

(* once Stop has begun, no connection is accepted until a later Start *)
Theorem refused_while_stopping : forall s, stopping s = true -> step s NewConn = (s, Refused).
Proof. intros s H. unfold step. rewrite H, andb_false_r. reflexivity. Qed.

(* invariant: not running implies not stopping; stopping implies running *)
Definition Inv (s : svc) : Prop := stopping s = true -> running s = true.
Lemma step_inv s o : Inv s -> Inv (fst (step s o)).
Proof.
  unfold Inv, step. destruct o; destruct (running s) eqn:R, (stopping s) eqn:T; cbn; intros H; try rewrite R; try rewrite T; auto; intros; try discriminate; auto;
    destruct (conns s =? 0); cbn in *; try rewrite R; try rewrite T; auto; discriminate.
Qed.
Theorem run_inv ops : Inv (run ops).
Proof.
  unfold run. assert (H : Inv init) by (intros H; discriminate). revert H. generalize init.
  induction ops as [|o ops IH]; intros s H; cbn; [exact H|]. apply IH, step_inv, H.
Qed.

(* a completed Stop leaves no connection behind, reports its cause once, and the service can be started again *)
Theorem stop_sequence : forall s c, running s = true -> stopping s = false ->
  let s1 := fst (step s (StopBegin c)) in
  let s2 := fst (step s1 StopClose) in
  let s3 := fst (step s2 (StopEnd c)) in
  conns s3 = 0 /\ reported s3 = reported s ++ [c] /\ running s3 = false /\ stopping s3 = false /\
  snd (step s3 NewConn) = Refused /\
  snd (step (fst (step s3 Start)) NewConn) = Ok.
Proof.
  intros s c R T. unfold step. rewrite R, T. cbn. repeat split; reflexivity.
Qed.

(* a restarted service never serves from what was cached before the stop: Start begins with an empty cache *)
Theorem start_empties_cache : forall s, snd (step s Start) = Ok -> cached (fst (step s Start)) = 0.
Proof. intros s. unfold step. destruct (running s), (stopping s); cbn; intros H; try discriminate; reflexivity. Qed.

(* Stop while stopping or while stopped does nothing: the cause is reported once per completed Stop *)
Theorem stop_idempotent : forall s c, (running s = false \/ stopping s = true) -> step s (StopBegin c) = (s, Ignored).
Proof. intros s c [H|H]; unfold step; rewrite H; cbn; [reflexivity|rewrite orb_true_r; reflexivity]. Qed.

Example ex_cycle : let s := run [Start; NewConn; Load; NewConn; Load; StopBegin 7; NewConn; Load; StopClose; StopEnd 7; NewConn; Start; NewConn] in
  (conns s, reported s, running s, stopping s, cached s) = (1, [7], true, false, 0).
Proof. reflexivity. Qed.
