(* Feasibility sketch for C13: model of EventSubscription.queue / locks / processQueue
   (server/rescache/eventSubscription.go:133-208) with the worker wake-up channel abstracted as a counter. *)
From Coq Require Import List Arith Lia Bool.
Import ListNotations.

Inductive task := Plain (n : nat) | QEvent (l : nat).      (* QEvent l: handleQueryEvent with l cached queries -> lockEvents(l) *)
Inductive ranitem := RanQ (t : task) | RanL (id : nat).

Record es := {
  queue : list task;
  locks : option (list nat * nat);   (* pending unlock callbacks, remaining capacity (= cap(e.locks)) *)
  wake : nat;                         (* entries for this resource in Cache.inCh *)
  ran : list ranitem;                 (* log of executed closures *)
  owed : nat;                         (* ghost: unlock calls the environment still owes (one per query request) *)
  enq : list task                     (* ghost: everything ever enqueued, in order *)
}.

Definition init : es := {| queue := []; locks := None; wake := 0; ran := []; owed := 0; enq := [] |}.

(* the second loop of processQueue: run items until one of them locks *)
Fixpoint run_queue (q : list task) (log : list ranitem) : list task * option (list nat * nat) * list ranitem * nat :=
  match q with
  | [] => ([], None, log, 0)
  | Plain n :: q' => run_queue q' (log ++ [RanQ (Plain n)])
  | QEvent l :: q' =>
      if l =? 0 then run_queue q' (log ++ [RanQ (QEvent l)])          (* no cached queries: returns at once *)
      else (q', Some ([], l), log ++ [RanQ (QEvent l)], l)            (* lockEvents(l); copy rest of queue; return *)
  end.

Definition work (e : es) : es :=
  match wake e with
  | 0 => e
  | S w =>
    match locks e with
    | Some (pend, cap) =>
        let log1 := ran e ++ map RanL pend in
        let cap' := cap - length pend in                               (* e.locks = e.locks[idx:] *)
        if 0 <? cap' then
          {| queue := queue e; locks := Some ([], cap'); wake := w; ran := log1; owed := owed e; enq := enq e |}
        else
          let '(q', lk, log2, o) := run_queue (queue e) log1 in
          {| queue := q'; locks := lk; wake := w; ran := log2; owed := o; enq := enq e |}
    | None =>
        let '(q', lk, log2, o) := run_queue (queue e) (ran e) in
        {| queue := q'; locks := lk; wake := w; ran := log2; owed := o; enq := enq e |}
    end
  end.

Inductive op := Enq (t : task) | Unl (id : nat) | Work.

Definition step (e : es) (o : op) : es :=
  match o with
  | Enq t =>
      let signal := match locks e, queue e with None, [] => 1 | _, _ => 0 end in
      {| queue := queue e ++ [t]; locks := locks e; wake := wake e + signal; ran := ran e; owed := owed e; enq := enq e ++ [t] |}
  | Unl id =>
      match locks e with
      | Some (pend, cap) =>
          let signal := match pend with [] => 1 | _ => 0 end in
          {| queue := queue e; locks := Some (pend ++ [id], cap); wake := wake e + signal; ran := ran e;
             owed := owed e - 1; enq := enq e |}
      | None => e                                                      (* excluded by the contract below *)
      end
  | Work => work e
  end.

(* contract: an unlock arrives only while one is owed (exactly one per query request, C18) *)
Definition allowed (e : es) (o : op) : Prop := match o with Unl _ => 0 < owed e | _ => True end.

Definition runnable (e : es) : Prop :=
  match locks e with
  | None => queue e <> []
  | Some (pend, _) => pend <> []
  end.

Definition qtasks (l : list ranitem) : list task := flat_map (fun r => match r with RanQ t => [t] | _ => [] end) l.

Record Inv (e : es) : Prop := {
  i_cap : match locks e with Some (pend, cap) => cap = owed e + length pend /\ 0 < cap | None => owed e = 0 end;
  i_wake : runnable e -> 0 < wake e;
  i_fifo : qtasks (ran e) ++ queue e = enq e
}.

Lemma qtasks_app a b : qtasks (a ++ b) = qtasks a ++ qtasks b.
Proof. unfold qtasks. apply flat_map_app. Qed.
Lemma qtasks_locks l : qtasks (map RanL l) = [].
Proof. induction l; cbn; auto. Qed.

Lemma run_queue_spec : forall q log q' lk log' o,
  run_queue q log = (q', lk, log', o) ->
  qtasks log' ++ q' = qtasks log ++ q /\
  (exists done, log' = log ++ map RanQ done) /\
  match lk with
  | None => q' = [] /\ o = 0
  | Some (pend, cap) => pend = [] /\ cap = o /\ 0 < o
  end.
Proof.
  induction q as [|t q IH]; intros log q' lk log' o H; cbn in H.
  - inversion H; subst. repeat split; auto. exists []. cbn. rewrite app_nil_r. reflexivity.
  - destruct t as [n|l].
    + apply IH in H as (H1 & (done & H2) & H3). split; [|split; [|exact H3]].
      * rewrite H1, qtasks_app. cbn. rewrite <- app_assoc. reflexivity.
      * exists (Plain n :: done). rewrite H2, <- app_assoc. reflexivity.
    + destruct (Nat.eqb_spec l 0) as [->|Hl].
      * apply IH in H as (H1 & (done & H2) & H3). split; [|split; [|exact H3]].
        -- rewrite H1, qtasks_app. cbn. rewrite <- app_assoc. reflexivity.
        -- exists (QEvent 0 :: done). rewrite H2, <- app_assoc. reflexivity.
      * inversion H; subst. split; [|split].
        -- rewrite qtasks_app. cbn. rewrite <- app_assoc. reflexivity.
        -- exists [QEvent o]. reflexivity.
        -- repeat split; auto. lia.
Qed.

Lemma init_inv : Inv init.
Proof. constructor; cbn; auto. intros H; congruence. Qed.

Lemma step_inv e o : Inv e -> allowed e o -> Inv (step e o).
Proof.
  intros [Hc Hw Hf] Ha. destruct o as [t|id|]; cbn [step].
  - (* Enqueue *)
    constructor; cbn -[qtasks].
    + exact Hc.
    + unfold runnable in *. cbn. destruct (locks e) as [[pend cap]|] eqn:El.
      * intros Hp. specialize (Hw Hp). lia.
      * intros _. destruct (queue e) eqn:Eq; [lia|]. assert (0 < wake e) by (apply Hw; discriminate). lia.
    + rewrite app_assoc, Hf. reflexivity.
  - (* enqueueUnlock *)
    cbn in Ha. destruct (locks e) as [[pend cap]|] eqn:El.
    + destruct Hc as [Hc1 Hc2]. constructor; cbn -[qtasks].
      * rewrite app_length. cbn. split; lia.
      * unfold runnable in *. cbn. rewrite El in Hw. intros _.
        destruct pend; [lia|]. assert (0 < wake e) by (apply Hw; discriminate). lia.
      * exact Hf.
    + exfalso; lia.
  - (* worker *)
    unfold work. destruct (wake e) as [|w] eqn:Ew.
    + constructor; [exact Hc|rewrite Ew; exact Hw|exact Hf] || (constructor; [exact Hc|exact Hw|exact Hf]).
    + destruct (locks e) as [[pend cap]|] eqn:El.
      * destruct Hc as [Hc1 Hc2].
        destruct (Nat.ltb_spec 0 (cap - length pend)) as [Hlt|Hge].
        -- constructor; cbn -[qtasks].
           ++ split; lia.
           ++ unfold runnable. cbn. intros H; congruence.
           ++ rewrite qtasks_app, qtasks_locks, app_nil_r. exact Hf.
        -- destruct (run_queue (queue e) (ran e ++ map RanL pend)) as [[[q' lk] log2] o] eqn:Er.
           apply run_queue_spec in Er as (H1 & _ & H3).
           constructor; cbn -[qtasks].
           ++ destruct lk as [[p c]|]; [destruct H3 as (-> & -> & Ho); cbn; split; lia|destruct H3; assumption].
           ++ unfold runnable. cbn. destruct lk as [[p c]|]; [destruct H3 as (-> & _); intros H; congruence|destruct H3 as [-> _]; intros H; congruence].
           ++ rewrite H1, qtasks_app, qtasks_locks, app_nil_r. exact Hf.
      * destruct (run_queue (queue e) (ran e)) as [[[q' lk] log2] o] eqn:Er.
        apply run_queue_spec in Er as (H1 & _ & H3).
        constructor; cbn -[qtasks].
        -- destruct lk as [[p c]|]; [destruct H3 as (-> & -> & Ho); cbn; split; lia|destruct H3; assumption].
        -- unfold runnable. cbn. destruct lk as [[p c]|]; [destruct H3 as (-> & _); intros H; congruence|destruct H3 as [-> _]; intros H; congruence].
        -- rewrite H1. exact Hf.
Qed.

Fixpoint wf (e : es) (ops : list op) : Prop :=
  match ops with [] => True | o :: ops' => allowed e o /\ wf (step e o) ops' end.
Definition run (ops : list op) : es := fold_left step ops init.

Theorem run_inv : forall ops, wf init ops -> Inv (run ops).
Proof.
  unfold run. generalize init_inv. generalize init. intros e0 Hi0 ops. revert e0 Hi0.
  induction ops as [|o ops IH]; intros e0 Hi Hwf; cbn; [exact Hi|].
  destruct Hwf as [Ha Hwf]. apply IH; [apply step_inv; assumption|exact Hwf].
Qed.

(* C13 (a): while query requests are unanswered, a worker run executes no queued event or response *)
Theorem lock_blocks_queue : forall e, Inv e -> forall pend cap,
  locks e = Some (pend, cap) -> 0 < owed e -> qtasks (ran (work e)) = qtasks (ran e) /\ queue (work e) = queue e.
Proof.
  intros e [Hc _ _] pend cap El Ho. unfold work. destruct (wake e); [auto|]. rewrite El in *.
  destruct Hc as [Hc1 _].
  destruct (Nat.ltb_spec 0 (cap - length pend)) as [Hlt|Hge]; [|lia].
  cbn. rewrite qtasks_app, qtasks_locks, app_nil_r. auto.
Qed.

(* C13 (b): processing always resumes — once every wake-up has been served and nothing is owed,
   the lock is gone and the queue is empty; everything enqueued has run, in order *)
Theorem always_resumes : forall ops, wf init ops ->
  let e := run ops in wake e = 0 -> owed e = 0 -> locks e = None /\ queue e = [] /\ qtasks (ran e) = enq e.
Proof.
  intros ops Hwf e Hw Ho. destruct (run_inv ops Hwf) as [Hc Hr Hf]. fold e in Hc, Hr, Hf.
  assert (Hnr : ~ runnable e) by (intros H; specialize (Hr H); lia).
  unfold runnable in Hnr. destruct (locks e) as [[pend cap]|] eqn:El.
  - destruct Hc as [Hc1 Hc2]. destruct pend; [cbn in *; lia|exfalso; apply Hnr; discriminate].
  - assert (Hq : queue e = []) by (destruct (queue e); [reflexivity|exfalso; apply Hnr; discriminate]).
    rewrite Hq, app_nil_r in Hf. auto.
Qed.
Print Assumptions lock_blocks_queue.
Print Assumptions always_resumes.

(* a query event with 2 cached queries: events behind it wait for both answers, then run in order *)
Example ex :
  let e := run [Enq (Plain 1); Enq (QEvent 2); Enq (Plain 3); Work; Enq (Plain 4); Unl 10; Work; Unl 11; Work] in
  (ran e, queue e, locks e, wake e) =
  ([RanQ (Plain 1); RanQ (QEvent 2); RanL 10; RanL 11; RanQ (Plain 3); RanQ (Plain 4)], [], None, 0).
Proof. reflexivity. Qed.
