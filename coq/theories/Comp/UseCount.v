(* Feasibility sketch for C09: use count, MQ subscription and eviction queue of one cache entry
   (rescache.go getSubscription/sendRequest/mqUnsubscribe, eventSubscription.go addCount/removeCount/addSubscriber,
   resourceSubscription.go Unsubscribe/handleEventDelete/processGetResponse). *)
From Coq Require Import List ZArith Lia Bool Arith.
Import ListNotations.
Open Scope Z_scope.

Record entry := {
  present : bool;          (* in Cache.eventSubs *)
  count : Z;               (* EventSubscription.count *)
  mqsub : bool;            (* EventSubscription.mqSub != nil *)
  inq : bool;              (* in Cache.unsubQueue *)
  subs : list nat;         (* ResourceSubscription.subs *)
  pend : list nat;         (* subscribers whose addSubscriber task has not run yet *)
  inflight : nat;          (* sendRequest calls whose answer task has not run yet *)
  requested : bool;        (* a get request was sent for the current incarnation *)
  crashed : bool;          (* timerqueue.Add on an element already queued *)
  get_without_sub : bool   (* ghost: a get request was sent while mqsub = false *)
}.

Definition empty : entry :=
  {| present := false; count := 0; mqsub := false; inq := false; subs := []; pend := []; inflight := 0;
     requested := false; crashed := false; get_without_sub := false |}.

Inductive op :=
| Subscribe (s : nat) (mq_ok : bool)   (* Cache.Subscribe: getSubscription(name,true) then enqueue addSubscriber *)
| Request                              (* Cache.sendRequest: getSubscription(name,false), answer pending *)
| AddSubTask (s : nat)                 (* the addSubscriber closure runs *)
| GetRespErr                           (* get answered with an error: all subscribers released *)
| DeleteEv                             (* delete event: all subscribers released *)
| Unsub (s : nat)                      (* ResourceSubscription.Unsubscribe closure runs *)
| ReqDone                              (* sendRequest answer closure runs *)
| TimerFire.                           (* timerqueue fires: Cache.mqUnsubscribe *)

(* getSubscription's counting part *)
Definition get_sub (e : entry) : entry :=
  if present e then
    {| present := true; count := count e + 1; mqsub := mqsub e;
       inq := if count e =? 0 then false else inq e;            (* addCount: Remove from unsubQueue when count == 0 *)
       subs := subs e; pend := pend e; inflight := inflight e; requested := requested e;
       crashed := crashed e; get_without_sub := get_without_sub e |}
  else
    {| present := true; count := 1; mqsub := false; inq := false; subs := []; pend := []; inflight := 0;
       requested := false; crashed := crashed e; get_without_sub := get_without_sub e |}.

(* removeCount *)
Definition remove_count (e : entry) (n : Z) : entry :=
  let c := count e - n in
  let add := (c =? 0) && negb (n =? 0) in
  {| present := present e; count := c; mqsub := mqsub e;
     inq := if add then true else inq e;
     subs := subs e; pend := pend e; inflight := inflight e; requested := requested e;
     crashed := crashed e || (add && inq e); get_without_sub := get_without_sub e |}.

Definition remove_nat (s : nat) (l : list nat) := filter (fun x => negb (Nat.eqb x s)) l.
Definition memb (s : nat) (l : list nat) := existsb (Nat.eqb s) l.

Definition set_lists (e : entry) (sb pd : list nat) (fl : nat) (rq gw : bool) : entry :=
  {| present := present e; count := count e; mqsub := mqsub e; inq := inq e; subs := sb; pend := pd;
     inflight := fl; requested := rq; crashed := crashed e; get_without_sub := gw |}.

Definition step (e : entry) (o : op) : entry :=
  match o with
  | Subscribe s mq_ok =>
      let e1 := get_sub e in
      if mqsub e1 then set_lists e1 (subs e1) (pend e1 ++ [s]) (inflight e1) (requested e1) (get_without_sub e1)
      else if mq_ok then
        let e2 := {| present := present e1; count := count e1; mqsub := true; inq := inq e1; subs := subs e1;
                     pend := pend e1; inflight := inflight e1; requested := requested e1; crashed := crashed e1;
                     get_without_sub := get_without_sub e1 |} in
        set_lists e2 (subs e2) (pend e2 ++ [s]) (inflight e2) (requested e2) (get_without_sub e2)
      else remove_count e1 1                              (* the event subscription failed: the count is released *)
  | Request => let e1 := get_sub e in set_lists e1 (subs e1) (pend e1) (S (inflight e1)) (requested e1) (get_without_sub e1)
  | AddSubTask s =>
      if memb s (pend e) then
        set_lists e (subs e ++ [s]) (remove_nat s (pend e)) (inflight e) true
                  (get_without_sub e || (negb (requested e) && negb (mqsub e)))
      else e
  | GetRespErr | DeleteEv =>
      let n := Z.of_nat (length (subs e)) in
      let e1 := remove_count e n in set_lists e1 [] (pend e1) (inflight e1) false (get_without_sub e1)
  | Unsub s =>
      (* releases only a registered subscriber (a delete event or failed get already released the others) *)
      if memb s (subs e) then
        let e1 := set_lists e (remove_nat s (subs e)) (pend e) (inflight e) (requested e) (get_without_sub e) in
        remove_count e1 1
      else e
  | ReqDone =>
      match inflight e with
      | O => e
      | S k => remove_count (set_lists e (subs e) (pend e) k (requested e) (get_without_sub e)) 1
      end
  | TimerFire =>
      if inq e then
        if 0 <? count e then
          {| present := present e; count := count e; mqsub := mqsub e; inq := false; subs := subs e; pend := pend e;
             inflight := inflight e; requested := requested e; crashed := crashed e; get_without_sub := get_without_sub e |}
        else {| present := false; count := 0; mqsub := false; inq := false; subs := []; pend := []; inflight := 0;
                requested := false; crashed := crashed e; get_without_sub := get_without_sub e |}
      else e
  end.

(* environment contract for the defect-free theorems: each subscriber id is used once.
   (Unsubscribing an unknown subscriber and an MQ refusing the event subscription are handled by the code.) *)
Definition allowed (e : entry) (o : op) : Prop :=
  match o with
  | Subscribe s ok => memb s (subs e) = false /\ memb s (pend e) = false
  | _ => True
  end.

Definition users (e : entry) : Z := Z.of_nat (length (subs e)) + Z.of_nat (length (pend e)) + Z.of_nat (inflight e).

Record Inv (e : entry) : Prop := {
  i_count : count e = users e;
  i_q1 : inq e = true -> present e = true /\ count e <= 0;
  i_q2 : present e = true -> count e <= 0 -> inq e = true;
  i_absent : present e = false -> users e = 0 /\ mqsub e = false;
  i_nodup : NoDup (subs e) /\ NoDup (pend e) /\ (forall x, In x (subs e) -> ~ In x (pend e));
  i_nocrash : crashed e = false;
  i_mq : (subs e <> [] \/ pend e <> []) -> mqsub e = true;
  i_get : get_without_sub e = false
}.

Lemma memb_in s l : memb s l = true <-> In s l.
Proof.
  unfold memb. rewrite existsb_exists. split.
  - intros (x & Hin & Hx). apply Nat.eqb_eq in Hx. subst. exact Hin.
  - intros H. exists s. split; [exact H|apply Nat.eqb_refl].
Qed.
Lemma memb_false s l : memb s l = false <-> ~ In s l.
Proof. rewrite <- memb_in. destruct (memb s l); split; intros; congruence. Qed.

Lemma remove_notin s l : ~ In s l -> remove_nat s l = l.
Proof.
  unfold remove_nat. induction l as [|x l IH]; intros H; cbn [filter]; [reflexivity|].
  destruct (Nat.eqb_spec x s) as [->|Hne]; cbn [negb].
  - exfalso. apply H. left; reflexivity.
  - rewrite IH; [reflexivity|]. intros Hin. apply H. right; exact Hin.
Qed.
Lemma remove_len s l : NoDup l -> In s l -> S (length (remove_nat s l)) = length l.
Proof.
  induction l as [|x l IH]; intros Hn Hin; [contradiction|].
  inversion Hn as [|? ? Hx Hn']; subst. unfold remove_nat. cbn [filter].
  destruct (Nat.eqb_spec x s) as [->|Hne]; cbn [negb length].
  - fold (remove_nat s l). rewrite remove_notin by exact Hx. reflexivity.
  - destruct Hin as [->|Hin]; [congruence|]. fold (remove_nat s l). rewrite IH; auto.
Qed.
Lemma remove_in s t l : In t (remove_nat s l) -> In t l /\ t <> s.
Proof.
  unfold remove_nat. rewrite filter_In. intros [H1 H2]. split; [exact H1|].
  apply negb_true_iff in H2. apply Nat.eqb_neq in H2. exact H2.
Qed.
Lemma remove_nodup s l : NoDup l -> NoDup (remove_nat s l).
Proof. intros H. apply NoDup_filter. exact H. Qed.

Lemma users_nonneg e : 0 <= users e. Proof. unfold users. lia. Qed.

Lemma nodup_snoc (l : list nat) s : NoDup l -> ~ In s l -> NoDup (l ++ [s]).
Proof.
  induction l as [|x l IH]; intros Hn Hs; cbn.
  - constructor; [intros []|constructor].
  - inversion Hn as [|? ? Hx Hn']; subst. constructor.
    + intros Hin. apply in_app_or in Hin as [Hin|[->|[]]]; [contradiction|]. apply Hs. left; reflexivity.
    + apply IH; [exact Hn'|]. intros Hin. apply Hs. right; exact Hin.
Qed.

Lemma absent_lists e : Inv e -> present e = false -> subs e = [] /\ pend e = [] /\ inflight e = 0%nat.
Proof.
  intros H Hp. destruct (i_absent e H Hp) as [Hu _]. unfold users in Hu.
  destruct (subs e), (pend e), (inflight e); cbn in *; try lia. auto.
Qed.

(* Cache.Subscribe with a working MQ, or on an entry whose MQ subscription is already established,
   always ends in the same shape *)
Lemma step_subscribe_gen e s ok : ok = true \/ mqsub (get_sub e) = true -> step e (Subscribe s ok) =
  let e1 := get_sub e in
  {| present := true; count := count e1; mqsub := true; inq := inq e1; subs := subs e1; pend := pend e1 ++ [s];
     inflight := inflight e1; requested := requested e1; crashed := crashed e1; get_without_sub := get_without_sub e1 |}.
Proof.
  intros H. cbn [step]. assert (Hp : present (get_sub e) = true) by (unfold get_sub; destruct (present e); reflexivity).
  destruct (mqsub (get_sub e)) eqn:Em.
  - unfold set_lists; cbn; rewrite ?Hp, ?Em; reflexivity.
  - destruct H as [->|H]; [|discriminate H]. unfold set_lists; cbn; rewrite ?Hp; reflexivity.
Qed.

Lemma step_subscribe e s : step e (Subscribe s true) =
  let e1 := get_sub e in
  {| present := true; count := count e1; mqsub := true; inq := inq e1; subs := subs e1; pend := pend e1 ++ [s];
     inflight := inflight e1; requested := requested e1; crashed := crashed e1; get_without_sub := get_without_sub e1 |}.
Proof. apply step_subscribe_gen. left; reflexivity. Qed.

Lemma step_inv e o : Inv e -> allowed e o -> Inv (step e o).
Proof.
  intros H Ha. pose proof (users_nonneg e) as Hu0.
  destruct H as [Hc Hq1 Hq2 Hab [Hn1 [Hn2 Hn3]] Hcr Hmq Hg].
  assert (Hinv : Inv e) by (constructor; auto).
  destruct o as [s ok| |s| | |s| |]; cbn [allowed] in Ha.
  - (* Subscribe *)
    destruct Ha as (Hs1 & Hs2). apply memb_false in Hs1. apply memb_false in Hs2.
    destruct (ok || mqsub (get_sub e)) eqn:Eok.
    2:{ (* the MQ refuses the event subscription: the count taken is released *)
      apply orb_false_iff in Eok as [-> Em]. cbn [step]. rewrite Em. clear s Hs1 Hs2.
      unfold get_sub in *. destruct (present e) eqn:Ep; cbn in Em; unfold remove_count; cbn.
      - (* pre-existing entry without MQ subscription: back to where it was *)
        constructor; cbn.
        + unfold users in *. cbn. lia.
        + destruct (Z.eqb_spec (count e + 1 - 1) 0) as [E0|E0]; cbn.
          * intros _. split; [reflexivity|lia].
          * destruct (Z.eqb_spec (count e) 0) as [E|E]; [lia|]. intros Hi. destruct (Hq1 Hi). split; [reflexivity|lia].
        + intros _ Hle. destruct (Z.eqb_spec (count e + 1 - 1) 0) as [E0|E0]; cbn; [reflexivity|]. lia.
        + intros Hx. discriminate Hx.
        + auto.
        + rewrite Hcr. cbn. destruct (Z.eqb_spec (count e + 1 - 1) 0) as [E0|E0]; cbn; [|reflexivity].
          destruct (Z.eqb_spec (count e) 0) as [E|E]; [reflexivity|lia].
        + exact Hmq.
        + exact Hg.
      - (* freshly created entry: count 1 then 0, queued for eviction *)
        constructor; cbn.
        + reflexivity.
        + intros _. split; [reflexivity|lia].
        + reflexivity.
        + intros Hx. discriminate Hx.
        + split; [constructor|]. split; [constructor|]. intros x [].
        + rewrite Hcr. reflexivity.
        + intros [Hx|Hx]; congruence.
        + exact Hg. }
    apply orb_true_iff in Eok. rewrite (step_subscribe_gen e s ok Eok). clear Eok.
    cbn zeta. unfold get_sub. destruct (present e) eqn:Ep; cbn.
    + constructor; cbn.
      * unfold users in *. cbn. rewrite app_length. cbn. lia.
      * destruct (Z.eqb_spec (count e) 0) as [E|E]; [discriminate|]. intros Hi. destruct (Hq1 Hi). lia.
      * intros _ Hle. lia.
      * discriminate.
      * split; [exact Hn1|]. split; [apply nodup_snoc; assumption|].
        intros x Hx Hin. apply in_app_or in Hin as [Hin|[->|[]]]; [apply (Hn3 x Hx Hin)|contradiction].
      * exact Hcr.
      * reflexivity.
      * exact Hg.
    + destruct (absent_lists e Hinv Ep) as (Es & Epd & Ei). rewrite Es, Epd in *.
      constructor; cbn.
      * unfold users. cbn. lia.
      * discriminate.
      * intros _ Hle. lia.
      * discriminate.
      * split; [constructor|]. split; [constructor; [intros []|constructor]|]. intros x [].
      * exact Hcr.
      * reflexivity.
      * exact Hg.
  - (* Request *)
    cbn [step]. unfold get_sub, set_lists. destruct (present e) eqn:Ep; cbn.
    + constructor; cbn.
      * unfold users in *. cbn. lia.
      * destruct (Z.eqb_spec (count e) 0) as [E|E]; [discriminate|]. intros Hi. destruct (Hq1 Hi). lia.
      * intros _ Hle. lia.
      * discriminate.
      * auto.
      * exact Hcr.
      * exact Hmq.
      * exact Hg.
    + destruct (absent_lists e Hinv Ep) as (Es & Epd & Ei).
      constructor; cbn.
      * unfold users. cbn. lia.
      * discriminate.
      * intros _ Hle. lia.
      * discriminate.
      * split; [constructor|]. split; [constructor|]. intros x [].
      * exact Hcr.
      * intros [Hx|Hx]; congruence.
      * exact Hg.
  - (* addSubscriber task *)
    cbn [step]. destruct (memb s (pend e)) eqn:Em; [|exact Hinv].
    apply memb_in in Em. unfold set_lists.
    assert (Hms : mqsub e = true) by (apply Hmq; right; intros E; rewrite E in Em; contradiction).
    constructor; cbn.
    + unfold users in *. cbn. rewrite app_length. cbn. pose proof (remove_len s (pend e) Hn2 Em). lia.
    + exact Hq1.
    + exact Hq2.
    + intros Hp. destruct (absent_lists e Hinv Hp) as (_ & Epd & _). rewrite Epd in Em. contradiction.
    + split; [apply nodup_snoc; [exact Hn1|]|split; [apply remove_nodup; exact Hn2|]].
      * intros Hin. apply (Hn3 s Hin Em).
      * intros x Hx Hin. apply remove_in in Hin as [Hin Hne].
        apply in_app_or in Hx as [Hx|[->|[]]]; [apply (Hn3 x Hx Hin)|congruence].
    + exact Hcr.
    + intros _. exact Hms.
    + rewrite Hg, Hms. destruct (requested e); reflexivity.
  - (* get error *)
    cbn [step]. unfold remove_count, set_lists. cbn.
    set (n := Z.of_nat (length (subs e))).
    constructor; cbn.
    + unfold users in *. cbn. lia.
    + destruct ((count e - n =? 0) && negb (n =? 0)) eqn:Eadd.
      * apply andb_prop in Eadd as [E1 E2]. apply Z.eqb_eq in E1. apply negb_true_iff in E2. apply Z.eqb_neq in E2.
        intros _. split; [|lia].
        destruct (present e) eqn:Ep; [reflexivity|]. destruct (absent_lists e Hinv Ep) as (Es & _). unfold n in *. rewrite Es in *. cbn in *. lia.
      * intros Hi. destruct (Hq1 Hi). split; [assumption|]. unfold users in *. lia.
    + intros Hp Hle. destruct ((count e - n =? 0) && negb (n =? 0)) eqn:Eadd; [reflexivity|].
      apply Hq2; [exact Hp|]. apply andb_false_iff in Eadd as [E|E].
      * apply Z.eqb_neq in E. unfold users in *. lia.
      * apply negb_false_iff in E. apply Z.eqb_eq in E. lia.
    + intros Hp. destruct (Hab Hp) as [Hu Hm]. split; [|exact Hm]. unfold users in *. cbn. lia.
    + split; [constructor|]. split; [exact Hn2|]. intros x [].
    + rewrite Hcr. cbn. destruct ((count e - n =? 0) && negb (n =? 0)) eqn:Eadd; [|reflexivity].
      apply andb_prop in Eadd as [E1 E2]. apply Z.eqb_eq in E1. apply negb_true_iff in E2. apply Z.eqb_neq in E2.
      destruct (inq e) eqn:Ei; [|reflexivity]. destruct (Hq1 eq_refl). unfold n in *. lia.
    + intros [Hx|Hx]; [congruence|]. apply Hmq. right; exact Hx.
    + exact Hg.
  - (* delete event: same counting *)
    cbn [step]. unfold remove_count, set_lists. cbn.
    set (n := Z.of_nat (length (subs e))).
    constructor; cbn.
    + unfold users in *. cbn. lia.
    + destruct ((count e - n =? 0) && negb (n =? 0)) eqn:Eadd.
      * apply andb_prop in Eadd as [E1 E2]. apply Z.eqb_eq in E1. apply negb_true_iff in E2. apply Z.eqb_neq in E2.
        intros _. split; [|lia].
        destruct (present e) eqn:Ep; [reflexivity|]. destruct (absent_lists e Hinv Ep) as (Es & _). unfold n in *. rewrite Es in *. cbn in *. lia.
      * intros Hi. destruct (Hq1 Hi). split; [assumption|]. unfold users in *. lia.
    + intros Hp Hle. destruct ((count e - n =? 0) && negb (n =? 0)) eqn:Eadd; [reflexivity|].
      apply Hq2; [exact Hp|]. apply andb_false_iff in Eadd as [E|E].
      * apply Z.eqb_neq in E. unfold users in *. lia.
      * apply negb_false_iff in E. apply Z.eqb_eq in E. lia.
    + intros Hp. destruct (Hab Hp) as [Hu Hm]. split; [|exact Hm]. unfold users in *. cbn. lia.
    + split; [constructor|]. split; [exact Hn2|]. intros x [].
    + rewrite Hcr. cbn. destruct ((count e - n =? 0) && negb (n =? 0)) eqn:Eadd; [|reflexivity].
      apply andb_prop in Eadd as [E1 E2]. apply Z.eqb_eq in E1. apply negb_true_iff in E2. apply Z.eqb_neq in E2.
      destruct (inq e) eqn:Ei; [|reflexivity]. destruct (Hq1 eq_refl). unfold n in *. lia.
    + intros [Hx|Hx]; [congruence|]. apply Hmq. right; exact Hx.
    + exact Hg.
  - (* Unsubscribe: a no-op unless the subscriber is registered *)
    clear Ha. cbn [step]. destruct (memb s (subs e)) eqn:Ha; [|exact Hinv].
    apply memb_in in Ha. unfold remove_count, set_lists. cbn.
    pose proof (remove_len s (subs e) Hn1 Ha) as Hlen.
    assert (Hpr : present e = true).
    { destruct (present e) eqn:Ep; [reflexivity|]. destruct (absent_lists e Hinv Ep) as (Es & _). rewrite Es in Ha. contradiction. }
    assert (Hpos : 1 <= count e) by (unfold users in *; lia).
    constructor; cbn.
    + unfold users in *. cbn. lia.
    + destruct (count e - 1 =? 0) eqn:E0; cbn.
      * apply Z.eqb_eq in E0. intros _. split; [exact Hpr|lia].
      * intros Hi. destruct (Hq1 Hi). lia.
    + intros _ Hle. destruct (Z.eqb_spec (count e - 1) 0) as [E0|E0]; [reflexivity|]. cbn. lia.
    + rewrite Hpr. discriminate.
    + split; [apply remove_nodup; exact Hn1|]. split; [exact Hn2|].
      intros x Hx. apply remove_in in Hx as [Hx _]. apply Hn3. exact Hx.
    + rewrite Hcr. cbn. destruct (count e - 1 =? 0) eqn:E0; cbn; [|reflexivity].
      destruct (inq e) eqn:Ei; [|reflexivity]. destruct (Hq1 eq_refl). lia.
    + intros _. apply Hmq. left. intros E. rewrite E in Ha. contradiction.
    + exact Hg.
  - (* request answered *)
    cbn [step]. destruct (inflight e) as [|k] eqn:Ek; [exact Hinv|].
    unfold remove_count, set_lists. cbn.
    assert (Hpr : present e = true).
    { destruct (present e) eqn:Ep; [reflexivity|]. destruct (absent_lists e Hinv Ep) as (_ & _ & Ei). congruence. }
    assert (Hpos : 1 <= count e) by (unfold users in *; rewrite Ek in *; lia).
    constructor; cbn.
    + unfold users in *. cbn. rewrite Ek in *. lia.
    + destruct (count e - 1 =? 0) eqn:E0; cbn.
      * apply Z.eqb_eq in E0. intros _. split; [exact Hpr|lia].
      * intros Hi. destruct (Hq1 Hi). lia.
    + intros _ Hle. destruct (Z.eqb_spec (count e - 1) 0) as [E0|E0]; [reflexivity|]. cbn. lia.
    + rewrite Hpr. discriminate.
    + auto.
    + rewrite Hcr. cbn. destruct (count e - 1 =? 0) eqn:E0; cbn; [|reflexivity].
      destruct (inq e) eqn:Ei; [|reflexivity]. destruct (Hq1 eq_refl). lia.
    + exact Hmq.
    + exact Hg.
  - (* eviction timer *)
    cbn [step]. destruct (inq e) eqn:Ei; [|exact Hinv].
    destruct (Hq1 eq_refl) as [Hpr Hle].
    destruct (Z.ltb_spec 0 (count e)) as [Hlt|Hge]; [lia|].
    constructor; cbn.
    + unfold users. cbn. reflexivity.
    + discriminate.
    + discriminate.
    + intros _. split; reflexivity.
    + split; [constructor|]. split; [constructor|]. intros x [].
    + exact Hcr.
    + intros [Hx|Hx]; congruence.
    + exact Hg.
Qed.

Fixpoint wf (e : entry) (ops : list op) : Prop :=
  match ops with [] => True | o :: ops' => allowed e o /\ wf (step e o) ops' end.
Definition run (ops : list op) : entry := fold_left step ops empty.

Lemma empty_inv : Inv empty.
Proof.
  constructor; cbn.
  - reflexivity.
  - discriminate.
  - discriminate.
  - intros _. split; reflexivity.
  - split; [constructor|]. split; [constructor|]. intros x [].
  - reflexivity.
  - intros [H|H]; congruence.
  - reflexivity.
Qed.

Theorem run_inv : forall ops, wf empty ops -> Inv (run ops).
Proof.
  unfold run. generalize empty_inv. generalize empty. intros e0 Hi0 ops. revert e0 Hi0.
  induction ops as [|o ops IH]; intros e0 Hi Hwf; cbn; [exact Hi|].
  destruct Hwf as [Ha Hwf]. apply IH; [apply step_inv; assumption|exact Hwf].
Qed.

(* C09: under the contract, in every reachable state
   - the count is exactly the number of users, the timer queue never panics,
   - a get is only ever requested under an established MQ subscription,
   - an entry with users is never in line for eviction, an entry without users always is,
   - firing the timer on an unused entry removes it (gauges back to zero). *)
Theorem cache_lifecycle : forall ops, wf empty ops ->
  let e := run ops in
  count e = users e /\ crashed e = false /\ get_without_sub e = false /\
  (0 < users e -> inq e = false /\ present e = true) /\
  (present e = true -> users e = 0 -> inq e = true /\ present (step e TimerFire) = false).
Proof.
  intros ops Hwf e. destruct (run_inv ops Hwf) as [Hc Hq1 Hq2 Hab Hn Hcr Hmq Hg]. fold e in Hc, Hq1, Hq2, Hab, Hn, Hcr, Hmq, Hg.
  repeat split; auto.
  - destruct (inq e) eqn:Ei; [|reflexivity]. destruct (Hq1 eq_refl). lia.
  - destruct (present e) eqn:Ep; [reflexivity|]. destruct (Hab eq_refl). lia.
  - apply Hq2; [assumption|lia].
  - cbn [step]. rewrite (Hq2 H) by lia. destruct (Z.ltb_spec 0 (count e)); [lia|reflexivity].
Qed.
Print Assumptions cache_lifecycle.

(* non-vacuity: two subscribers, a request in flight, everything released, eviction *)
Example ok_run :
  let e := run [Subscribe 1 true; AddSubTask 1; Request; Subscribe 2 true; AddSubTask 2; ReqDone; Unsub 1; Unsub 2; TimerFire] in
  (present e, count e, crashed e) = (false, 0, false).
Proof. reflexivity. Qed.

(* P4 repaired: the delete event released subscriber 1, its late Unsubscribe is a no-op;
   the new subscriber holds a count of 1 and the entry is not queued for eviction *)
Example fixed_P4 :
  let e := run [Subscribe 1 true; AddSubTask 1; DeleteEv; Unsub 1; Subscribe 2 true; AddSubTask 2] in
  (count e, subs e, inq e) = (1, [2%nat], false).
Proof. reflexivity. Qed.

(* P27 repaired: the MQ refuses the event subscription (subject too long): the count is released,
   the fresh entry is queued for eviction and the timer removes it *)
Example fixed_P27 :
  let e := run [Subscribe 1 false] in
  (present e, count e, users e, inq e) = (true, 0, 0, true) /\ present (step e TimerFire) = false.
Proof. split; reflexivity. Qed.

(* Unsubscribing somebody who is not registered changes nothing (no invariant needed) *)
Theorem unsub_nonmember_noop : forall e s, memb s (subs e) = false -> step e (Unsub s) = e.
Proof. intros e s H. cbn [step]. rewrite H. reflexivity. Qed.

(* A Subscribe with mq_ok = false on an entry whose MQ subscription is already established never asks the MQ:
   it succeeds exactly like one with mq_ok = true (one more user, one more count) *)
Theorem subscribe_established_ignores_mq : forall e s, Inv e -> mqsub e = true ->
  step e (Subscribe s false) = step e (Subscribe s true) /\
  users (step e (Subscribe s false)) = users e + 1 /\ count (step e (Subscribe s false)) = count e + 1.
Proof.
  intros e s H Hm.
  assert (Hp : present e = true).
  { destruct (present e) eqn:Ep; [reflexivity|]. destruct (i_absent e H Ep) as [_ Hx]. congruence. }
  assert (Hm1 : mqsub (get_sub e) = true) by (unfold get_sub; rewrite Hp; exact Hm).
  rewrite (step_subscribe_gen e s false (or_intror Hm1)), step_subscribe.
  split; [reflexivity|]. cbn zeta. unfold get_sub. rewrite Hp. unfold users. cbn. rewrite app_length. cbn. lia.
Qed.

(* A refused event subscription (which presupposes that none is established yet: mqsub e = false) leaves the number
   of users and the count unchanged, for a pre-existing entry as well as for an absent one (which becomes present
   with count 0).  Inv is only used for the absent entry (count e = users e = 0); the freshness of s is not used. *)
Theorem failed_subscribe_releases : forall e s, Inv e -> mqsub e = false ->
  memb s (subs e) = false -> memb s (pend e) = false ->
  users (step e (Subscribe s false)) = users e /\ count (step e (Subscribe s false)) = count e /\
  present (step e (Subscribe s false)) = true.
Proof.
  intros e s H Hm _ _. cbn [step]. unfold get_sub. destruct (present e) eqn:Ep; cbn.
  - rewrite Hm. unfold remove_count, users. cbn. repeat split. lia.
  - destruct (i_absent e H Ep) as [Hu _]. pose proof (i_count e H) as Hc. rewrite Hu in Hc.
    rewrite Hu, Hc. unfold users. cbn. repeat split.
Qed.
