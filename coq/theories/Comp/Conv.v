(* Feasibility sketch for C01: one cached resource, any number of subscribers, all interleavings.
   Mirrors: rescache handleEvent (version stamp, bump on update, fan-out), GetModel snapshot under the lock,
   Subscription.Loaded / Event / processEvent (version filter) / queueEvents / unqueueEvents (partial drain),
   FIFO eventSub queue and FIFO connection queue, and a consistent service. *)
From Coq Require Import List Arith Lia Bool.
Import ListNotations.

Section Conv.
Variables (val upd : Type) (app : upd -> val -> val) (norm : upd -> val -> option upd) (d : val).
Hypothesis norm_none : forall u v, norm u v = None -> app u v = v.
Hypothesis norm_some : forall u v u', norm u v = Some u' -> app u' v = app u v.

(* event as stamped by the cache: target version, and Some u for an update / None for a custom event *)
Record ev := { e_ver : nat; e_upd : option upd }.
Inductive citem := CLoaded | CEvent (e : ev).                 (* wsConn.queue items for one subscription *)
Inductive eitem := IEvent (u : upd) | ICustom | IGetResp (v : val) | IAddSub (s : nat)   (* EventSubscription.queue *)
                 | INop (tag : nat).   (* a task that does not touch the resource: the answer to an access or call request
                                          passing through the resource's queue (Cache.sendRequest) *)

Record sub := { subscribed : bool; loaded : bool; sver : nat; sval : val; flag : bool;
                eq : list ev; sent : bool; cq : list citem }.
Record st := { truth : val; answered : bool; qe : list eitem;
               rs_loaded : bool; rs_val : val; rs_ver : nat; rs_subs : list nat; subs : nat -> sub }.

Definition sub0 : sub := {| subscribed := false; loaded := false; sver := 0; sval := d; flag := true;
                            eq := []; sent := false; cq := [] |}.
Definition init (t : val) : st :=
  {| truth := t; answered := false; qe := []; rs_loaded := false; rs_val := d; rs_ver := 0;
     rs_subs := []; subs := fun _ => sub0 |}.

Definition set_sub (f : nat -> sub) (s : nat) (x : sub) : nat -> sub := fun s' => if Nat.eqb s' s then x else f s'.
Definition push_c (x : sub) (i : citem) : sub :=
  {| subscribed := subscribed x; loaded := loaded x; sver := sver x; sval := sval x; flag := flag x;
     eq := eq x; sent := sent x; cq := cq x ++ [i] |}.
Definition mem (s : nat) (l : list nat) : bool := existsb (Nat.eqb s) l.
Definition push_all (f : nat -> sub) (l : list nat) (i : citem) : nat -> sub :=
  fun s => if mem s l then push_c (f s) i else f s.

(* Subscription.processEvent *)
Definition proc (p : nat * val) (e : ev) : nat * val :=
  let '(ver, v) := p in
  if Nat.eqb ver (e_ver e) then
    match e_upd e with Some u => (S ver, app u v) | None => (ver, v) end
  else (ver, v).
Definition replay (p : nat * val) (l : list ev) : nat * val := fold_left proc l p.

Inductive action :=
| SvcUpdate (u : upd) | SvcCustom | SvcAnswer
| SvcNop (tag : nat)         (* an answer routed through the resource's queue *)
| Subscribe (s : nat)
| RunE                       (* cache worker executes the head of the resource queue *)
| RunC (s : nat)             (* connection worker executes the head item for subscription s *)
| Respond (s : nat) (c : nat)(* OnReady callback: send snapshot, ReleaseRPCResources, drain up to a cut *)
| Unqueue (s : nat) (c : nat)(* unqueueEvents, draining c events before queueing restarts (or all) *)
| StartQueue (s : nat).      (* queueEvents *)

Definition evs (q : list citem) : list ev :=
  flat_map (fun i => match i with CEvent e => [e] | CLoaded => [] end) q.

Definition with_sub (x : sub) ver v fl q snt : sub :=
  {| subscribed := subscribed x; loaded := loaded x; sver := ver; sval := v; flag := fl;
     eq := q; sent := snt; cq := cq x |}.

(* drain the first c queued events; if some remain queueing is on again *)
Definition drain (x : sub) (c : nat) : sub :=
  let done := firstn c (eq x) in
  let rest := skipn c (eq x) in
  let '(ver, v) := replay (sver x, sval x) done in
  with_sub x ver v (match rest with [] => false | _ => true end) rest (sent x).

Definition step (σ : st) (a : action) : st :=
  match a with
  | SvcUpdate u =>
      {| truth := app u (truth σ); answered := answered σ; qe := qe σ ++ [IEvent u];
         rs_loaded := rs_loaded σ; rs_val := rs_val σ; rs_ver := rs_ver σ; rs_subs := rs_subs σ; subs := subs σ |}
  | SvcCustom =>
      {| truth := truth σ; answered := answered σ; qe := qe σ ++ [ICustom];
         rs_loaded := rs_loaded σ; rs_val := rs_val σ; rs_ver := rs_ver σ; rs_subs := rs_subs σ; subs := subs σ |}
  | SvcAnswer =>
      if answered σ then σ else
      {| truth := truth σ; answered := true; qe := qe σ ++ [IGetResp (truth σ)];
         rs_loaded := rs_loaded σ; rs_val := rs_val σ; rs_ver := rs_ver σ; rs_subs := rs_subs σ; subs := subs σ |}
  | SvcNop n =>
      {| truth := truth σ; answered := answered σ; qe := qe σ ++ [INop n];
         rs_loaded := rs_loaded σ; rs_val := rs_val σ; rs_ver := rs_ver σ; rs_subs := rs_subs σ; subs := subs σ |}
  | Subscribe s =>
      if subscribed (subs σ s) then σ else
      let x := subs σ s in
      let x' := {| subscribed := true; loaded := loaded x; sver := sver x; sval := sval x; flag := flag x;
                   eq := eq x; sent := sent x; cq := cq x |} in
      {| truth := truth σ; answered := answered σ; qe := qe σ ++ [IAddSub s];
         rs_loaded := rs_loaded σ; rs_val := rs_val σ; rs_ver := rs_ver σ; rs_subs := rs_subs σ;
         subs := set_sub (subs σ) s x' |}
  | RunE =>
      match qe σ with
      | [] => σ
      | IGetResp v :: q =>
          {| truth := truth σ; answered := answered σ; qe := q;
             rs_loaded := true; rs_val := v; rs_ver := 0; rs_subs := rs_subs σ;
             subs := push_all (subs σ) (rs_subs σ) CLoaded |}
      | IAddSub s :: q =>
          {| truth := truth σ; answered := answered σ; qe := q;
             rs_loaded := rs_loaded σ; rs_val := rs_val σ; rs_ver := rs_ver σ; rs_subs := s :: rs_subs σ;
             subs := if rs_loaded σ then set_sub (subs σ) s (push_c (subs σ s) CLoaded) else subs σ |}
      | IEvent u :: q =>
          if rs_loaded σ then
            match norm u (rs_val σ) with
            | None => {| truth := truth σ; answered := answered σ; qe := q;
                         rs_loaded := rs_loaded σ; rs_val := rs_val σ; rs_ver := rs_ver σ; rs_subs := rs_subs σ; subs := subs σ |}
            | Some u' =>
                {| truth := truth σ; answered := answered σ; qe := q;
                   rs_loaded := true; rs_val := app u (rs_val σ); rs_ver := S (rs_ver σ); rs_subs := rs_subs σ;
                   subs := push_all (subs σ) (rs_subs σ) (CEvent {| e_ver := rs_ver σ; e_upd := Some u' |}) |}
            end
          else {| truth := truth σ; answered := answered σ; qe := q;
                  rs_loaded := rs_loaded σ; rs_val := rs_val σ; rs_ver := rs_ver σ; rs_subs := rs_subs σ; subs := subs σ |}
      | INop _ :: q =>
          {| truth := truth σ; answered := answered σ; qe := q;
             rs_loaded := rs_loaded σ; rs_val := rs_val σ; rs_ver := rs_ver σ; rs_subs := rs_subs σ; subs := subs σ |}
      | ICustom :: q =>
          {| truth := truth σ; answered := answered σ; qe := q;
             rs_loaded := rs_loaded σ; rs_val := rs_val σ; rs_ver := rs_ver σ; rs_subs := rs_subs σ;
             subs := if rs_loaded σ
                     then push_all (subs σ) (rs_subs σ) (CEvent {| e_ver := rs_ver σ; e_upd := None |})
                     else subs σ |}
      end
  | RunC s =>
      let x := subs σ s in
      match cq x with
      | [] => σ
      | CLoaded :: q =>
          (* Loaded + setModel: snapshot value and version together, start queueing *)
          let x' := {| subscribed := subscribed x; loaded := true; sver := rs_ver σ; sval := rs_val σ; flag := true;
                       eq := []; sent := false; cq := q |} in
          {| truth := truth σ; answered := answered σ; qe := qe σ; rs_loaded := rs_loaded σ; rs_val := rs_val σ;
             rs_ver := rs_ver σ; rs_subs := rs_subs σ; subs := set_sub (subs σ) s x' |}
      | CEvent e :: q =>
          let x' :=
            if negb (loaded x) then                       (* resourceSub == nil: discard *)
              {| subscribed := subscribed x; loaded := false; sver := sver x; sval := sval x; flag := flag x;
                 eq := eq x; sent := sent x; cq := q |}
            else if flag x then                           (* queueFlag != 0: hold *)
              {| subscribed := subscribed x; loaded := true; sver := sver x; sval := sval x; flag := true;
                 eq := eq x ++ [e]; sent := sent x; cq := q |}
            else
              let '(ver, v) := proc (sver x, sval x) e in
              {| subscribed := subscribed x; loaded := true; sver := ver; sval := v; flag := false;
                 eq := eq x; sent := sent x; cq := q |} in
          {| truth := truth σ; answered := answered σ; qe := qe σ; rs_loaded := rs_loaded σ; rs_val := rs_val σ;
             rs_ver := rs_ver σ; rs_subs := rs_subs σ; subs := set_sub (subs σ) s x' |}
      end
  | Respond s c =>
      let x := subs σ s in
      if loaded x && negb (sent x) then
        let x1 := with_sub x (sver x) (sval x) (flag x) (eq x) true in
        {| truth := truth σ; answered := answered σ; qe := qe σ; rs_loaded := rs_loaded σ; rs_val := rs_val σ;
           rs_ver := rs_ver σ; rs_subs := rs_subs σ; subs := set_sub (subs σ) s (drain x1 c) |}
      else σ
  | Unqueue s c =>
      let x := subs σ s in
      if loaded x && sent x && flag x then
        {| truth := truth σ; answered := answered σ; qe := qe σ; rs_loaded := rs_loaded σ; rs_val := rs_val σ;
           rs_ver := rs_ver σ; rs_subs := rs_subs σ; subs := set_sub (subs σ) s (drain x c) |}
      else σ
  | StartQueue s =>
      let x := subs σ s in
      if loaded x && sent x then
        {| truth := truth σ; answered := answered σ; qe := qe σ; rs_loaded := rs_loaded σ; rs_val := rs_val σ;
           rs_ver := rs_ver σ; rs_subs := rs_subs σ;
           subs := set_sub (subs σ) s (with_sub x (sver x) (sval x) true (eq x) (sent x)) |}
      else σ
  end.

Definition run (t : val) (acts : list action) : st := fold_left step acts (init t).

(* ---------------- invariant ---------------- *)
Definition pstep (b : option val) (i : eitem) : option val :=
  match i with IGetResp v => Some v | IEvent u => option_map (app u) b | _ => b end.
Definition pend (q : list eitem) (b : option val) : option val := fold_left pstep q b.

Definition b2n (b : bool) : nat := if b then 1 else 0.
Definition is_get (i : eitem) := match i with IGetResp _ => true | _ => false end.
Definition is_add (s : nat) (i : eitem) := match i with IAddSub s' => Nat.eqb s' s | _ => false end.
Definition is_ld (i : citem) := match i with CLoaded => true | _ => false end.
Definition cnt {A} (f : A -> bool) (l : list A) := length (filter f l).

Record Inv (σ : st) : Prop := {
  i1 : pend (qe σ) (if rs_loaded σ then Some (rs_val σ) else None) = (if answered σ then Some (truth σ) else None);
  i2 : cnt is_get (qe σ) + b2n (rs_loaded σ) = b2n (answered σ);
  i3 : forall s, cnt (is_add s) (qe σ) + b2n (mem s (rs_subs σ)) = b2n (subscribed (subs σ s));
  i4 : forall s, cnt is_ld (cq (subs σ s)) + b2n (loaded (subs σ s)) = b2n (mem s (rs_subs σ) && rs_loaded σ);
  i5 : forall s, loaded (subs σ s) = true ->
         replay (sver (subs σ s), sval (subs σ s)) (eq (subs σ s) ++ evs (cq (subs σ s))) = (rs_ver σ, rs_val σ);
  i6 : forall s e, In e (evs (cq (subs σ s))) -> e_upd e <> None -> e_ver e < rs_ver σ;
  i7 : forall s, loaded (subs σ s) = false -> eq (subs σ s) = [];
  i8 : forall s, flag (subs σ s) = false -> eq (subs σ s) = [];
  i9 : rs_loaded σ = false -> forall s, cq (subs σ s) = []
}.

Lemma cnt_app {A} (f : A -> bool) l1 l2 : cnt f (l1 ++ l2) = cnt f l1 + cnt f l2.
Proof. unfold cnt. rewrite filter_app, app_length. reflexivity. Qed.
Lemma pend_app q i b : pend (q ++ [i]) b = pstep (pend q b) i.
Proof. unfold pend. rewrite fold_left_app. reflexivity. Qed.
Lemma replay_app p l1 l2 : replay p (l1 ++ l2) = replay (replay p l1) l2.
Proof. unfold replay. apply fold_left_app. Qed.
Lemma evs_app q1 q2 : evs (q1 ++ q2) = evs q1 ++ evs q2.
Proof. unfold evs. apply flat_map_app. Qed.

Lemma set_sub_eq f s x : set_sub f s x s = x.
Proof. unfold set_sub. rewrite Nat.eqb_refl. reflexivity. Qed.
Lemma set_sub_neq f s x s' : s' <> s -> set_sub f s x s' = f s'.
Proof. unfold set_sub. intros H. apply Nat.eqb_neq in H. rewrite H. reflexivity. Qed.

Lemma init_inv t : Inv (init t).
Proof. constructor; cbn; intros; try reflexivity; try discriminate; try contradiction. Qed.

(* replaying events that all target an older version changes nothing *)
Lemma replay_stale : forall l n v,
  (forall e, In e l -> e_upd e <> None -> e_ver e < n) -> replay (n, v) l = (n, v).
Proof.
  induction l as [|e l IH]; intros n v H; [reflexivity|].
  unfold replay in *. cbn [fold_left]. unfold proc at 2.
  destruct (Nat.eqb_spec n (e_ver e)) as [E|E].
  - destruct (e_upd e) eqn:Eu.
    + exfalso. assert (e_ver e < n) by (apply H; [left; reflexivity|congruence]). lia.
    + apply IH. intros e' Hin. apply H. right; assumption.
  - apply IH. intros e' Hin. apply H. right; assumption.
Qed.

Ltac inv_fields H :=
  destruct H as [H1 H2 H3 H4 H5 H6 H7 H8 H9].

Lemma b2n_le b : b2n b <= 1. Proof. destruct b; cbn; lia. Qed.

(* ---- service and subscribe actions: only the resource queue grows ---- *)
Lemma inv_svc_update σ u : Inv σ -> Inv (step σ (SvcUpdate u)).
Proof.
  intros H; inv_fields H. constructor; cbn -[pend cnt replay evs mem]; auto.
  - rewrite pend_app, H1. destruct (answered σ); reflexivity.
  - rewrite cnt_app. cbn. lia.
  - intros s. rewrite cnt_app. cbn. specialize (H3 s). lia.
Qed.

Lemma inv_svc_custom σ : Inv σ -> Inv (step σ SvcCustom).
Proof.
  intros H; inv_fields H. constructor; cbn -[pend cnt replay evs mem]; auto.
  - rewrite pend_app, H1. reflexivity.
  - rewrite cnt_app. cbn. lia.
  - intros s. rewrite cnt_app. cbn. specialize (H3 s). lia.
Qed.

Lemma inv_svc_nop σ n : Inv σ -> Inv (step σ (SvcNop n)).
Proof.
  intros H; inv_fields H. constructor; cbn -[pend cnt replay evs mem]; auto.
  - rewrite pend_app, H1. reflexivity.
  - rewrite cnt_app. cbn. lia.
  - intros s. rewrite cnt_app. cbn. specialize (H3 s). lia.
Qed.

Lemma inv_svc_answer σ : Inv σ -> Inv (step σ SvcAnswer).
Proof.
  intros H. cbn [step]. destruct (answered σ) eqn:Ea; [assumption|].
  inv_fields H. rewrite Ea in *. constructor; cbn -[pend cnt replay evs mem]; auto.
  - rewrite pend_app. reflexivity.
  - rewrite cnt_app. cbn in *. lia.
  - intros s. rewrite cnt_app. cbn. specialize (H3 s). lia.
Qed.

Lemma inv_subscribe σ s0 : Inv σ -> Inv (step σ (Subscribe s0)).
Proof.
  intros H. cbn [step]. destruct (subscribed (subs σ s0)) eqn:Es; [assumption|].
  inv_fields H. constructor; cbn -[pend cnt replay evs mem]; auto.
  - rewrite pend_app, H1. reflexivity.
  - rewrite cnt_app. cbn. lia.
  - intros s. rewrite cnt_app. unfold set_sub. specialize (H3 s).
    destruct (Nat.eqb_spec s s0) as [->|Hne].
    + cbn -[mem]. rewrite Nat.eqb_refl. rewrite Es in H3. cbn in *. lia.
    + cbn -[mem]. assert (Nat.eqb s0 s = false) by (apply Nat.eqb_neq; congruence). rewrite H. cbn. lia.
  - intros s. unfold set_sub. destruct (Nat.eqb s s0) eqn:E; [apply Nat.eqb_eq in E; subst|]; apply H4.
  - intros s. unfold set_sub. destruct (Nat.eqb s s0) eqn:E; [apply Nat.eqb_eq in E; subst|]; apply H5.
  - intros s. unfold set_sub. destruct (Nat.eqb s s0) eqn:E; [apply Nat.eqb_eq in E; subst|]; apply H6.
  - intros s. unfold set_sub. destruct (Nat.eqb s s0) eqn:E; [apply Nat.eqb_eq in E; subst|]; apply H7.
  - intros s. unfold set_sub. destruct (Nat.eqb s s0) eqn:E; [apply Nat.eqb_eq in E; subst|]; apply H8.
  - intros Hl s. unfold set_sub. destruct (Nat.eqb s s0) eqn:E; [apply Nat.eqb_eq in E; subst|]; apply H9; assumption.
Qed.

(* ---- subscription-local actions ---- *)
Definition with_subs (σ : st) (f : nat -> sub) : st :=
  {| truth := truth σ; answered := answered σ; qe := qe σ; rs_loaded := rs_loaded σ; rs_val := rs_val σ;
     rs_ver := rs_ver σ; rs_subs := rs_subs σ; subs := f |}.

Lemma local_inv σ s0 x' : Inv σ ->
  subscribed x' = subscribed (subs σ s0) -> loaded x' = loaded (subs σ s0) -> cq x' = cq (subs σ s0) ->
  (loaded (subs σ s0) = true ->
     replay (sver x', sval x') (eq x' ++ evs (cq x')) =
     replay (sver (subs σ s0), sval (subs σ s0)) (eq (subs σ s0) ++ evs (cq (subs σ s0)))) ->
  (loaded (subs σ s0) = false -> eq x' = []) ->
  (flag x' = false -> eq x' = []) ->
  Inv (with_subs σ (set_sub (subs σ) s0 x')).
Proof.
  intros H Hs Hl Hc Hr He Hf. inv_fields H.
  assert (Hx : forall s, s <> s0 -> set_sub (subs σ) s0 x' s = subs σ s) by (intros; apply set_sub_neq; assumption).
  assert (Hy : set_sub (subs σ) s0 x' s0 = x') by apply set_sub_eq.
  constructor; cbn -[pend cnt replay evs mem set_sub]; auto.
  - intros s. destruct (Nat.eq_dec s s0) as [->|Hne]; [rewrite Hy, Hs|rewrite Hx by assumption]; apply H3.
  - intros s. destruct (Nat.eq_dec s s0) as [->|Hne]; [rewrite Hy, Hc, Hl|rewrite Hx by assumption]; apply H4.
  - intros s. destruct (Nat.eq_dec s s0) as [->|Hne]; [rewrite Hy|rewrite Hx by assumption].
    + intros Hld. rewrite Hl in Hld. rewrite Hr by assumption. apply H5; assumption.
    + apply H5.
  - intros s e. destruct (Nat.eq_dec s s0) as [->|Hne]; [rewrite Hy, Hc|rewrite Hx by assumption]; apply H6.
  - intros s. destruct (Nat.eq_dec s s0) as [->|Hne]; [rewrite Hy|rewrite Hx by assumption].
    + intros Hld. rewrite Hl in Hld. apply He; assumption.
    + apply H7.
  - intros s. destruct (Nat.eq_dec s s0) as [->|Hne]; [rewrite Hy|rewrite Hx by assumption].
    + apply Hf.
    + apply H8.
  - intros Hrl s. destruct (Nat.eq_dec s s0) as [->|Hne]; [rewrite Hy, Hc|rewrite Hx by assumption]; apply H9; assumption.
Qed.

Lemma drain_fields x c :
  subscribed (drain x c) = subscribed x /\ loaded (drain x c) = loaded x /\ cq (drain x c) = cq x /\
  (forall E, replay (sver (drain x c), sval (drain x c)) (eq (drain x c) ++ E) = replay (sver x, sval x) (eq x ++ E)) /\
  (eq x = [] -> eq (drain x c) = []) /\ (flag (drain x c) = false -> eq (drain x c) = []).
Proof.
  unfold drain. destruct (replay (sver x, sval x) (firstn c (eq x))) as [ver v] eqn:Er.
  cbn. repeat split; auto.
  - intros E. rewrite <- (firstn_skipn c (eq x)) at 2. rewrite <- app_assoc, replay_app, Er. reflexivity.
  - intros He. rewrite He. destruct c; reflexivity.
  - destruct (skipn c (eq x)); [reflexivity|discriminate].
Qed.

Lemma inv_unqueue σ s0 c : Inv σ -> Inv (step σ (Unqueue s0 c)).
Proof.
  intros H. cbn [step].
  destruct (loaded (subs σ s0) && sent (subs σ s0) && flag (subs σ s0)) eqn:E; [|assumption].
  destruct (drain_fields (subs σ s0) c) as (A & B & C & D & F & G).
  apply (local_inv σ s0 (drain (subs σ s0) c)); auto.
  - intros _. rewrite C. apply D.
  - intros Hl. apply F. destruct H. auto.
Qed.

Lemma inv_respond σ s0 c : Inv σ -> Inv (step σ (Respond s0 c)).
Proof.
  intros H. cbn [step].
  destruct (loaded (subs σ s0) && negb (sent (subs σ s0))) eqn:E; [|assumption].
  set (x1 := with_sub (subs σ s0) (sver (subs σ s0)) (sval (subs σ s0)) (flag (subs σ s0)) (eq (subs σ s0)) true).
  destruct (drain_fields x1 c) as (A & B & C & D & F & G).
  apply (local_inv σ s0 (drain x1 c)); auto.
  - intros _. rewrite C. apply D.
  - intros Hl. apply F. cbn. destruct H. auto.
Qed.

Lemma inv_startqueue σ s0 : Inv σ -> Inv (step σ (StartQueue s0)).
Proof.
  intros H. cbn [step].
  destruct (loaded (subs σ s0) && sent (subs σ s0)) eqn:E; [|assumption].
  apply (local_inv σ s0 (with_sub (subs σ s0) (sver (subs σ s0)) (sval (subs σ s0)) true (eq (subs σ s0)) (sent (subs σ s0)))); auto.
  - intros Hl. cbn. destruct H. auto.
  - cbn. discriminate.
Qed.

(* ---- general single-subscription update ---- *)
Lemma upd_inv σ s0 x' : Inv σ ->
  subscribed x' = subscribed (subs σ s0) ->
  cnt is_ld (cq x') + b2n (loaded x') = cnt is_ld (cq (subs σ s0)) + b2n (loaded (subs σ s0)) ->
  (loaded x' = true -> replay (sver x', sval x') (eq x' ++ evs (cq x')) = (rs_ver σ, rs_val σ)) ->
  (forall e, In e (evs (cq x')) -> In e (evs (cq (subs σ s0)))) ->
  (loaded x' = false -> eq x' = []) -> (flag x' = false -> eq x' = []) ->
  (rs_loaded σ = false -> cq x' = []) ->
  Inv (with_subs σ (set_sub (subs σ) s0 x')).
Proof.
  intros H Hs Hc Hr Hi He Hf H0. inv_fields H.
  assert (Hx : forall s, s <> s0 -> set_sub (subs σ) s0 x' s = subs σ s) by (intros; apply set_sub_neq; assumption).
  assert (Hy : set_sub (subs σ) s0 x' s0 = x') by apply set_sub_eq.
  constructor; cbn -[pend cnt replay evs mem set_sub]; auto.
  - intros s. destruct (Nat.eq_dec s s0) as [->|Hne]; [rewrite Hy, Hs|rewrite Hx by assumption]; apply H3.
  - intros s. destruct (Nat.eq_dec s s0) as [->|Hne]; [rewrite Hy, Hc|rewrite Hx by assumption]; apply H4.
  - intros s. destruct (Nat.eq_dec s s0) as [->|Hne]; [rewrite Hy; exact Hr|rewrite Hx by assumption; apply H5].
  - intros s e. destruct (Nat.eq_dec s s0) as [->|Hne]; [rewrite Hy|rewrite Hx by assumption].
    + intros Hin. apply (H6 s0). apply Hi; assumption.
    + apply H6.
  - intros s. destruct (Nat.eq_dec s s0) as [->|Hne]; [rewrite Hy; exact He|rewrite Hx by assumption; apply H7].
  - intros s. destruct (Nat.eq_dec s s0) as [->|Hne]; [rewrite Hy; exact Hf|rewrite Hx by assumption; apply H8].
  - intros Hrl s. destruct (Nat.eq_dec s s0) as [->|Hne]; [rewrite Hy; auto|rewrite Hx by assumption; apply H9; assumption].
Qed.

Lemma inv_runc σ s0 : Inv σ -> Inv (step σ (RunC s0)).
Proof.
  intros H. cbn [step]. pose proof H as H'. inv_fields H'.
  destruct (cq (subs σ s0)) as [|[|e] q] eqn:Ecq; [assumption| |].
  - (* Loaded: snapshot *)
    pose proof (H4 s0) as H4s. rewrite Ecq in H4s. unfold cnt in H4s. cbn [filter is_ld length] in H4s.
    pose proof (b2n_le (mem s0 (rs_subs σ) && rs_loaded σ)).
    assert (Hl0 : loaded (subs σ s0) = false) by (destruct (loaded (subs σ s0)); cbn in *; [lia|reflexivity]).
    apply (upd_inv σ s0); [exact H|reflexivity| | | | | |]; cbn -[cnt replay evs].
    + rewrite Ecq. unfold cnt. cbn [filter is_ld length]. rewrite Hl0. cbn. lia.
    + intros _. apply replay_stale. intros e Hin. apply (H6 s0). rewrite Ecq. exact Hin.
    + intros e Hin. rewrite Ecq. exact Hin.
    + discriminate.
    + discriminate.
    + intros Hrl. specialize (H9 Hrl s0). rewrite Ecq in H9. discriminate.
  - (* Event *)
    destruct (loaded (subs σ s0)) eqn:El; cbn [negb].
    + destruct (flag (subs σ s0)) eqn:Ef.
      * apply (upd_inv σ s0); [exact H|reflexivity| | | | | |]; cbn -[cnt replay evs].
        -- rewrite Ecq, El. unfold cnt. cbn. reflexivity.
        -- intros _. rewrite <- app_assoc. specialize (H5 s0 El). rewrite Ecq in H5. exact H5.
        -- intros e' Hin. rewrite Ecq. right. exact Hin.
        -- discriminate.
        -- discriminate.
        -- intros Hrl. specialize (H9 Hrl s0). rewrite Ecq in H9. discriminate.
      * destruct (proc (sver (subs σ s0), sval (subs σ s0)) e) as [ver v] eqn:Ep.
        pose proof (H8 s0 Ef) as Heq0.
        apply (upd_inv σ s0); [exact H|reflexivity| | | | | |]; cbn -[cnt replay evs].
        -- rewrite Ecq, El. unfold cnt. cbn. reflexivity.
        -- intros _. specialize (H5 s0 El). rewrite Ecq, Heq0 in H5. rewrite Heq0.
           cbn [List.app] in *. unfold replay in *. cbn [evs flat_map List.app fold_left] in H5. rewrite Ep in H5. exact H5.
        -- intros e' Hin. rewrite Ecq. right. exact Hin.
        -- discriminate.
        -- intros _. exact Heq0.
        -- intros Hrl. specialize (H9 Hrl s0). rewrite Ecq in H9. discriminate.
    + apply (upd_inv σ s0); [exact H|reflexivity| | | | | |]; cbn -[cnt replay evs].
      * rewrite Ecq, El. unfold cnt. cbn. reflexivity.
      * discriminate.
      * intros e' Hin. rewrite Ecq. right. exact Hin.
      * intros _. apply H7; assumption.
      * apply H8.
      * intros Hrl. specialize (H9 Hrl s0). rewrite Ecq in H9. discriminate.
Qed.

(* ---- cache worker ---- *)
Lemma push_all_fields f l i s :
  subscribed (push_all f l i s) = subscribed (f s) /\ loaded (push_all f l i s) = loaded (f s) /\
  sver (push_all f l i s) = sver (f s) /\ sval (push_all f l i s) = sval (f s) /\
  flag (push_all f l i s) = flag (f s) /\ eq (push_all f l i s) = eq (f s) /\
  cq (push_all f l i s) = if mem s l then cq (f s) ++ [i] else cq (f s).
Proof. unfold push_all. destruct (mem s l); cbn; repeat split; reflexivity. Qed.

Lemma mem_cons s s0 l : mem s (s0 :: l) = Nat.eqb s s0 || mem s l.
Proof. reflexivity. Qed.

Lemma loaded_mem σ s : Inv σ -> loaded (subs σ s) = true -> mem s (rs_subs σ) = true /\ rs_loaded σ = true.
Proof.
  intros H Hl. pose proof (i4 _ H s) as H4. rewrite Hl in H4.
  destruct (mem s (rs_subs σ)), (rs_loaded σ); cbn in *; try lia; split; reflexivity.
Qed.

Definition with_qe (σ : st) (q : list eitem) : st :=
  {| truth := truth σ; answered := answered σ; qe := q; rs_loaded := rs_loaded σ; rs_val := rs_val σ;
     rs_ver := rs_ver σ; rs_subs := rs_subs σ; subs := subs σ |}.

Lemma pop_inv σ i q : Inv σ -> qe σ = i :: q -> is_get i = false -> (forall s, is_add s i = false) ->
  pstep (if rs_loaded σ then Some (rs_val σ) else None) i = (if rs_loaded σ then Some (rs_val σ) else None) ->
  Inv (with_qe σ q).
Proof.
  intros H Eq Hg Ha Hp. inv_fields H. rewrite Eq in *.
  constructor; cbn -[pend cnt replay evs mem]; auto.
  - unfold pend in *. cbn [fold_left] in H1. rewrite Hp in H1. exact H1.
  - unfold cnt in *. cbn [filter] in H2. rewrite Hg in H2. exact H2.
  - intros s. specialize (H3 s). unfold cnt in *. cbn [filter] in H3. rewrite Ha in H3. exact H3.
Qed.

Lemma inv_rune σ : Inv σ -> Inv (step σ RunE).
Proof.
  intros H. cbn [step]. pose proof H as H'. inv_fields H'.
  destruct (qe σ) as [|[u| |v|s0|n0] q] eqn:Eq; [assumption| | | | |].
  - (* resource event *)
    destruct (rs_loaded σ) eqn:Erl.
    + destruct (norm u (rs_val σ)) as [u'|] eqn:En.
      * (* applied: new version, fan out *)
        constructor; cbn -[pend cnt replay evs mem push_all].
        -- unfold pend in *. cbn [fold_left pstep option_map] in H1. exact H1.
        -- unfold cnt in *. cbn [filter is_get length] in H2. exact H2.
        -- intros s. destruct (push_all_fields (subs σ) (rs_subs σ) (CEvent {| e_ver := rs_ver σ; e_upd := Some u' |}) s) as (A&_).
           rewrite A. specialize (H3 s). unfold cnt in *. cbn [filter is_add length] in H3. exact H3.
        -- intros s. destruct (push_all_fields (subs σ) (rs_subs σ) (CEvent {| e_ver := rs_ver σ; e_upd := Some u' |}) s) as (_&B&_&_&_&_&G).
           rewrite B, G. specialize (H4 s). destruct (mem s (rs_subs σ)); [rewrite cnt_app; cbn|]; rewrite ?Nat.add_0_r; exact H4.
        -- intros s. destruct (push_all_fields (subs σ) (rs_subs σ) (CEvent {| e_ver := rs_ver σ; e_upd := Some u' |}) s) as (_&B&C&D&_&F&G).
           rewrite B, C, D, F, G. intros Hl. destruct (loaded_mem σ s H Hl) as [Hm _]. rewrite Hm.
           rewrite evs_app, app_assoc, replay_app, (H5 s Hl). cbn [evs flat_map List.app]. unfold replay. cbn [fold_left proc e_ver e_upd].
           rewrite Nat.eqb_refl. rewrite (norm_some _ _ _ En). reflexivity.
        -- intros s e. destruct (push_all_fields (subs σ) (rs_subs σ) (CEvent {| e_ver := rs_ver σ; e_upd := Some u' |}) s) as (_&_&_&_&_&_&G).
           rewrite G. destruct (mem s (rs_subs σ)).
           ++ rewrite evs_app. intros Hin Hne. apply in_app_or in Hin as [Hin|Hin].
              ** specialize (H6 s e Hin Hne). lia.
              ** cbn in Hin. destruct Hin as [<-|[]]. cbn. lia.
           ++ intros Hin Hne. specialize (H6 s e Hin Hne). lia.
        -- intros s. destruct (push_all_fields (subs σ) (rs_subs σ) (CEvent {| e_ver := rs_ver σ; e_upd := Some u' |}) s) as (_&B&_&_&_&F&_).
           rewrite B, F. apply H7.
        -- intros s. destruct (push_all_fields (subs σ) (rs_subs σ) (CEvent {| e_ver := rs_ver σ; e_upd := Some u' |}) s) as (_&_&_&_&E&F&_).
           rewrite E, F. apply H8.
        -- discriminate.
      * (* no actual change *)
        match goal with |- Inv ?X => replace X with (with_qe σ q) by (unfold with_qe; rewrite Erl; reflexivity) end.
        apply (pop_inv σ (IEvent u) q H Eq); try reflexivity.
        rewrite Erl. cbn. rewrite (norm_none _ _ En). reflexivity.
    + (* not loaded: discarded *)
      match goal with |- Inv ?X => replace X with (with_qe σ q) by (unfold with_qe; rewrite Erl; reflexivity) end.
      apply (pop_inv σ (IEvent u) q H Eq); try reflexivity.
      rewrite Erl. reflexivity.
  - (* custom event *)
    constructor; cbn -[pend cnt replay evs mem push_all].
    + unfold pend in *. cbn [fold_left pstep] in H1. exact H1.
    + unfold cnt in *. cbn [filter is_get length] in H2. exact H2.
    + intros s. specialize (H3 s). unfold cnt in H3. cbn [filter is_add length] in H3.
      destruct (rs_loaded σ); [|exact H3].
      destruct (push_all_fields (subs σ) (rs_subs σ) (CEvent {| e_ver := rs_ver σ; e_upd := None |}) s) as (A&_). rewrite A. exact H3.
    + intros s. specialize (H4 s). destruct (rs_loaded σ) eqn:Erl; [|exact H4].
      destruct (push_all_fields (subs σ) (rs_subs σ) (CEvent {| e_ver := rs_ver σ; e_upd := None |}) s) as (_&B&_&_&_&_&G).
      rewrite B, G. destruct (mem s (rs_subs σ)); [rewrite cnt_app; cbn|]; rewrite ?Nat.add_0_r; exact H4.
    + intros s. destruct (rs_loaded σ) eqn:Erl; [|apply H5].
      destruct (push_all_fields (subs σ) (rs_subs σ) (CEvent {| e_ver := rs_ver σ; e_upd := None |}) s) as (_&B&C&D&_&F&G).
      rewrite B, C, D, F, G. intros Hl. destruct (mem s (rs_subs σ)); [|apply H5; assumption].
      rewrite evs_app, app_assoc, replay_app, (H5 s Hl). cbn [evs flat_map List.app]. unfold replay. cbn [fold_left proc e_ver e_upd].
      rewrite Nat.eqb_refl. reflexivity.
    + intros s e. destruct (rs_loaded σ) eqn:Erl; [|apply H6].
      destruct (push_all_fields (subs σ) (rs_subs σ) (CEvent {| e_ver := rs_ver σ; e_upd := None |}) s) as (_&_&_&_&_&_&G).
      rewrite G. destruct (mem s (rs_subs σ)); [|apply H6].
      rewrite evs_app. intros Hin Hne. apply in_app_or in Hin as [Hin|Hin]; [apply (H6 s e Hin Hne)|].
      cbn in Hin. destruct Hin as [<-|[]]. cbn in Hne. congruence.
    + intros s. destruct (rs_loaded σ) eqn:Erl; [|apply H7].
      destruct (push_all_fields (subs σ) (rs_subs σ) (CEvent {| e_ver := rs_ver σ; e_upd := None |}) s) as (_&B&_&_&_&F&_).
      rewrite B, F. apply H7.
    + intros s. destruct (rs_loaded σ) eqn:Erl; [|apply H8].
      destruct (push_all_fields (subs σ) (rs_subs σ) (CEvent {| e_ver := rs_ver σ; e_upd := None |}) s) as (_&_&_&_&E&F&_).
      rewrite E, F. apply H8.
    + intros Hrl. rewrite Hrl. apply H9; assumption.
  - (* get response *)
    unfold cnt in H2. cbn [filter is_get length] in H2.
    pose proof (b2n_le (answered σ)).
    assert (Erl : rs_loaded σ = false) by (destruct (rs_loaded σ); cbn in *; [lia|reflexivity]).
    rewrite Erl in *. cbn [b2n] in H2.
    assert (Hcq : forall s, cq (subs σ s) = []) by (apply H9; reflexivity).
    assert (Hld : forall s, loaded (subs σ s) = false).
    { intros s. specialize (H4 s). rewrite andb_false_r in H4. cbn in H4. destruct (loaded (subs σ s)); cbn in *; [lia|reflexivity]. }
    constructor; cbn -[pend cnt replay evs mem push_all].
    + unfold pend in *. cbn [fold_left pstep] in H1. exact H1.
    + unfold cnt. cbn. lia.
    + intros s. destruct (push_all_fields (subs σ) (rs_subs σ) CLoaded s) as (A&_). rewrite A.
      specialize (H3 s). unfold cnt in *. cbn [filter is_add length] in H3. exact H3.
    + intros s. destruct (push_all_fields (subs σ) (rs_subs σ) CLoaded s) as (_&B&_&_&_&_&G).
      rewrite B, G, Hld, Hcq, andb_true_r. destruct (mem s (rs_subs σ)); reflexivity.
    + intros s. destruct (push_all_fields (subs σ) (rs_subs σ) CLoaded s) as (_&B&_). rewrite B, Hld. discriminate.
    + intros s e. destruct (push_all_fields (subs σ) (rs_subs σ) CLoaded s) as (_&_&_&_&_&_&G).
      rewrite G, Hcq. destruct (mem s (rs_subs σ)); cbn; intros [].
    + intros s. destruct (push_all_fields (subs σ) (rs_subs σ) CLoaded s) as (_&B&_&_&_&F&_). rewrite B, F. apply H7.
    + intros s. destruct (push_all_fields (subs σ) (rs_subs σ) CLoaded s) as (_&_&_&_&E&F&_). rewrite E, F. apply H8.
    + discriminate.
  - (* add subscriber *)
    pose proof (H3 s0) as H3s. unfold cnt in H3s. cbn [filter is_add length] in H3s. rewrite Nat.eqb_refl in H3s. cbn [length] in H3s.
    pose proof (b2n_le (subscribed (subs σ s0))).
    assert (Hm0 : mem s0 (rs_subs σ) = false) by (destruct (mem s0 (rs_subs σ)); cbn in *; [lia|reflexivity]).
    pose proof (H4 s0) as H4s. rewrite Hm0 in H4s. cbn in H4s.
    assert (Hl0 : loaded (subs σ s0) = false) by (destruct (loaded (subs σ s0)); cbn in *; [lia|reflexivity]).
    assert (Hc0 : cnt is_ld (cq (subs σ s0)) = 0) by lia.
    assert (Hsub : forall s, subs (with_subs σ (if rs_loaded σ then set_sub (subs σ) s0 (push_c (subs σ s0) CLoaded) else subs σ)) s
                   = if rs_loaded σ && Nat.eqb s s0 then push_c (subs σ s0) CLoaded else subs σ s).
    { intros s. cbn. destruct (rs_loaded σ); cbn; [|reflexivity]. unfold set_sub. destruct (Nat.eqb_spec s s0); [subst|]; reflexivity. }
    cbn in Hsub.
    constructor; cbn -[pend cnt replay evs mem set_sub]; try (intros s; rewrite Hsub).
    + unfold pend in *. cbn [fold_left pstep] in H1. exact H1.
    + unfold cnt in *. cbn [filter is_get length] in H2. exact H2.
    + rewrite mem_cons. specialize (H3 s). unfold cnt in *. cbn [filter is_add length] in H3.
      destruct (Nat.eqb_spec s s0) as [->|Hne].
      * rewrite Nat.eqb_refl in *. cbn [length] in *. rewrite Hm0 in *. rewrite andb_true_r. destruct (rs_loaded σ); cbn in *; lia.
      * assert (E : Nat.eqb s0 s = false) by (apply Nat.eqb_neq; congruence). rewrite E in H3. rewrite andb_false_r. cbn. exact H3.
    + rewrite mem_cons. destruct (Nat.eqb_spec s s0) as [->|Hne].
      * rewrite andb_true_r. cbn [orb]. destruct (rs_loaded σ) eqn:Erl; cbn [andb].
        -- cbn [push_c cq loaded]. rewrite cnt_app, Hc0, Hl0. reflexivity.
        -- rewrite Hc0, Hl0. reflexivity.
      * rewrite andb_false_r. cbn [orb]. apply H4.
    + destruct (Nat.eqb_spec s s0) as [->|Hne].
      * rewrite andb_true_r. destruct (rs_loaded σ); cbn; rewrite Hl0; discriminate.
      * rewrite andb_false_r. apply H5.
    + intros e. destruct (Nat.eqb_spec s s0) as [->|Hne].
      * rewrite andb_true_r. destruct (rs_loaded σ); [|apply H6]. cbn [push_c cq]. rewrite evs_app. cbn [evs flat_map]. rewrite app_nil_r. apply H6.
      * rewrite andb_false_r. apply H6.
    + destruct (Nat.eqb_spec s s0) as [->|Hne].
      * rewrite andb_true_r. destruct (rs_loaded σ); cbn; apply H7.
      * rewrite andb_false_r. apply H7.
    + destruct (Nat.eqb_spec s s0) as [->|Hne].
      * rewrite andb_true_r. destruct (rs_loaded σ); cbn; apply H8.
      * rewrite andb_false_r. apply H8.
    + intros Hrl s. rewrite Hsub, Hrl. cbn. apply H9; assumption.
  - (* a task that does not touch the resource *)
    apply (pop_inv σ (INop n0) q H Eq); reflexivity.
Qed.

Theorem step_inv σ a : Inv σ -> Inv (step σ a).
Proof.
  destruct a; [apply inv_svc_update|apply inv_svc_custom|apply inv_svc_answer|apply inv_svc_nop|apply inv_subscribe
              |apply inv_rune|apply inv_runc|apply inv_respond|apply inv_unqueue|apply inv_startqueue].
Qed.

Theorem run_inv t acts : Inv (run t acts).
Proof.
  unfold run. generalize (init_inv t). generalize (init t).
  induction acts as [|a acts IH]; intros σ H; cbn; [exact H|]. apply IH, step_inv, H.
Qed.

(* quiescent: the get request was answered, the resource queue is drained, and every connection
   has drained its queue and holds no queued events *)
Definition quiescent (σ : st) : Prop :=
  answered σ = true /\ qe σ = [] /\ forall s, cq (subs σ s) = [] /\ eq (subs σ s) = [].

(* Every reachable quiescent state: each subscribed connection has loaded the resource, and the copy it
   holds (the snapshot it was or will be sent, updated by every event delivered since) IS the state the
   service last announced; the cache holds the same value. For every schedule, any number of subscribers. *)
Theorem single_resource_convergence : forall t acts s,
  let σ := run t acts in
  quiescent σ -> subscribed (subs σ s) = true ->
  loaded (subs σ s) = true /\ sval (subs σ s) = truth σ /\ rs_val σ = truth σ.
Proof.
  intros t acts s σ (Ha & Hq & Hs) Hsub.
  pose proof (run_inv t acts) as H. fold σ in H. inv_fields H.
  rewrite Hq, Ha in *. cbn in H1, H2.
  assert (Erl : rs_loaded σ = true) by (destruct (rs_loaded σ); [reflexivity|cbn in *; discriminate]).
  rewrite Erl in *. cbn in H1. injection H1 as H1.
  specialize (H3 s). rewrite Hsub in H3. cbn in H3.
  assert (Hm : mem s (rs_subs σ) = true) by (destruct (mem s (rs_subs σ)); [reflexivity|cbn in *; discriminate]).
  specialize (H4 s). destruct (Hs s) as [Hc He]. rewrite Hc, Hm in H4. cbn in H4.
  assert (Hl : loaded (subs σ s) = true) by (destruct (loaded (subs σ s)); [reflexivity|cbn in *; discriminate]).
  specialize (H5 s Hl). rewrite Hc, He in H5. cbn in H5. injection H5 as _ H5.
  repeat split; congruence.
Qed.

End Conv.

Print Assumptions single_resource_convergence.

(* non-vacuity: a concrete schedule that reaches a quiescent state with two subscribers, an update that
   lands before one snapshot and after the other, and a queued event drained after the response *)
Definition acts_ex : list (action nat) :=
  [Subscribe nat 1; SvcAnswer nat; RunE nat; RunE nat; SvcUpdate nat 5; RunC nat 1; RunE nat; Subscribe nat 2; RunE nat;
   SvcUpdate nat 7; RunE nat; RunC nat 2; RunC nat 1; RunC nat 1; Respond nat 1 5; RunC nat 2; Respond nat 2 5].
Definition sigma_ex := run nat nat (fun u v => u + v) (fun u v => if Nat.eqb u 0 then None else Some u) 0 100 acts_ex.
Eval vm_compute in (@truth nat nat sigma_ex, @rs_val nat nat sigma_ex, @rs_ver nat nat sigma_ex,
                    @sval nat nat (@subs nat nat sigma_ex 1), @sval nat nat (@subs nat nat sigma_ex 2),
                    @qe nat nat sigma_ex, @cq nat nat (@subs nat nat sigma_ex 1), @cq nat nat (@subs nat nat sigma_ex 2),
                    @eq nat nat (@subs nat nat sigma_ex 1), @eq nat nat (@subs nat nat sigma_ex 2)).
