(* Feasibility sketch for C01: one cached resource, any number of subscribers, all interleavings.
   Mirrors: rescache handleEvent (version stamp, bump on update, fan-out), GetModel snapshot under the lock,
   Subscription.Loaded / Event / processEvent (version filter) / queueEvents / unqueueEvents (partial drain),
   FIFO eventSub queue and FIFO connection queue, and a consistent service. *)
From Coq Require Import List Arith Lia Bool.
Import ListNotations.

Section Conv.
Variables (val upd : Type) (app : upd -> val -> val) (norm : upd -> val -> option upd) (d : val).
Hypothesis norm_none : forall u v, norm u v = None -> app u v = v.
Hypothesis norm_some : forall u v u', norm u v = Some u' -> app u' v = app u v.

(* event as stamped by the cache: target version, and Some u for an update / None for a custom event *)
Record ev := { e_ver : nat; e_upd : option upd }.
Inductive citem := CLoaded | CEvent (e : ev)                  (* wsConn.queue items for one subscription *)
                 | CReacc.                                    (* a reaccess event: Subscription.reaccess, whatever the state *)
Inductive eitem := IEvent (u : upd) | ICustom | IGetResp (v : val) | IAddSub (s : nat)   (* EventSubscription.queue *)
                 | IRemSub (s : nat)   (* ResourceSubscription.Unsubscribe *)
                 | IReacc              (* a reaccess event of the service: passed on even before the resource is loaded *)
                 | INop (tag : nat).   (* a task that does not touch the resource: the answer to an access or call request
                                          passing through the resource's queue (Cache.sendRequest) *)

Record sub := { subscribed : bool; loaded : bool; sver : nat; sval : val; flag : bool;
                eq : list ev; sent : bool; cq : list citem;
                gone : bool;        (* Subscription.state == stateDisposed *)
                closed : bool }.    (* the connection is disposing: wsConn.Enqueue refuses new tasks *)
Record st := { truth : val; answered : bool; qe : list eitem;
               rs_loaded : bool; rs_val : val; rs_ver : nat; rs_subs : list nat; subs : nat -> sub }.

Definition sub0 : sub := {| subscribed := false; loaded := false; sver := 0; sval := d; flag := true;
                            eq := []; sent := false; cq := []; gone := false; closed := false |}.
Definition init (t : val) : st :=
  {| truth := t; answered := false; qe := []; rs_loaded := false; rs_val := d; rs_ver := 0;
     rs_subs := []; subs := fun _ => sub0 |}.

Definition set_sub (f : nat -> sub) (s : nat) (x : sub) : nat -> sub := fun s' => if Nat.eqb s' s then x else f s'.
Definition push_c (x : sub) (i : citem) : sub :=
  {| subscribed := subscribed x; loaded := loaded x; sver := sver x; sval := sval x; flag := flag x;
     eq := eq x; sent := sent x; cq := cq x ++ [i]; gone := gone x; closed := closed x |}.
Definition mem (s : nat) (l : list nat) : bool := existsb (Nat.eqb s) l.
(* fan-out to the subscribers; a closing connection refuses the task (wsConn.Enqueue returns false) *)
Definition push_all (f : nat -> sub) (l : list nat) (i : citem) : nat -> sub :=
  fun s => if mem s l && negb (closed (f s)) then push_c (f s) i else f s.
(* Subscription.Loaded on a closing connection: the subscriber is released at once *)
Definition refused (f : nat -> sub) (l : list nat) : list eitem :=
  map IRemSub (filter (fun s => closed (f s)) l).
Fixpoint remove_sub (s : nat) (l : list nat) : list nat :=
  match l with [] => [] | s' :: r => if Nat.eqb s' s then remove_sub s r else s' :: remove_sub s r end.
(* Subscription.Dispose (and wsConn.dispose when [cl]) *)
Definition dispose (x : sub) (cl : bool) : sub :=
  {| subscribed := subscribed x; loaded := false; sver := sver x; sval := sval x; flag := flag x;
     eq := []; sent := sent x; cq := cq x; gone := true; closed := closed x || cl |}.

(* Subscription.processEvent *)
Definition proc (p : nat * val) (e : ev) : nat * val :=
  let '(ver, v) := p in
  if Nat.eqb ver (e_ver e) then
    match e_upd e with Some u => (S ver, app u v) | None => (ver, v) end
  else (ver, v).
Definition replay (p : nat * val) (l : list ev) : nat * val := fold_left proc l p.

Inductive action :=
| SvcUpdate (u : upd) | SvcCustom | SvcAnswer
| SvcNop (tag : nat)         (* an answer routed through the resource's queue *)
| SvcReacc                   (* the service emits a reaccess event *)
| Subscribe (s : nat)
| Dispose (s : nat) (cl : bool) (* the subscription is disposed (request failed / access denied); with cl the whole connection closes *)
| RunE                       (* cache worker executes the head of the resource queue *)
| RunC (s : nat)             (* connection worker executes the head item for subscription s *)
| Respond (s : nat) (c : nat)(* OnReady callback: send snapshot, ReleaseRPCResources, drain up to a cut *)
| Unqueue (s : nat) (c : nat)(* unqueueEvents, draining c events before queueing restarts (or all) *)
| StartQueue (s : nat).      (* queueEvents *)

Definition evs (q : list citem) : list ev :=
  flat_map (fun i => match i with CEvent e => [e] | CLoaded | CReacc => [] end) q.

Definition with_sub (x : sub) ver v fl q snt : sub :=
  {| subscribed := subscribed x; loaded := loaded x; sver := ver; sval := v; flag := fl;
     eq := q; sent := snt; cq := cq x; gone := gone x; closed := closed x |}.

(* drain the first c queued events; if some remain queueing is on again *)
Definition drain (x : sub) (c : nat) : sub :=
  let done := firstn c (eq x) in
  let rest := skipn c (eq x) in
  let '(ver, v) := replay (sver x, sval x) done in
  with_sub x ver v (match rest with [] => false | _ => true end) rest (sent x).

Definition step (σ : st) (a : action) : st :=
  match a with
  | SvcUpdate u =>
      {| truth := app u (truth σ); answered := answered σ; qe := qe σ ++ [IEvent u];
         rs_loaded := rs_loaded σ; rs_val := rs_val σ; rs_ver := rs_ver σ; rs_subs := rs_subs σ; subs := subs σ |}
  | SvcCustom =>
      {| truth := truth σ; answered := answered σ; qe := qe σ ++ [ICustom];
         rs_loaded := rs_loaded σ; rs_val := rs_val σ; rs_ver := rs_ver σ; rs_subs := rs_subs σ; subs := subs σ |}
  | SvcAnswer =>
      if answered σ then σ else
      {| truth := truth σ; answered := true; qe := qe σ ++ [IGetResp (truth σ)];
         rs_loaded := rs_loaded σ; rs_val := rs_val σ; rs_ver := rs_ver σ; rs_subs := rs_subs σ; subs := subs σ |}
  | SvcReacc =>
      {| truth := truth σ; answered := answered σ; qe := qe σ ++ [IReacc];
         rs_loaded := rs_loaded σ; rs_val := rs_val σ; rs_ver := rs_ver σ; rs_subs := rs_subs σ; subs := subs σ |}
  | SvcNop n =>
      {| truth := truth σ; answered := answered σ; qe := qe σ ++ [INop n];
         rs_loaded := rs_loaded σ; rs_val := rs_val σ; rs_ver := rs_ver σ; rs_subs := rs_subs σ; subs := subs σ |}
  | Subscribe s =>
      if subscribed (subs σ s) then σ else
      let x := subs σ s in
      let x' := {| subscribed := true; loaded := loaded x; sver := sver x; sval := sval x; flag := flag x;
                   eq := eq x; sent := sent x; cq := cq x; gone := gone x; closed := closed x |} in
      {| truth := truth σ; answered := answered σ; qe := qe σ ++ [IAddSub s];
         rs_loaded := rs_loaded σ; rs_val := rs_val σ; rs_ver := rs_ver σ; rs_subs := rs_subs σ;
         subs := set_sub (subs σ) s x' |}
  | Dispose s cl =>
      let x := subs σ s in
      if gone x then
        (if cl then {| truth := truth σ; answered := answered σ; qe := qe σ; rs_loaded := rs_loaded σ; rs_val := rs_val σ;
                       rs_ver := rs_ver σ; rs_subs := rs_subs σ; subs := set_sub (subs σ) s (dispose x true) |} else σ)
      else
      {| truth := truth σ; answered := answered σ;
         qe := if loaded x then qe σ ++ [IRemSub s] else qe σ;
         rs_loaded := rs_loaded σ; rs_val := rs_val σ; rs_ver := rs_ver σ; rs_subs := rs_subs σ;
         subs := set_sub (subs σ) s (dispose x cl) |}
  | RunE =>
      match qe σ with
      | [] => σ
      | IGetResp v :: q =>
          {| truth := truth σ; answered := answered σ; qe := q ++ refused (subs σ) (rs_subs σ);
             rs_loaded := true; rs_val := v; rs_ver := 0; rs_subs := rs_subs σ;
             subs := push_all (subs σ) (rs_subs σ) CLoaded |}
      | IAddSub s :: q =>
          {| truth := truth σ; answered := answered σ;
             qe := if rs_loaded σ && closed (subs σ s) then q ++ [IRemSub s] else q;
             rs_loaded := rs_loaded σ; rs_val := rs_val σ; rs_ver := rs_ver σ; rs_subs := s :: rs_subs σ;
             subs := if rs_loaded σ && negb (closed (subs σ s)) then set_sub (subs σ) s (push_c (subs σ s) CLoaded) else subs σ |}
      | IRemSub s :: q =>
          {| truth := truth σ; answered := answered σ; qe := q;
             rs_loaded := rs_loaded σ; rs_val := rs_val σ; rs_ver := rs_ver σ; rs_subs := remove_sub s (rs_subs σ);
             subs := subs σ |}
      | IEvent u :: q =>
          if rs_loaded σ then
            match norm u (rs_val σ) with
            | None => {| truth := truth σ; answered := answered σ; qe := q;
                         rs_loaded := rs_loaded σ; rs_val := rs_val σ; rs_ver := rs_ver σ; rs_subs := rs_subs σ; subs := subs σ |}
            | Some u' =>
                {| truth := truth σ; answered := answered σ; qe := q;
                   rs_loaded := true; rs_val := app u (rs_val σ); rs_ver := S (rs_ver σ); rs_subs := rs_subs σ;
                   subs := push_all (subs σ) (rs_subs σ) (CEvent {| e_ver := rs_ver σ; e_upd := Some u' |}) |}
            end
          else {| truth := truth σ; answered := answered σ; qe := q;
                  rs_loaded := rs_loaded σ; rs_val := rs_val σ; rs_ver := rs_ver σ; rs_subs := rs_subs σ; subs := subs σ |}
      | INop _ :: q =>
          {| truth := truth σ; answered := answered σ; qe := q;
             rs_loaded := rs_loaded σ; rs_val := rs_val σ; rs_ver := rs_ver σ; rs_subs := rs_subs σ; subs := subs σ |}
      | IReacc :: q =>
          {| truth := truth σ; answered := answered σ; qe := q;
             rs_loaded := rs_loaded σ; rs_val := rs_val σ; rs_ver := rs_ver σ; rs_subs := rs_subs σ;
             subs := push_all (subs σ) (rs_subs σ) CReacc |}
      | ICustom :: q =>
          {| truth := truth σ; answered := answered σ; qe := q;
             rs_loaded := rs_loaded σ; rs_val := rs_val σ; rs_ver := rs_ver σ; rs_subs := rs_subs σ;
             subs := if rs_loaded σ
                     then push_all (subs σ) (rs_subs σ) (CEvent {| e_ver := rs_ver σ; e_upd := None |})
                     else subs σ |}
      end
  | RunC s =>
      let x := subs σ s in
      match cq x with
      | [] => σ
      | CLoaded :: q =>
          if gone x then
            (* disposed before it was loaded: release the subscriber now *)
            {| truth := truth σ; answered := answered σ; qe := qe σ ++ [IRemSub s]; rs_loaded := rs_loaded σ; rs_val := rs_val σ;
               rs_ver := rs_ver σ; rs_subs := rs_subs σ;
               subs := set_sub (subs σ) s {| subscribed := subscribed x; loaded := false; sver := sver x; sval := sval x; flag := flag x;
                                             eq := eq x; sent := sent x; cq := q; gone := gone x; closed := closed x |} |}
          else
          (* Loaded + setModel: snapshot value and version together, start queueing *)
          let x' := {| subscribed := subscribed x; loaded := true; sver := rs_ver σ; sval := rs_val σ; flag := true;
                       eq := []; sent := false; cq := q; gone := gone x; closed := closed x |} in
          {| truth := truth σ; answered := answered σ; qe := qe σ; rs_loaded := rs_loaded σ; rs_val := rs_val σ;
             rs_ver := rs_ver σ; rs_subs := rs_subs σ; subs := set_sub (subs σ) s x' |}
      | CReacc :: q =>
          {| truth := truth σ; answered := answered σ; qe := qe σ; rs_loaded := rs_loaded σ; rs_val := rs_val σ;
             rs_ver := rs_ver σ; rs_subs := rs_subs σ;
             subs := set_sub (subs σ) s {| subscribed := subscribed x; loaded := loaded x; sver := sver x; sval := sval x; flag := flag x;
                                           eq := eq x; sent := sent x; cq := q; gone := gone x; closed := closed x |} |}
      | CEvent e :: q =>
          let x' :=
            if negb (loaded x) then                       (* resourceSub == nil: discard *)
              {| subscribed := subscribed x; loaded := false; sver := sver x; sval := sval x; flag := flag x;
                 eq := eq x; sent := sent x; cq := q; gone := gone x; closed := closed x |}
            else if flag x then                           (* queueFlag != 0: hold *)
              {| subscribed := subscribed x; loaded := true; sver := sver x; sval := sval x; flag := true;
                 eq := eq x ++ [e]; sent := sent x; cq := q; gone := gone x; closed := closed x |}
            else
              let '(ver, v) := proc (sver x, sval x) e in
              {| subscribed := subscribed x; loaded := true; sver := ver; sval := v; flag := false;
                 eq := eq x; sent := sent x; cq := q; gone := gone x; closed := closed x |} in
          {| truth := truth σ; answered := answered σ; qe := qe σ; rs_loaded := rs_loaded σ; rs_val := rs_val σ;
             rs_ver := rs_ver σ; rs_subs := rs_subs σ; subs := set_sub (subs σ) s x' |}
      end
  | Respond s c =>
      let x := subs σ s in
      if loaded x && negb (sent x) then
        let x1 := with_sub x (sver x) (sval x) (flag x) (eq x) true in
        {| truth := truth σ; answered := answered σ; qe := qe σ; rs_loaded := rs_loaded σ; rs_val := rs_val σ;
           rs_ver := rs_ver σ; rs_subs := rs_subs σ; subs := set_sub (subs σ) s (drain x1 c) |}
      else σ
  | Unqueue s c =>
      let x := subs σ s in
      if loaded x && sent x && flag x then
        {| truth := truth σ; answered := answered σ; qe := qe σ; rs_loaded := rs_loaded σ; rs_val := rs_val σ;
           rs_ver := rs_ver σ; rs_subs := rs_subs σ; subs := set_sub (subs σ) s (drain x c) |}
      else σ
  | StartQueue s =>
      let x := subs σ s in
      if loaded x && sent x then
        {| truth := truth σ; answered := answered σ; qe := qe σ; rs_loaded := rs_loaded σ; rs_val := rs_val σ;
           rs_ver := rs_ver σ; rs_subs := rs_subs σ;
           subs := set_sub (subs σ) s (with_sub x (sver x) (sval x) true (eq x) (sent x)) |}
      else σ
  end.

Definition run (t : val) (acts : list action) : st := fold_left step acts (init t).

(* ---------------- invariant ---------------- *)
Definition pstep (b : option val) (i : eitem) : option val :=
  match i with IGetResp v => Some v | IEvent u => option_map (app u) b | _ => b end.
Definition pend (q : list eitem) (b : option val) : option val := fold_left pstep q b.

Definition b2n (b : bool) : nat := if b then 1 else 0.
Definition is_get (i : eitem) := match i with IGetResp _ => true | _ => false end.
Definition is_add (s : nat) (i : eitem) := match i with IAddSub s' => Nat.eqb s' s | _ => false end.
Definition is_ld (i : citem) := match i with CLoaded => true | _ => false end.
Definition cnt {A} (f : A -> bool) (l : list A) := length (filter f l).
Definition is_rem (s : nat) (i : eitem) := match i with IRemSub s' => Nat.eqb s' s | _ => false end.

(* The life of subscription s on the cache side: IAddSub s pending in qe -> member of rs_subs ->
   (IRemSub s pending in qe, still a member) -> removed.  i3/i3g account for the first two stages, and i4 says that
   for a member of a loaded resource exactly one of these holds: its CLoaded is still in its connection queue, it is
   loaded, or its release IRemSub is pending in qe. *)
Record Inv (σ : st) : Prop := {
  i1 : pend (qe σ) (if rs_loaded σ then Some (rs_val σ) else None) = (if answered σ then Some (truth σ) else None);
  i2 : cnt is_get (qe σ) + b2n (rs_loaded σ) = b2n (answered σ);
  i3 : forall s, gone (subs σ s) = false ->
         cnt (is_add s) (qe σ) + b2n (mem s (rs_subs σ)) = b2n (subscribed (subs σ s));
  i3g : forall s, cnt (is_add s) (qe σ) + b2n (mem s (rs_subs σ)) <= b2n (subscribed (subs σ s));
  i4 : forall s, cnt is_ld (cq (subs σ s)) + b2n (loaded (subs σ s)) + cnt (is_rem s) (qe σ)
                 = b2n (mem s (rs_subs σ) && rs_loaded σ);
  i5 : forall s, loaded (subs σ s) = true ->
         replay (sver (subs σ s), sval (subs σ s)) (eq (subs σ s) ++ evs (cq (subs σ s))) = (rs_ver σ, rs_val σ);
  i6 : forall s e, In e (evs (cq (subs σ s))) -> e_upd e <> None -> e_ver e < rs_ver σ;
  i7 : forall s, loaded (subs σ s) = false -> eq (subs σ s) = [];
  i8 : forall s, flag (subs σ s) = false -> eq (subs σ s) = [];
  (* before the resource is loaded a connection queue holds nothing but reaccess events *)
  i9 : rs_loaded σ = false -> forall s, evs (cq (subs σ s)) = [] /\ cnt is_ld (cq (subs σ s)) = 0;
  igl : forall s, gone (subs σ s) = true -> loaded (subs σ s) = false;
  icg : forall s, closed (subs σ s) = true -> gone (subs σ s) = true;
  irm : forall s, gone (subs σ s) = false -> cnt (is_rem s) (qe σ) = 0;
  ind : NoDup (rs_subs σ)
}.

Lemma cnt_app {A} (f : A -> bool) l1 l2 : cnt f (l1 ++ l2) = cnt f l1 + cnt f l2.
Proof. unfold cnt. rewrite filter_app, app_length. reflexivity. Qed.
Lemma cnt_cons {A} (f : A -> bool) a l : cnt f (a :: l) = b2n (f a) + cnt f l.
Proof. unfold cnt. cbn [filter]. destruct (f a); reflexivity. Qed.
Lemma pend_app q i b : pend (q ++ [i]) b = pstep (pend q b) i.
Proof. unfold pend. rewrite fold_left_app. reflexivity. Qed.
Lemma pend_app' q1 q2 b : pend (q1 ++ q2) b = pend q2 (pend q1 b).
Proof. unfold pend. apply fold_left_app. Qed.
Lemma replay_app p l1 l2 : replay p (l1 ++ l2) = replay (replay p l1) l2.
Proof. unfold replay. apply fold_left_app. Qed.
Lemma evs_app q1 q2 : evs (q1 ++ q2) = evs q1 ++ evs q2.
Proof. unfold evs. apply flat_map_app. Qed.

Lemma set_sub_eq f s x : set_sub f s x s = x.
Proof. unfold set_sub. rewrite Nat.eqb_refl. reflexivity. Qed.
Lemma set_sub_neq f s x s' : s' <> s -> set_sub f s x s' = f s'.
Proof. unfold set_sub. intros H. apply Nat.eqb_neq in H. rewrite H. reflexivity. Qed.

(* ---- membership, removal, refused releases ---- *)
Lemma mem_cons s s0 l : mem s (s0 :: l) = Nat.eqb s s0 || mem s l.
Proof. reflexivity. Qed.
Lemma mem_In s l : mem s l = true <-> In s l.
Proof.
  unfold mem. rewrite existsb_exists. split.
  - intros (x & Hx & E). apply Nat.eqb_eq in E. subst. exact Hx.
  - intros H. exists s. split; [exact H|apply Nat.eqb_refl].
Qed.
Lemma mem_remove_same s l : mem s (remove_sub s l) = false.
Proof.
  induction l as [|a l IH]; [reflexivity|]. cbn [remove_sub]. destruct (Nat.eqb a s) eqn:E; [exact IH|].
  rewrite mem_cons, IH, Nat.eqb_sym, E. reflexivity.
Qed.
Lemma mem_remove_other s s0 l : s <> s0 -> mem s (remove_sub s0 l) = mem s l.
Proof.
  intros Hne. induction l as [|a l IH]; [reflexivity|]. cbn [remove_sub]. destruct (Nat.eqb a s0) eqn:E.
  - apply Nat.eqb_eq in E. subst a. rewrite mem_cons.
    assert (E : Nat.eqb s s0 = false) by (apply Nat.eqb_neq; exact Hne). rewrite E. exact IH.
  - rewrite !mem_cons, IH. reflexivity.
Qed.
Lemma In_remove s s0 l : In s (remove_sub s0 l) -> In s l.
Proof.
  induction l as [|a l IH]; cbn [remove_sub]; [auto|]. destruct (Nat.eqb a s0); intros H.
  - right. auto.
  - destruct H as [H|H]; [left; exact H|right; auto].
Qed.
Lemma NoDup_remove s l : NoDup l -> NoDup (remove_sub s l).
Proof.
  induction 1 as [|a l Hn Hd IH]; cbn [remove_sub]; [constructor|]. destruct (Nat.eqb a s); [exact IH|].
  constructor; [|exact IH]. intros Hin. apply Hn. eapply In_remove; exact Hin.
Qed.

Lemma cnt_refused_rem f l s : NoDup l -> cnt (is_rem s) (refused f l) = b2n (mem s l && closed (f s)).
Proof.
  unfold refused. induction 1 as [|a l Hn Hd IH]; [reflexivity|].
  cbn [filter]. rewrite mem_cons. destruct (Nat.eqb_spec s a) as [->|Hne].
  - assert (Hm : mem a l = false). { destruct (mem a l) eqn:E; [|reflexivity]. apply mem_In in E. contradiction. }
    rewrite Hm in IH. cbn [orb andb] in *. destruct (closed (f a)) eqn:Ec.
    + cbn [map]. rewrite cnt_cons, IH. cbn [is_rem]. rewrite Nat.eqb_refl. reflexivity.
    + exact IH.
  - cbn [orb]. destruct (closed (f a)).
    + cbn [map]. rewrite cnt_cons, IH. cbn [is_rem].
      assert (E : Nat.eqb a s = false) by (apply Nat.eqb_neq; congruence). rewrite E. reflexivity.
    + exact IH.
Qed.
Lemma cnt_refused_0 (g : eitem -> bool) f l : (forall s, g (IRemSub s) = false) -> cnt g (refused f l) = 0.
Proof.
  intros Hg. unfold refused. induction (filter (fun s => closed (f s)) l) as [|a r IH]; [reflexivity|].
  cbn [map]. rewrite cnt_cons, Hg. exact IH.
Qed.
Lemma pend_refused f l b : pend (refused f l) b = b.
Proof.
  unfold refused, pend. induction (filter (fun s => closed (f s)) l) as [|a r IH]; [reflexivity|]. cbn. exact IH.
Qed.

Lemma init_inv t : Inv (init t).
Proof.
  constructor; cbn; intros; try reflexivity; try discriminate; try contradiction; try lia; try apply NoDup_nil.
  split; reflexivity.
Qed.

(* replaying events that all target an older version changes nothing *)
Lemma replay_stale : forall l n v,
  (forall e, In e l -> e_upd e <> None -> e_ver e < n) -> replay (n, v) l = (n, v).
Proof.
  induction l as [|e l IH]; intros n v H; [reflexivity|].
  unfold replay in *. cbn [fold_left]. unfold proc at 2.
  destruct (Nat.eqb_spec n (e_ver e)) as [E|E].
  - destruct (e_upd e) eqn:Eu.
    + exfalso. assert (e_ver e < n) by (apply H; [left; reflexivity|congruence]). lia.
    + apply IH. intros e' Hin. apply H. right; assumption.
  - apply IH. intros e' Hin. apply H. right; assumption.
Qed.

Ltac inv_fields H :=
  destruct H as [H1 H2 H3 H3g H4 H5 H6 H7 H8 H9 Hgl Hcg Hrm Hnd].

Lemma b2n_le b : b2n b <= 1. Proof. destruct b; cbn; lia. Qed.

(* ---- service and subscribe actions: only the resource queue grows ---- *)
Lemma inv_svc_update σ u : Inv σ -> Inv (step σ (SvcUpdate u)).
Proof.
  intros H; inv_fields H. constructor; cbn -[pend cnt replay evs mem]; auto.
  - rewrite pend_app, H1. destruct (answered σ); reflexivity.
  - rewrite cnt_app. cbn. lia.
  - intros s Hg. rewrite cnt_app. cbn. specialize (H3 s Hg). lia.
  - intros s. rewrite cnt_app. cbn. specialize (H3g s). lia.
  - intros s. rewrite cnt_app. cbn. specialize (H4 s). lia.
  - intros s Hg. rewrite cnt_app. cbn. specialize (Hrm s Hg). lia.
Qed.

Lemma inv_svc_custom σ : Inv σ -> Inv (step σ SvcCustom).
Proof.
  intros H; inv_fields H. constructor; cbn -[pend cnt replay evs mem]; auto.
  - rewrite pend_app, H1. reflexivity.
  - rewrite cnt_app. cbn. lia.
  - intros s Hg. rewrite cnt_app. cbn. specialize (H3 s Hg). lia.
  - intros s. rewrite cnt_app. cbn. specialize (H3g s). lia.
  - intros s. rewrite cnt_app. cbn. specialize (H4 s). lia.
  - intros s Hg. rewrite cnt_app. cbn. specialize (Hrm s Hg). lia.
Qed.

Lemma inv_svc_nop σ n : Inv σ -> Inv (step σ (SvcNop n)).
Proof.
  intros H; inv_fields H. constructor; cbn -[pend cnt replay evs mem]; auto.
  - rewrite pend_app, H1. reflexivity.
  - rewrite cnt_app. cbn. lia.
  - intros s Hg. rewrite cnt_app. cbn. specialize (H3 s Hg). lia.
  - intros s. rewrite cnt_app. cbn. specialize (H3g s). lia.
  - intros s. rewrite cnt_app. cbn. specialize (H4 s). lia.
  - intros s Hg. rewrite cnt_app. cbn. specialize (Hrm s Hg). lia.
Qed.

Lemma inv_svc_reacc σ : Inv σ -> Inv (step σ SvcReacc).
Proof.
  intros H; inv_fields H. constructor; cbn -[pend cnt replay evs mem]; auto.
  - rewrite pend_app, H1. reflexivity.
  - rewrite cnt_app. cbn. lia.
  - intros s Hg. rewrite cnt_app. cbn. specialize (H3 s Hg). lia.
  - intros s. rewrite cnt_app. cbn. specialize (H3g s). lia.
  - intros s. rewrite cnt_app. cbn. specialize (H4 s). lia.
  - intros s Hg. rewrite cnt_app. cbn. specialize (Hrm s Hg). lia.
Qed.

Lemma inv_svc_answer σ : Inv σ -> Inv (step σ SvcAnswer).
Proof.
  intros H. cbn [step]. destruct (answered σ) eqn:Ea; [assumption|].
  inv_fields H. rewrite Ea in *. constructor; cbn -[pend cnt replay evs mem]; auto.
  - rewrite pend_app. reflexivity.
  - rewrite cnt_app. change (cnt is_get [IGetResp (truth σ)]) with 1. cbn [b2n] in *. lia.
  - intros s Hg. rewrite cnt_app. cbn. specialize (H3 s Hg). lia.
  - intros s. rewrite cnt_app. cbn. specialize (H3g s). lia.
  - intros s. rewrite cnt_app. cbn. specialize (H4 s). lia.
  - intros s Hg. rewrite cnt_app. cbn. specialize (Hrm s Hg). lia.
Qed.

Ltac at_sub s s0 :=
  destruct (Nat.eq_dec s s0) as [->|Hne]; [rewrite set_sub_eq|rewrite set_sub_neq by assumption].

Lemma inv_subscribe σ s0 : Inv σ -> Inv (step σ (Subscribe s0)).
Proof.
  intros H. cbn [step]. destruct (subscribed (subs σ s0)) eqn:Es; [assumption|].
  inv_fields H.
  assert (Hadd : forall s, cnt (is_add s) [IAddSub s0 : eitem] = b2n (Nat.eqb s0 s)).
  { intros s. rewrite cnt_cons. cbn. lia. }
  pose proof (H3g s0) as H3s. rewrite Es in H3s. cbn [b2n] in H3s.
  constructor; cbn -[pend cnt replay evs mem set_sub]; auto.
  - rewrite pend_app, H1. reflexivity.
  - rewrite cnt_app. cbn. lia.
  - intros s. rewrite cnt_app, Hadd. at_sub s s0; cbn [gone subscribed]; intros Hg.
    + rewrite Nat.eqb_refl. cbn [b2n]. lia.
    + assert (E : Nat.eqb s0 s = false) by (apply Nat.eqb_neq; congruence). rewrite E. cbn [b2n]. specialize (H3 s Hg). lia.
  - intros s. rewrite cnt_app, Hadd. at_sub s s0; cbn [subscribed].
    + rewrite Nat.eqb_refl. cbn [b2n]. lia.
    + assert (E : Nat.eqb s0 s = false) by (apply Nat.eqb_neq; congruence). rewrite E. cbn [b2n]. specialize (H3g s). lia.
  - intros s. rewrite cnt_app. replace (cnt (is_rem s) [IAddSub s0]) with 0 by reflexivity.
    at_sub s s0; cbn [cq loaded]; [specialize (H4 s0)|specialize (H4 s)]; lia.
  - intros s. at_sub s s0; apply H5.
  - intros s. at_sub s s0; apply H6.
  - intros s. at_sub s s0; apply H7.
  - intros s. at_sub s s0; apply H8.
  - intros Hl s. at_sub s s0; apply H9; assumption.
  - intros s. at_sub s s0; apply Hgl.
  - intros s. at_sub s s0; apply Hcg.
  - intros s. rewrite cnt_app. replace (cnt (is_rem s) [IAddSub s0]) with 0 by reflexivity.
    at_sub s s0; cbn [gone]; intros Hg; [specialize (Hrm s0 Hg)|specialize (Hrm s Hg)]; lia.
Qed.

(* ---- general single-subscription update, possibly enqueueing the release of that subscription ---- *)
Definition with_subs_q (σ : st) (q : list eitem) (f : nat -> sub) : st :=
  {| truth := truth σ; answered := answered σ; qe := q; rs_loaded := rs_loaded σ; rs_val := rs_val σ;
     rs_ver := rs_ver σ; rs_subs := rs_subs σ; subs := f |}.
Definition with_subs (σ : st) (f : nat -> sub) : st := with_subs_q σ (qe σ) f.

Lemma upd_inv σ s0 x' (k : bool) : Inv σ ->
  subscribed x' = subscribed (subs σ s0) ->
  cnt is_ld (cq x') + b2n (loaded x') + b2n k = cnt is_ld (cq (subs σ s0)) + b2n (loaded (subs σ s0)) ->
  (loaded x' = true -> replay (sver x', sval x') (eq x' ++ evs (cq x')) = (rs_ver σ, rs_val σ)) ->
  (forall e, In e (evs (cq x')) -> In e (evs (cq (subs σ s0)))) ->
  (loaded x' = false -> eq x' = []) -> (flag x' = false -> eq x' = []) ->
  (gone (subs σ s0) = true -> gone x' = true) ->
  (closed x' = true -> gone x' = true) ->
  (gone x' = true -> loaded x' = false) ->
  (k = true -> gone x' = true) ->
  Inv (with_subs_q σ (if k then qe σ ++ [IRemSub s0] else qe σ) (set_sub (subs σ) s0 x')).
Proof.
  intros H Hs Hc Hr Hi He Hf Hmono Hcg' Hgl' Hk. inv_fields H.
  assert (H0 : rs_loaded σ = false -> evs (cq x') = [] /\ cnt is_ld (cq x') = 0).
  { intros Hrl. destruct (H9 Hrl s0) as [Hev Hld]. pose proof (H4 s0) as H4s. rewrite Hrl, andb_false_r in H4s. cbn [b2n] in H4s.
    split; [|lia].
    destruct (evs (cq x')) as [|e r] eqn:Ee; [reflexivity|].
    specialize (Hi e (or_introl Logic.eq_refl)). rewrite Hev in Hi. contradiction. }
  assert (Hx : forall s, s <> s0 -> set_sub (subs σ) s0 x' s = subs σ s) by (intros; apply set_sub_neq; assumption).
  assert (Hy : set_sub (subs σ) s0 x' s0 = x') by apply set_sub_eq.
  set (q' := if k then qe σ ++ [IRemSub s0] else qe σ).
  assert (Qp : forall b, pend q' b = pend (qe σ) b).
  { intros b. unfold q'. destruct k; [rewrite pend_app|]; reflexivity. }
  assert (Qg : cnt is_get q' = cnt is_get (qe σ)).
  { unfold q'. destruct k; [rewrite cnt_app; cbn; lia|reflexivity]. }
  assert (Qa : forall s, cnt (is_add s) q' = cnt (is_add s) (qe σ)).
  { intros s. unfold q'. destruct k; [rewrite cnt_app; cbn; lia|reflexivity]. }
  assert (Qr0 : cnt (is_rem s0) q' = cnt (is_rem s0) (qe σ) + b2n k).
  { unfold q'. destruct k; [rewrite cnt_app, cnt_cons; cbn [is_rem]; rewrite Nat.eqb_refl; reflexivity|cbn; lia]. }
  assert (Qr : forall s, s <> s0 -> cnt (is_rem s) q' = cnt (is_rem s) (qe σ)).
  { intros s Hne. unfold q'. destruct k; [|reflexivity]. rewrite cnt_app, cnt_cons. cbn [is_rem].
    assert (E : Nat.eqb s0 s = false) by (apply Nat.eqb_neq; congruence). rewrite E. cbn. lia. }
  assert (Hgf : gone x' = false -> gone (subs σ s0) = false).
  { intros Hg. destruct (gone (subs σ s0)); [rewrite Hmono in Hg by reflexivity; discriminate|reflexivity]. }
  clearbody q'.
  constructor; cbn -[pend cnt replay evs mem set_sub]; auto.
  - rewrite Qp. exact H1.
  - rewrite Qg. exact H2.
  - intros s. rewrite Qa. destruct (Nat.eq_dec s s0) as [->|Hne]; [rewrite Hy, Hs|rewrite Hx by assumption].
    + intros Hg. apply H3, Hgf, Hg.
    + apply H3.
  - intros s. rewrite Qa. destruct (Nat.eq_dec s s0) as [->|Hne]; [rewrite Hy, Hs|rewrite Hx by assumption]; apply H3g.
  - intros s. destruct (Nat.eq_dec s s0) as [->|Hne]; [rewrite Hy, Qr0|rewrite Hx, Qr by assumption].
    + specialize (H4 s0). lia.
    + apply H4.
  - intros s. destruct (Nat.eq_dec s s0) as [->|Hne]; [rewrite Hy; exact Hr|rewrite Hx by assumption; apply H5].
  - intros s e. destruct (Nat.eq_dec s s0) as [->|Hne]; [rewrite Hy|rewrite Hx by assumption].
    + intros Hin. apply (H6 s0). apply Hi; assumption.
    + apply H6.
  - intros s. destruct (Nat.eq_dec s s0) as [->|Hne]; [rewrite Hy; exact He|rewrite Hx by assumption; apply H7].
  - intros s. destruct (Nat.eq_dec s s0) as [->|Hne]; [rewrite Hy; exact Hf|rewrite Hx by assumption; apply H8].
  - intros Hrl s. destruct (Nat.eq_dec s s0) as [->|Hne]; [rewrite Hy; auto|rewrite Hx by assumption; apply H9; assumption].
  - intros s. destruct (Nat.eq_dec s s0) as [->|Hne]; [rewrite Hy; exact Hgl'|rewrite Hx by assumption; apply Hgl].
  - intros s. destruct (Nat.eq_dec s s0) as [->|Hne]; [rewrite Hy; exact Hcg'|rewrite Hx by assumption; apply Hcg].
  - intros s. destruct (Nat.eq_dec s s0) as [->|Hne]; [rewrite Hy, Qr0|rewrite Hx, Qr by assumption].
    + intros Hg. destruct k; [rewrite Hk in Hg by reflexivity; discriminate|]. cbn [b2n]. rewrite (Hrm s0 (Hgf Hg)). reflexivity.
    + apply Hrm.
Qed.

(* ---- subscription-local actions ---- *)
Lemma local_inv σ s0 x' : Inv σ ->
  subscribed x' = subscribed (subs σ s0) -> loaded x' = loaded (subs σ s0) -> cq x' = cq (subs σ s0) ->
  gone x' = gone (subs σ s0) -> closed x' = closed (subs σ s0) ->
  (loaded (subs σ s0) = true ->
     replay (sver x', sval x') (eq x' ++ evs (cq x')) =
     replay (sver (subs σ s0), sval (subs σ s0)) (eq (subs σ s0) ++ evs (cq (subs σ s0)))) ->
  (loaded (subs σ s0) = false -> eq x' = []) ->
  (flag x' = false -> eq x' = []) ->
  Inv (with_subs σ (set_sub (subs σ) s0 x')).
Proof.
  intros H Hs Hl Hc Hg Hcl Hr He Hf. pose proof H as H'. inv_fields H'.
  apply (upd_inv σ s0 x' false H); try assumption.
  - rewrite Hc, Hl. cbn [b2n]. lia.
  - rewrite Hl. intros Hld. rewrite Hr by assumption. apply H5; assumption.
  - rewrite Hc. auto.
  - rewrite Hl. exact He.
  - rewrite Hg. auto.
  - rewrite Hcl, Hg. apply Hcg.
  - rewrite Hg, Hl. apply Hgl.
  - discriminate.
Qed.

Lemma drain_fields x c :
  subscribed (drain x c) = subscribed x /\ loaded (drain x c) = loaded x /\ cq (drain x c) = cq x /\
  (forall E, replay (sver (drain x c), sval (drain x c)) (eq (drain x c) ++ E) = replay (sver x, sval x) (eq x ++ E)) /\
  (eq x = [] -> eq (drain x c) = []) /\ (flag (drain x c) = false -> eq (drain x c) = []) /\
  gone (drain x c) = gone x /\ closed (drain x c) = closed x.
Proof.
  unfold drain. destruct (replay (sver x, sval x) (firstn c (eq x))) as [ver v] eqn:Er.
  cbn. repeat split; auto.
  - intros E. rewrite <- (firstn_skipn c (eq x)) at 2. rewrite <- app_assoc, replay_app, Er. reflexivity.
  - intros He. rewrite He. destruct c; reflexivity.
  - destruct (skipn c (eq x)); [reflexivity|discriminate].
Qed.

Lemma inv_unqueue σ s0 c : Inv σ -> Inv (step σ (Unqueue s0 c)).
Proof.
  intros H. cbn [step].
  destruct (loaded (subs σ s0) && sent (subs σ s0) && flag (subs σ s0)) eqn:E; [|assumption].
  destruct (drain_fields (subs σ s0) c) as (A & B & C & D & F & G & Gg & Gc).
  apply (local_inv σ s0 (drain (subs σ s0) c)); auto.
  - intros _. rewrite C. apply D.
  - intros Hl. apply F. destruct H. auto.
Qed.

Lemma inv_respond σ s0 c : Inv σ -> Inv (step σ (Respond s0 c)).
Proof.
  intros H. cbn [step].
  destruct (loaded (subs σ s0) && negb (sent (subs σ s0))) eqn:E; [|assumption].
  set (x1 := with_sub (subs σ s0) (sver (subs σ s0)) (sval (subs σ s0)) (flag (subs σ s0)) (eq (subs σ s0)) true).
  destruct (drain_fields x1 c) as (A & B & C & D & F & G & Gg & Gc).
  apply (local_inv σ s0 (drain x1 c)); auto.
  - intros _. rewrite C. apply D.
  - intros Hl. apply F. cbn. destruct H. auto.
Qed.

Lemma inv_startqueue σ s0 : Inv σ -> Inv (step σ (StartQueue s0)).
Proof.
  intros H. cbn [step].
  destruct (loaded (subs σ s0) && sent (subs σ s0)) eqn:E; [|assumption].
  apply (local_inv σ s0 (with_sub (subs σ s0) (sver (subs σ s0)) (sval (subs σ s0)) true (eq (subs σ s0)) (sent (subs σ s0)))); auto.
  - intros Hl. cbn. destruct H. auto.
  - cbn. discriminate.
Qed.

(* ---- Dispose ---- *)
Lemma inv_dispose σ s0 cl : Inv σ -> Inv (step σ (Dispose s0 cl)).
Proof.
  intros H. cbn [step]. pose proof H as H'. inv_fields H'.
  destruct (gone (subs σ s0)) eqn:Eg.
  - destruct cl; [|assumption].
    apply (upd_inv σ s0 (dispose (subs σ s0) true) false H); cbn [dispose subscribed loaded cq eq gone closed b2n];
      try reflexivity; try discriminate; auto.
    rewrite (Hgl s0 Eg). cbn [b2n]. lia.
  - apply (upd_inv σ s0 (dispose (subs σ s0) cl) (loaded (subs σ s0)) H); cbn [dispose subscribed loaded cq eq gone closed b2n];
      try reflexivity; try discriminate; auto; try lia.
Qed.

Lemma inv_runc σ s0 : Inv σ -> Inv (step σ (RunC s0)).
Proof.
  intros H. cbn [step]. pose proof H as H'. inv_fields H'.
  destruct (cq (subs σ s0)) as [|[|e|] q] eqn:Ecq; [assumption| | |].
  - (* Loaded *)
    pose proof (H4 s0) as H4s. rewrite Ecq, cnt_cons in H4s. cbn [is_ld b2n] in H4s.
    pose proof (b2n_le (mem s0 (rs_subs σ) && rs_loaded σ)).
    assert (Hl0 : loaded (subs σ s0) = false) by (destruct (loaded (subs σ s0)); cbn in *; [lia|reflexivity]).
    destruct (gone (subs σ s0)) eqn:Eg.
    + (* disposed meanwhile: release *)
      apply (upd_inv σ s0 _ true H); cbn [subscribed loaded cq eq gone closed flag sver sval b2n];
        try reflexivity; try discriminate; auto.
      * rewrite Ecq, cnt_cons, Hl0. cbn [is_ld b2n]. lia.
      * intros e Hin. rewrite Ecq. exact Hin.
    + (* snapshot *)
      apply (upd_inv σ s0 _ false H); cbn [subscribed loaded cq eq gone closed flag sver sval b2n];
        try reflexivity; try discriminate.
      * rewrite Ecq, cnt_cons, Hl0. cbn [is_ld b2n]. lia.
      * intros _. apply replay_stale. intros e Hin. apply (H6 s0). rewrite Ecq. exact Hin.
      * intros e Hin. rewrite Ecq. exact Hin.
      * rewrite Eg. discriminate.
      * intros Hc. rewrite (Hcg s0 Hc) in Eg. discriminate.
  - (* Event *)
    destruct (loaded (subs σ s0)) eqn:El; cbn [negb].
    + assert (Eg : gone (subs σ s0) = false).
      { destruct (gone (subs σ s0)) eqn:Eg; [|reflexivity]. rewrite (Hgl s0 Eg) in El. discriminate. }
      destruct (flag (subs σ s0)) eqn:Ef.
      * apply (upd_inv σ s0 _ false H); cbn [subscribed loaded cq eq gone closed flag sver sval b2n];
          try reflexivity; try discriminate.
        -- rewrite Ecq, cnt_cons, El. cbn [is_ld b2n]. lia.
        -- intros _. rewrite <- app_assoc. specialize (H5 s0 El). rewrite Ecq in H5. exact H5.
        -- intros e' Hin. rewrite Ecq. right. exact Hin.
        -- auto.
        -- apply Hcg.
        -- rewrite Eg. discriminate.
      * destruct (proc (sver (subs σ s0), sval (subs σ s0)) e) as [ver v] eqn:Ep.
        pose proof (H8 s0 Ef) as Heq0.
        apply (upd_inv σ s0 _ false H); cbn [subscribed loaded cq eq gone closed flag sver sval b2n];
          try reflexivity; try discriminate.
        -- rewrite Ecq, cnt_cons, El. cbn [is_ld b2n]. lia.
        -- intros _. specialize (H5 s0 El). rewrite Ecq, Heq0 in H5. rewrite Heq0.
           cbn [List.app] in *. unfold replay in *. cbn [evs flat_map List.app fold_left] in H5. rewrite Ep in H5. exact H5.
        -- intros e' Hin. rewrite Ecq. right. exact Hin.
        -- intros _. exact Heq0.
        -- auto.
        -- apply Hcg.
        -- rewrite Eg. discriminate.
    + apply (upd_inv σ s0 _ false H); cbn [subscribed loaded cq eq gone closed flag sver sval b2n];
        try reflexivity; try discriminate.
      * rewrite Ecq, cnt_cons, El. cbn [is_ld b2n]. lia.
      * intros e' Hin. rewrite Ecq. right. exact Hin.
      * intros _. apply H7; assumption.
      * apply H8.
      * auto.
      * apply Hcg.
  - (* Reaccess: the task is popped, nothing else changes *)
    apply (upd_inv σ s0 _ false H); cbn [subscribed loaded cq eq gone closed flag sver sval b2n];
      try reflexivity; try discriminate.
    + rewrite Ecq, cnt_cons. cbn [is_ld b2n]. lia.
    + intros Hl. specialize (H5 s0 Hl). rewrite Ecq in H5. exact H5.
    + intros e Hin. rewrite Ecq. exact Hin.
    + apply H7.
    + apply H8.
    + auto.
    + apply Hcg.
    + apply Hgl.
Qed.

(* ---- cache worker ---- *)
Lemma push_all_fields f l i s :
  subscribed (push_all f l i s) = subscribed (f s) /\ loaded (push_all f l i s) = loaded (f s) /\
  sver (push_all f l i s) = sver (f s) /\ sval (push_all f l i s) = sval (f s) /\
  flag (push_all f l i s) = flag (f s) /\ eq (push_all f l i s) = eq (f s) /\
  cq (push_all f l i s) = (if mem s l && negb (closed (f s)) then cq (f s) ++ [i] else cq (f s)) /\
  gone (push_all f l i s) = gone (f s) /\ closed (push_all f l i s) = closed (f s).
Proof. unfold push_all. destruct (mem s l && negb (closed (f s))); cbn; repeat split; reflexivity. Qed.

Lemma loaded_mem σ s : Inv σ -> loaded (subs σ s) = true -> mem s (rs_subs σ) = true /\ rs_loaded σ = true.
Proof.
  intros H Hl. pose proof (i4 _ H s) as H4. rewrite Hl in H4.
  destruct (mem s (rs_subs σ)), (rs_loaded σ); cbn in *; try lia; split; reflexivity.
Qed.

Lemma loaded_open σ s : Inv σ -> loaded (subs σ s) = true -> closed (subs σ s) = false.
Proof.
  intros H Hl. destruct (closed (subs σ s)) eqn:Ec; [|reflexivity].
  rewrite (igl _ H s (icg _ H s Ec)) in Hl. discriminate.
Qed.

Definition with_qe (σ : st) (q : list eitem) : st :=
  {| truth := truth σ; answered := answered σ; qe := q; rs_loaded := rs_loaded σ; rs_val := rs_val σ;
     rs_ver := rs_ver σ; rs_subs := rs_subs σ; subs := subs σ |}.

Lemma pop_inv σ i q : Inv σ -> qe σ = i :: q -> is_get i = false -> (forall s, is_add s i = false) ->
  (forall s, is_rem s i = false) ->
  pstep (if rs_loaded σ then Some (rs_val σ) else None) i = (if rs_loaded σ then Some (rs_val σ) else None) ->
  Inv (with_qe σ q).
Proof.
  intros H Eq Hg Ha Hr Hp. inv_fields H. rewrite Eq in *.
  constructor; cbn -[pend cnt replay evs mem]; auto.
  - unfold pend in *. cbn [fold_left] in H1. rewrite Hp in H1. exact H1.
  - rewrite cnt_cons, Hg in H2. exact H2.
  - intros s Hgn. specialize (H3 s Hgn). rewrite cnt_cons, Ha in H3. exact H3.
  - intros s. specialize (H3g s). rewrite cnt_cons, Ha in H3g. exact H3g.
  - intros s. specialize (H4 s). rewrite cnt_cons, Hr in H4. exact H4.
  - intros s Hgn. specialize (Hrm s Hgn). rewrite cnt_cons, Hr in Hrm. exact Hrm.
Qed.

(* an event applied to the loaded resource and fanned out to the subscribers *)
Lemma fanout_inv σ i q e v' n' : Inv σ -> qe σ = i :: q -> rs_loaded σ = true ->
  is_get i = false -> (forall s, is_add s i = false) -> (forall s, is_rem s i = false) ->
  pstep (Some (rs_val σ)) i = Some v' ->
  proc (rs_ver σ, rs_val σ) e = (n', v') -> rs_ver σ <= n' -> (e_upd e <> None -> e_ver e < n') ->
  Inv {| truth := truth σ; answered := answered σ; qe := q; rs_loaded := true; rs_val := v'; rs_ver := n';
         rs_subs := rs_subs σ; subs := push_all (subs σ) (rs_subs σ) (CEvent e) |}.
Proof.
  intros H Eq Erl Hget Hadd Hrem Hp Hproc Hle Hlt. pose proof H as H'. inv_fields H'.
  pose proof (push_all_fields (subs σ) (rs_subs σ) (CEvent e)) as PF.
  rewrite Eq, Erl in *.
  constructor; cbn -[pend cnt replay evs mem push_all].
  - unfold pend in *. cbn [fold_left] in H1. rewrite Hp in H1. exact H1.
  - rewrite cnt_cons, Hget in H2. exact H2.
  - intros s. destruct (PF s) as (A&_&_&_&_&_&_&Gg&_). rewrite A, Gg. intros Hgn.
    specialize (H3 s Hgn). rewrite cnt_cons, Hadd in H3. exact H3.
  - intros s. destruct (PF s) as (A&_). rewrite A. specialize (H3g s). rewrite cnt_cons, Hadd in H3g. exact H3g.
  - intros s. destruct (PF s) as (_&B&_&_&_&_&G&_). rewrite B, G. specialize (H4 s). rewrite cnt_cons, Hrem in H4. cbn [b2n] in H4.
    destruct (mem s (rs_subs σ) && negb (closed (subs σ s))); [rewrite cnt_app; change (cnt is_ld [CEvent e]) with 0|]; lia.
  - intros s. destruct (PF s) as (_&B&C&D&_&F&G&_). rewrite B, C, D, F, G. intros Hl.
    destruct (loaded_mem σ s H Hl) as [Hm _]. rewrite Hm, (loaded_open σ s H Hl). cbn [andb negb].
    rewrite evs_app, app_assoc, replay_app, (H5 s Hl). cbn [evs flat_map List.app]. unfold replay. cbn [fold_left]. exact Hproc.
  - intros s e0. destruct (PF s) as (_&_&_&_&_&_&G&_). rewrite G. destruct (mem s (rs_subs σ) && negb (closed (subs σ s))).
    + rewrite evs_app. intros Hin Hne. apply in_app_or in Hin as [Hin|Hin].
      * specialize (H6 s e0 Hin Hne). lia.
      * cbn in Hin. destruct Hin as [<-|[]]. apply Hlt, Hne.
    + intros Hin Hne. specialize (H6 s e0 Hin Hne). lia.
  - intros s. destruct (PF s) as (_&B&_&_&_&F&_). rewrite B, F. apply H7.
  - intros s. destruct (PF s) as (_&_&_&_&E&F&_). rewrite E, F. apply H8.
  - discriminate.
  - intros s. destruct (PF s) as (_&B&_&_&_&_&_&Gg&_). rewrite B, Gg. apply Hgl.
  - intros s. destruct (PF s) as (_&_&_&_&_&_&_&Gg&Gc). rewrite Gg, Gc. apply Hcg.
  - intros s. destruct (PF s) as (_&_&_&_&_&_&_&Gg&_). rewrite Gg. intros Hgn.
    specialize (Hrm s Hgn). rewrite cnt_cons, Hrem in Hrm. exact Hrm.
  - exact Hnd.
Qed.

(* a reaccess event fanned out to the subscribers, whether or not the resource is loaded: the item is neither an
   event nor a Loaded task, so nothing the invariant counts or replays changes *)
Lemma reacc_inv σ q : Inv σ -> qe σ = IReacc :: q ->
  Inv {| truth := truth σ; answered := answered σ; qe := q; rs_loaded := rs_loaded σ; rs_val := rs_val σ; rs_ver := rs_ver σ;
         rs_subs := rs_subs σ; subs := push_all (subs σ) (rs_subs σ) CReacc |}.
Proof.
  intros H Eq. pose proof H as H'. inv_fields H'.
  pose proof (push_all_fields (subs σ) (rs_subs σ) CReacc) as PF.
  assert (Hev : forall s, evs (cq (push_all (subs σ) (rs_subs σ) CReacc s)) = evs (cq (subs σ s))).
  { intros s. destruct (PF s) as (_&_&_&_&_&_&G&_). rewrite G.
    destruct (mem s (rs_subs σ) && negb (closed (subs σ s))); [|reflexivity].
    rewrite evs_app. cbn [evs flat_map]. apply app_nil_r. }
  assert (Hld : forall s, cnt is_ld (cq (push_all (subs σ) (rs_subs σ) CReacc s)) = cnt is_ld (cq (subs σ s))).
  { intros s. destruct (PF s) as (_&_&_&_&_&_&G&_). rewrite G.
    destruct (mem s (rs_subs σ) && negb (closed (subs σ s))); [|reflexivity].
    rewrite cnt_app. change (cnt is_ld [CReacc]) with 0. lia. }
  rewrite Eq in *.
  constructor; cbn -[pend cnt replay evs mem push_all].
  - unfold pend in *. cbn [fold_left pstep] in H1. exact H1.
  - rewrite cnt_cons in H2. exact H2.
  - intros s. destruct (PF s) as (A&_&_&_&_&_&_&Gg&_). rewrite A, Gg. intros Hgn.
    specialize (H3 s Hgn). rewrite cnt_cons in H3. exact H3.
  - intros s. destruct (PF s) as (A&_). rewrite A. specialize (H3g s). rewrite cnt_cons in H3g. exact H3g.
  - intros s. destruct (PF s) as (_&B&_). rewrite Hld, B. specialize (H4 s). rewrite cnt_cons in H4. exact H4.
  - intros s. destruct (PF s) as (_&B&C&D&_&F&_). rewrite Hev, B, C, D, F. apply H5.
  - intros s e. rewrite Hev. apply H6.
  - intros s. destruct (PF s) as (_&B&_&_&_&F&_). rewrite B, F. apply H7.
  - intros s. destruct (PF s) as (_&_&_&_&E&F&_). rewrite E, F. apply H8.
  - intros Hrl s. rewrite Hev, Hld. apply H9, Hrl.
  - intros s. destruct (PF s) as (_&B&_&_&_&_&_&Gg&_). rewrite B, Gg. apply Hgl.
  - intros s. destruct (PF s) as (_&_&_&_&_&_&_&Gg&Gc). rewrite Gg, Gc. apply Hcg.
  - intros s. destruct (PF s) as (_&_&_&_&_&_&_&Gg&_). rewrite Gg. intros Hgn.
    specialize (Hrm s Hgn). rewrite cnt_cons in Hrm. exact Hrm.
  - exact Hnd.
Qed.

Lemma inv_rune σ : Inv σ -> Inv (step σ RunE).
Proof.
  intros H. cbn [step]. pose proof H as H'. inv_fields H'.
  destruct (qe σ) as [|[u| |v|s0|s0| |n0] q] eqn:Eq; [assumption| | | | | | |].
  - (* resource event *)
    destruct (rs_loaded σ) eqn:Erl.
    + destruct (norm u (rs_val σ)) as [u'|] eqn:En.
      * (* applied: new version, fan out *)
        apply (fanout_inv σ (IEvent u) q {| e_ver := rs_ver σ; e_upd := Some u' |} (app u (rs_val σ)) (S (rs_ver σ)) H Eq Erl);
          try reflexivity.
        -- cbn. rewrite Nat.eqb_refl, (norm_some _ _ _ En). reflexivity.
        -- lia.
        -- cbn. lia.
      * (* no actual change *)
        match goal with |- Inv ?X => replace X with (with_qe σ q) by (unfold with_qe; rewrite Erl; reflexivity) end.
        apply (pop_inv σ (IEvent u) q H Eq); try reflexivity.
        rewrite Erl. cbn. rewrite (norm_none _ _ En). reflexivity.
    + (* not loaded: discarded *)
      match goal with |- Inv ?X => replace X with (with_qe σ q) by (unfold with_qe; rewrite Erl; reflexivity) end.
      apply (pop_inv σ (IEvent u) q H Eq); try reflexivity.
      rewrite Erl. reflexivity.
  - (* custom event *)
    destruct (rs_loaded σ) eqn:Erl.
    + apply (fanout_inv σ ICustom q {| e_ver := rs_ver σ; e_upd := None |} (rs_val σ) (rs_ver σ) H Eq Erl);
        try reflexivity.
      * cbn. rewrite Nat.eqb_refl. reflexivity.
      * cbn. congruence.
    + match goal with |- Inv ?X => replace X with (with_qe σ q) by (unfold with_qe; rewrite Erl; reflexivity) end.
      apply (pop_inv σ ICustom q H Eq); try reflexivity.
  - (* get response *)
    rewrite cnt_cons in H2. cbn [is_get b2n] in H2.
    pose proof (b2n_le (answered σ)).
    assert (Erl : rs_loaded σ = false) by (destruct (rs_loaded σ); cbn in *; [lia|reflexivity]).
    rewrite Erl in *. cbn [b2n] in H2.
    assert (Hcq : forall s, evs (cq (subs σ s)) = [] /\ cnt is_ld (cq (subs σ s)) = 0) by (apply H9; reflexivity).
    assert (Hz : forall s, loaded (subs σ s) = false /\ cnt (is_rem s) q = 0).
    { intros s. specialize (H4 s). rewrite andb_false_r, cnt_cons in H4. cbn [is_rem b2n] in H4.
      destruct (loaded (subs σ s)); cbn [b2n] in *; split; try reflexivity; lia. }
    pose proof (push_all_fields (subs σ) (rs_subs σ) CLoaded) as PF.
    constructor; cbn -[pend cnt replay evs mem push_all refused].
    + rewrite pend_app', pend_refused. unfold pend in *. cbn [fold_left pstep] in H1. exact H1.
    + rewrite cnt_app, cnt_refused_0 by (intros; reflexivity). cbn [b2n]. lia.
    + intros s. destruct (PF s) as (A&_&_&_&_&_&_&Gg&_). rewrite A, Gg. intros Hgn.
      rewrite cnt_app, cnt_refused_0 by (intros; reflexivity).
      specialize (H3 s Hgn). rewrite cnt_cons in H3. cbn [is_add b2n] in H3. lia.
    + intros s. destruct (PF s) as (A&_). rewrite A.
      rewrite cnt_app, cnt_refused_0 by (intros; reflexivity).
      specialize (H3g s). rewrite cnt_cons in H3g. cbn [is_add b2n] in H3g. lia.
    + intros s. destruct (PF s) as (_&B&_&_&_&_&G&_). rewrite B, G. destruct (Hz s) as [Hl Hr].
      destruct (Hcq s) as [_ Hld]. rewrite Hl, cnt_app, Hr, (cnt_refused_rem _ _ _ Hnd).
      destruct (mem s (rs_subs σ)), (closed (subs σ s)); cbn [andb negb]; rewrite ?cnt_app, Hld; reflexivity.
    + intros s. destruct (PF s) as (_&B&_). rewrite B. destruct (Hz s) as [Hl _]. rewrite Hl. discriminate.
    + intros s e. destruct (PF s) as (_&_&_&_&_&_&G&_).
      destruct (Hcq s) as [Hev _].
      rewrite G. destruct (mem s (rs_subs σ) && negb (closed (subs σ s))); rewrite ?evs_app, Hev; cbn; intros [].
    + intros s. destruct (PF s) as (_&B&_&_&_&F&_). rewrite B, F. apply H7.
    + intros s. destruct (PF s) as (_&_&_&_&E&F&_). rewrite E, F. apply H8.
    + discriminate.
    + intros s. destruct (PF s) as (_&B&_&_&_&_&_&Gg&_). rewrite B, Gg. apply Hgl.
    + intros s. destruct (PF s) as (_&_&_&_&_&_&_&Gg&Gc). rewrite Gg, Gc. apply Hcg.
    + intros s. destruct (PF s) as (_&_&_&_&_&_&_&Gg&_). rewrite Gg. intros Hgn.
      destruct (Hz s) as [_ Hr]. rewrite cnt_app, Hr, (cnt_refused_rem _ _ _ Hnd).
      assert (Hc : closed (subs σ s) = false).
      { destruct (closed (subs σ s)) eqn:Ec; [rewrite (Hcg s Ec) in Hgn; discriminate|reflexivity]. }
      rewrite Hc, andb_false_r. reflexivity.
    + exact Hnd.
  - (* add subscriber *)
    pose proof (H3g s0) as H3s. rewrite cnt_cons in H3s. cbn [is_add] in H3s. rewrite Nat.eqb_refl in H3s. cbn [b2n] in H3s.
    pose proof (b2n_le (subscribed (subs σ s0))).
    assert (Hm0 : mem s0 (rs_subs σ) = false) by (destruct (mem s0 (rs_subs σ)); cbn in *; [lia|reflexivity]).
    pose proof (H4 s0) as H4s. rewrite Hm0, cnt_cons in H4s. cbn [andb b2n is_rem] in H4s.
    assert (Hl0 : loaded (subs σ s0) = false) by (destruct (loaded (subs σ s0)); cbn in *; [lia|reflexivity]).
    assert (Hc0 : cnt is_ld (cq (subs σ s0)) = 0) by lia.
    assert (Hr0 : cnt (is_rem s0) q = 0) by lia.
    assert (Hnd' : NoDup (s0 :: rs_subs σ)).
    { constructor; [|exact Hnd]. intros Hin. apply mem_In in Hin. congruence. }
    assert (Pa : forall s, cnt (is_add s) q + b2n (Nat.eqb s s0 || mem s (rs_subs σ))
                           = cnt (is_add s) (IAddSub s0 :: q) + b2n (mem s (rs_subs σ))).
    { intros s. rewrite cnt_cons. cbn [is_add]. rewrite (Nat.eqb_sym s0 s). destruct (Nat.eqb_spec s s0) as [->|Hne].
      - rewrite Hm0. cbn. lia.
      - cbn. lia. }
    assert (Pr : forall s, cnt (is_rem s) (IAddSub s0 :: q) = cnt (is_rem s) q) by (intros; rewrite cnt_cons; reflexivity).
    assert (Pm : forall s, s <> s0 -> mem s (s0 :: rs_subs σ) = mem s (rs_subs σ)).
    { intros s Hne. rewrite mem_cons. assert (E : Nat.eqb s s0 = false) by (apply Nat.eqb_neq; exact Hne). rewrite E. reflexivity. }
    assert (Pm0 : mem s0 (s0 :: rs_subs σ) = true) by (rewrite mem_cons, Nat.eqb_refl; reflexivity).
    destruct (rs_loaded σ) eqn:Erl; cbn [andb].
    + destruct (closed (subs σ s0)) eqn:Ecl; cbn [negb].
      * (* loaded, connection closing: release at once *)
        pose proof (Hcg s0 Ecl) as Eg.
        constructor; cbn -[pend cnt replay evs mem]; [| | | | |exact H5|exact H6|exact H7|exact H8|exact H9|exact Hgl|exact Hcg| |exact Hnd'].
        -- rewrite pend_app. cbn [pstep]. unfold pend in *. cbn [fold_left pstep] in H1. exact H1.
        -- rewrite cnt_app. rewrite cnt_cons in H2. cbn in *. lia.
        -- intros s Hgn. rewrite cnt_app, mem_cons. specialize (H3 s Hgn). specialize (Pa s). cbn. lia.
        -- intros s. rewrite cnt_app, mem_cons. specialize (H3g s). specialize (Pa s). cbn. lia.
        -- intros s. rewrite cnt_app, cnt_cons. cbn [is_rem]. destruct (Nat.eq_dec s s0) as [->|Hne].
           ++ rewrite Pm0, Nat.eqb_refl, Hc0, Hl0, Hr0. reflexivity.
           ++ rewrite (Pm s Hne). assert (E : Nat.eqb s0 s = false) by (apply Nat.eqb_neq; congruence). rewrite E.
              specialize (H4 s). rewrite Pr in H4. cbn. lia.
        -- intros s Hgn. rewrite cnt_app, cnt_cons. cbn [is_rem]. destruct (Nat.eq_dec s s0) as [->|Hne]; [congruence|].
           assert (E : Nat.eqb s0 s = false) by (apply Nat.eqb_neq; congruence). rewrite E.
           specialize (Hrm s Hgn). rewrite Pr in Hrm. cbn. lia.
      * (* loaded: send the snapshot *)
        constructor; cbn -[pend cnt replay evs mem set_sub].
        -- unfold pend in *. cbn [fold_left pstep] in H1. exact H1.
        -- rewrite cnt_cons in H2. exact H2.
        -- intros s. rewrite mem_cons. specialize (Pa s).
           at_sub s s0; cbn [push_c gone subscribed]; intros Hgn; [specialize (H3 s0 Hgn)|specialize (H3 s Hgn)]; lia.
        -- intros s. rewrite mem_cons. specialize (Pa s).
           at_sub s s0; cbn [push_c subscribed]; [specialize (H3g s0)|specialize (H3g s)]; lia.
        -- intros s. at_sub s s0.
           ++ cbn [push_c cq loaded]. rewrite cnt_app, Pm0, Hc0, Hl0, Hr0. reflexivity.
           ++ rewrite (Pm s Hne). specialize (H4 s). rewrite Pr in H4. exact H4.
        -- intros s. at_sub s s0; [cbn [push_c loaded]; rewrite Hl0; discriminate|apply H5].
        -- intros s e. at_sub s s0; [|apply H6].
           cbn [push_c cq]. rewrite evs_app. cbn [evs flat_map]. rewrite app_nil_r. apply H6.
        -- intros s. at_sub s s0; [cbn [push_c loaded eq]|]; apply H7.
        -- intros s. at_sub s s0; [cbn [push_c flag eq]|]; apply H8.
        -- discriminate.
        -- intros s. at_sub s s0; [cbn [push_c loaded gone]|]; apply Hgl.
        -- intros s. at_sub s s0; [cbn [push_c closed gone]|]; apply Hcg.
        -- intros s. at_sub s s0; [cbn [push_c gone]|]; intros Hgn; [specialize (Hrm s0 Hgn)|specialize (Hrm s Hgn)];
             rewrite Pr in Hrm; exact Hrm.
        -- exact Hnd'.
    + (* resource not loaded yet *)
      constructor; cbn -[pend cnt replay evs mem]; [| | | | |exact H5|exact H6|exact H7|exact H8|exact H9|exact Hgl|exact Hcg| |exact Hnd'].
      * unfold pend in *. cbn [fold_left pstep] in H1. exact H1.
      * rewrite cnt_cons in H2. exact H2.
      * intros s Hgn. rewrite mem_cons. specialize (H3 s Hgn). specialize (Pa s). lia.
      * intros s. rewrite mem_cons. specialize (H3g s). specialize (Pa s). lia.
      * intros s. rewrite andb_false_r. specialize (H4 s). rewrite andb_false_r, Pr in H4. exact H4.
      * intros s Hgn. specialize (Hrm s Hgn). rewrite Pr in Hrm. exact Hrm.
  - (* release of a subscriber *)
    pose proof (H4 s0) as H4s. rewrite cnt_cons in H4s. cbn [is_rem] in H4s. rewrite Nat.eqb_refl in H4s. cbn [b2n] in H4s.
    pose proof (b2n_le (mem s0 (rs_subs σ) && rs_loaded σ)).
    assert (Hl0 : loaded (subs σ s0) = false) by (destruct (loaded (subs σ s0)); cbn in *; [lia|reflexivity]).
    assert (Hc0 : cnt is_ld (cq (subs σ s0)) = 0) by lia.
    assert (Hr0 : cnt (is_rem s0) q = 0) by lia.
    assert (Eg : gone (subs σ s0) = true).
    { destruct (gone (subs σ s0)) eqn:Eg; [reflexivity|]. specialize (Hrm s0 Eg). rewrite cnt_cons in Hrm.
      cbn [is_rem] in Hrm. rewrite Nat.eqb_refl in Hrm. cbn in Hrm. lia. }
    assert (Pa : forall s, cnt (is_add s) (IRemSub s0 :: q) = cnt (is_add s) q) by (intros; rewrite cnt_cons; reflexivity).
    assert (Pr : forall s, s <> s0 -> cnt (is_rem s) (IRemSub s0 :: q) = cnt (is_rem s) q).
    { intros s Hne. rewrite cnt_cons. cbn [is_rem]. assert (E : Nat.eqb s0 s = false) by (apply Nat.eqb_neq; congruence).
      rewrite E. reflexivity. }
    constructor; cbn -[pend cnt replay evs mem remove_sub]; [| | | | |exact H5|exact H6|exact H7|exact H8|exact H9|exact Hgl|exact Hcg| |].
    + unfold pend in *. cbn [fold_left pstep] in H1. exact H1.
    + rewrite cnt_cons in H2. exact H2.
    + intros s Hgn. destruct (Nat.eq_dec s s0) as [->|Hne]; [congruence|].
      rewrite (mem_remove_other _ _ _ Hne). specialize (H3 s Hgn). rewrite Pa in H3. exact H3.
    + intros s. specialize (H3g s). rewrite Pa in H3g. destruct (Nat.eq_dec s s0) as [->|Hne].
      * rewrite mem_remove_same. cbn [b2n]. lia.
      * rewrite (mem_remove_other _ _ _ Hne). exact H3g.
    + intros s. destruct (Nat.eq_dec s s0) as [->|Hne].
      * rewrite mem_remove_same, Hc0, Hl0, Hr0. reflexivity.
      * rewrite (mem_remove_other _ _ _ Hne). specialize (H4 s). rewrite (Pr s Hne) in H4. exact H4.
    + intros s Hgn. destruct (Nat.eq_dec s s0) as [->|Hne]; [congruence|].
      specialize (Hrm s Hgn). rewrite (Pr s Hne) in Hrm. exact Hrm.
    + apply NoDup_remove, Hnd.
  - (* reaccess event: passed on to every open subscriber, loaded or not *)
    apply (reacc_inv σ q H Eq).
  - (* a task that does not touch the resource *)
    apply (pop_inv σ (INop n0) q H Eq); reflexivity.
Qed.

Theorem step_inv σ a : Inv σ -> Inv (step σ a).
Proof.
  destruct a; [apply inv_svc_update|apply inv_svc_custom|apply inv_svc_answer|apply inv_svc_nop|apply inv_svc_reacc|apply inv_subscribe
              |apply inv_dispose|apply inv_rune|apply inv_runc|apply inv_respond|apply inv_unqueue|apply inv_startqueue].
Qed.

Theorem run_inv t acts : Inv (run t acts).
Proof.
  unfold run. generalize (init_inv t). generalize (init t).
  induction acts as [|a acts IH]; intros σ H; cbn; [exact H|]. apply IH, step_inv, H.
Qed.

(* quiescent: the get request was answered, the resource queue is drained, and every connection
   has drained its queue and holds no queued events *)
Definition quiescent (σ : st) : Prop :=
  answered σ = true /\ qe σ = [] /\ forall s, cq (subs σ s) = [] /\ eq (subs σ s) = [].

(* Every reachable quiescent state: each subscribed connection that was not disposed has loaded the resource,
   and the copy it holds (the snapshot it was or will be sent, updated by every event delivered since) IS the
   state the service last announced; the cache holds the same value. For every schedule, any number of subscribers. *)
Theorem single_resource_convergence : forall t acts s,
  let σ := run t acts in
  quiescent σ -> subscribed (subs σ s) = true -> gone (subs σ s) = false ->
  loaded (subs σ s) = true /\ sval (subs σ s) = truth σ /\ rs_val σ = truth σ.
Proof.
  intros t acts s σ (Ha & Hq & Hs) Hsub Hgn.
  pose proof (run_inv t acts) as H. fold σ in H. inv_fields H.
  rewrite Hq, Ha in *. cbn in H1, H2.
  assert (Erl : rs_loaded σ = true) by (destruct (rs_loaded σ); [reflexivity|cbn in *; discriminate]).
  rewrite Erl in *. cbn in H1. injection H1 as H1.
  specialize (H3 s Hgn). rewrite Hsub in H3. cbn in H3.
  assert (Hm : mem s (rs_subs σ) = true) by (destruct (mem s (rs_subs σ)); [reflexivity|cbn in *; discriminate]).
  specialize (H4 s). destruct (Hs s) as [Hc He]. rewrite Hc, Hm in H4. cbn in H4.
  assert (Hl : loaded (subs σ s) = true) by (destruct (loaded (subs σ s)); [reflexivity|cbn in *; discriminate]).
  specialize (H5 s Hl). rewrite Hc, He in H5. cbn in H5. injection H5 as _ H5.
  repeat split; congruence.
Qed.

(* Nothing is left behind for a disposed subscription (failed request, access denied, closed connection): once the queues
   are drained and the get request answered, the cache no longer lists it as a subscriber and it holds nothing. *)
Theorem disposed_released : forall t acts s,
  let σ := run t acts in
  quiescent σ -> gone (subs σ s) = true ->
  mem s (rs_subs σ) = false /\ loaded (subs σ s) = false /\ eq (subs σ s) = [].
Proof.
  intros t acts s σ (Ha & Hq & Hs) Hgn.
  pose proof (run_inv t acts) as H. fold σ in H. inv_fields H.
  rewrite Hq, Ha in *. cbn in H2.
  assert (Erl : rs_loaded σ = true) by (destruct (rs_loaded σ); [reflexivity|cbn in *; discriminate]).
  destruct (Hs s) as [Hc He]. pose proof (Hgl s Hgn) as Hl.
  specialize (H4 s). rewrite Hc, Hl, Erl in H4. cbn in H4.
  repeat split; auto.
  destruct (mem s (rs_subs σ)); [cbn in H4; discriminate|reflexivity].
Qed.

End Conv.

Print Assumptions single_resource_convergence.
Print Assumptions disposed_released.

(* non-vacuity: a concrete schedule that reaches a quiescent state with two subscribers, an update that
   lands before one snapshot and after the other, and a queued event drained after the response *)
Definition acts_ex : list (action nat) :=
  [Subscribe nat 1; SvcAnswer nat; RunE nat; RunE nat; SvcUpdate nat 5; RunC nat 1; RunE nat; Subscribe nat 2; RunE nat;
   SvcUpdate nat 7; RunE nat; RunC nat 2; RunC nat 1; RunC nat 1; Respond nat 1 5; RunC nat 2; Respond nat 2 5].
Definition sigma_ex := run nat nat (fun u v => u + v) (fun u v => if Nat.eqb u 0 then None else Some u) 0 100 acts_ex.
Eval vm_compute in (@truth nat nat sigma_ex, @rs_val nat nat sigma_ex, @rs_ver nat nat sigma_ex,
                    @sval nat nat (@subs nat nat sigma_ex 1), @sval nat nat (@subs nat nat sigma_ex 2),
                    @qe nat nat sigma_ex, @cq nat nat (@subs nat nat sigma_ex 1), @cq nat nat (@subs nat nat sigma_ex 2),
                    @eq nat nat (@subs nat nat sigma_ex 1), @eq nat nat (@subs nat nat sigma_ex 2)).

(* non-vacuity with disposal: subscriber 1 is disposed before the resource is loaded (released when its Loaded task runs),
   subscriber 2's connection closes while it is loaded (released by Dispose), subscriber 3 survives and converges.
   Reaccess events: one is fanned out BEFORE the resource is loaded (every subscriber, also the disposed one, gets a
   CReacc task; subscriber 1 runs it before the get response arrives, 2 and 3 after it, in front of their Loaded task),
   one after an update once the resource is loaded, and one that the closing connection 2 refuses. *)
Definition acts_ex2 : list (action nat) :=
  [Subscribe nat 1; Subscribe nat 2; Subscribe nat 3; RunE nat; RunE nat; RunE nat; Dispose nat 1 false;
   SvcReacc nat; RunE nat; RunC nat 1;
   SvcAnswer nat; RunE nat; RunC nat 1; RunC nat 2; RunC nat 2; RunC nat 3; RunC nat 3; Respond nat 2 0; Respond nat 3 0;
   SvcUpdate nat 5; SvcReacc nat; RunE nat; RunE nat; RunE nat; RunC nat 2; RunC nat 2; RunC nat 3; RunC nat 3;
   SvcReacc nat; Dispose nat 2 true; RunE nat; RunE nat; RunC nat 3].
Definition sigma_ex2 := run nat nat (fun u v => u + v) (fun u v => if Nat.eqb u 0 then None else Some u) 0 100 acts_ex2.
Eval vm_compute in (@rs_subs nat nat sigma_ex2, @truth nat nat sigma_ex2, @rs_val nat nat sigma_ex2,
                    @sval nat nat (@subs nat nat sigma_ex2 3), @loaded nat nat (@subs nat nat sigma_ex2 3),
                    (@gone nat nat (@subs nat nat sigma_ex2 1), @gone nat nat (@subs nat nat sigma_ex2 2),
                     @gone nat nat (@subs nat nat sigma_ex2 3)),
                    (@closed nat nat (@subs nat nat sigma_ex2 1), @closed nat nat (@subs nat nat sigma_ex2 2)),
                    @qe nat nat sigma_ex2).
(* the state after the first reaccess event was fanned out: the resource is not loaded, yet every connection queue holds a
   task (the old invariant "not loaded -> all connection queues empty" no longer holds; i9 says they hold no events) *)
Definition sigma_ex2_pre :=
  run nat nat (fun u v => u + v) (fun u v => if Nat.eqb u 0 then None else Some u) 0 100 (firstn 9 acts_ex2).
Example ex2_reacc_before_load :
  @rs_loaded nat nat sigma_ex2_pre = false /\ @answered nat nat sigma_ex2_pre = false /\
  @cq nat nat (@subs nat nat sigma_ex2_pre 1) = [CReacc nat] /\ @cq nat nat (@subs nat nat sigma_ex2_pre 2) = [CReacc nat] /\
  @cq nat nat (@subs nat nat sigma_ex2_pre 3) = [CReacc nat].
Proof. vm_compute. repeat split. Qed.
(* after the get response: the reaccess task sits in front of the Loaded task of subscribers 2 and 3 *)
Definition sigma_ex2_mid :=
  run nat nat (fun u v => u + v) (fun u v => if Nat.eqb u 0 then None else Some u) 0 100 (firstn 12 acts_ex2).
Example ex2_reacc_then_loaded :
  @rs_loaded nat nat sigma_ex2_mid = true /\
  @cq nat nat (@subs nat nat sigma_ex2_mid 1) = [CLoaded nat] /\
  @cq nat nat (@subs nat nat sigma_ex2_mid 2) = [CReacc nat; CLoaded nat] /\
  @cq nat nat (@subs nat nat sigma_ex2_mid 3) = [CReacc nat; CLoaded nat].
Proof. vm_compute. repeat split. Qed.
(* loaded resource: the update and the reaccess event are both fanned out, in order *)
Definition sigma_ex2_post :=
  run nat nat (fun u v => u + v) (fun u v => if Nat.eqb u 0 then None else Some u) 0 100 (firstn 24 acts_ex2).
Example ex2_reacc_after_load :
  @rs_loaded nat nat sigma_ex2_post = true /\ @rs_subs nat nat sigma_ex2_post = [3; 2] /\
  @cq nat nat (@subs nat nat sigma_ex2_post 1) = [] /\
  @cq nat nat (@subs nat nat sigma_ex2_post 2) = [CEvent nat {| e_ver := 0; e_upd := Some 5 |}; CReacc nat] /\
  @cq nat nat (@subs nat nat sigma_ex2_post 3) = [CEvent nat {| e_ver := 0; e_upd := Some 5 |}; CReacc nat].
Proof. vm_compute. repeat split. Qed.
(* the last reaccess event: connection 2 is closing and refuses the task, subscriber 3 gets it *)
Definition sigma_ex2_last :=
  run nat nat (fun u v => u + v) (fun u v => if Nat.eqb u 0 then None else Some u) 0 100 (firstn 31 acts_ex2).
Example ex2_reacc_refused :
  @closed nat nat (@subs nat nat sigma_ex2_last 2) = true /\ @rs_subs nat nat sigma_ex2_last = [3; 2] /\
  @cq nat nat (@subs nat nat sigma_ex2_last 2) = [] /\ @cq nat nat (@subs nat nat sigma_ex2_last 3) = [CReacc nat].
Proof. vm_compute. repeat split. Qed.
Example ex2_subs : @rs_subs nat nat sigma_ex2 = [3].
Proof. vm_compute. reflexivity. Qed.
Lemma ex2_quiescent : quiescent nat nat sigma_ex2.
Proof.
  repeat split; try (vm_compute; reflexivity);
    destruct s as [|[|[|[|s]]]]; vm_compute; reflexivity.
Qed.
Example ex2_gone1 : @gone nat nat (@subs nat nat sigma_ex2 1) = true /\ @subscribed nat nat (@subs nat nat sigma_ex2 1) = true.
Proof. vm_compute. repeat split. Qed.
Example ex2_gone2 : @gone nat nat (@subs nat nat sigma_ex2 2) = true /\ @closed nat nat (@subs nat nat sigma_ex2 2) = true.
Proof. vm_compute. repeat split. Qed.
Example ex2_live3 : @subscribed nat nat (@subs nat nat sigma_ex2 3) = true /\ @gone nat nat (@subs nat nat sigma_ex2 3) = false.
Proof. vm_compute. repeat split. Qed.

(* both theorems instantiated on this run (run is made opaque only to keep the elaborator from evaluating it) *)
Lemma ex_norm_none : forall u v : nat, (if Nat.eqb u 0 then None else Some u) = None -> u + v = v.
Proof. intros u v. destruct (Nat.eqb_spec u 0) as [->|]; [reflexivity|discriminate]. Qed.
Lemma ex_norm_some : forall u v u' : nat, (if Nat.eqb u 0 then None else Some u) = Some u' -> u' + v = u + v.
Proof. intros u v u'. destruct (Nat.eqb u 0); [discriminate|]. intros E. injection E as <-. reflexivity. Qed.
Opaque run.
Lemma ex2_converged3 : @loaded nat nat (@subs nat nat sigma_ex2 3) = true /\
  @sval nat nat (@subs nat nat sigma_ex2 3) = @truth nat nat sigma_ex2 /\ @rs_val nat nat sigma_ex2 = @truth nat nat sigma_ex2.
Proof.
  exact (single_resource_convergence nat nat (fun u v => u + v) (fun u v => if Nat.eqb u 0 then None else Some u) 0
           ex_norm_none ex_norm_some 100 acts_ex2 3 ex2_quiescent (proj1 ex2_live3) (proj2 ex2_live3)).
Qed.
Lemma ex2_released1 : mem 1 (@rs_subs nat nat sigma_ex2) = false /\
  @loaded nat nat (@subs nat nat sigma_ex2 1) = false /\ @eq nat nat (@subs nat nat sigma_ex2 1) = [].
Proof.
  exact (disposed_released nat nat (fun u v => u + v) (fun u v => if Nat.eqb u 0 then None else Some u) 0
           ex_norm_none ex_norm_some 100 acts_ex2 1 ex2_quiescent (proj1 ex2_gone1)).
Qed.
Lemma ex2_released2 : mem 2 (@rs_subs nat nat sigma_ex2) = false /\
  @loaded nat nat (@subs nat nat sigma_ex2 2) = false /\ @eq nat nat (@subs nat nat sigma_ex2 2) = [].
Proof.
  exact (disposed_released nat nat (fun u v => u + v) (fun u v => if Nat.eqb u 0 then None else Some u) 0
           ex_norm_none ex_norm_some 100 acts_ex2 2 ex2_quiescent (proj1 ex2_gone2)).
Qed.
Transparent run.
