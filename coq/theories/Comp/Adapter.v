(* Feasibility sketch for C18: one request of the NATS adapter (nats/nats.go SendRequest, listener,
   parseMeta, onTimeout). Timer expiry is split into "expire" (Stop/Remove now return false, the callback
   goroutine exists) and "run" (the callback takes Client.mu), so every race the mutex decides is a schedule. *)
From Coq Require Import List Arith Lia Bool.
Import ListNotations.

Inductive tstate := TNone | TArmed | TFired.
Inductive outcome := Reply | NoResponders | Timeout | SendError.

Record req := {
  sent : bool;
  pending : bool;        (* entry in Client.mqReqs *)
  in_tq : bool;          (* element of the default timerqueue *)
  tq_fired : bool;       (* timerqueue popped it; onTimeout goroutine not yet in the critical section *)
  has_timer : bool;      (* rc.t != nil *)
  timer : tstate;        (* state of rc.t *)
  done : list outcome    (* invocations of the completion callback *)
}.
Definition init : req :=
  {| sent := false; pending := false; in_tq := false; tq_fired := false; has_timer := false; timer := TNone; done := [] |}.

Inductive act := Send | SendFail | MsgReply | Msg503 | MsgPre | TqExpire | TqRun | TimerExpire | TimerRun.

Definition complete (r : req) (o : outcome) : req :=   (* delete from mqReqs, tq.Remove, rc.t.Stop, callback *)
  {| sent := sent r; pending := false; in_tq := false; tq_fired := tq_fired r; has_timer := has_timer r;
     timer := (match timer r with TArmed => TNone | t => t end); done := done r ++ [o] |}.

Definition on_timeout (r : req) : req := if pending r then complete r Timeout else r.

Definition step (r : req) (a : act) : req :=
  match a with
  | Send => if sent r then r else
      {| sent := true; pending := true; in_tq := true; tq_fired := false; has_timer := false; timer := TNone; done := done r |}
  | SendFail => if sent r then r else      (* subscribing or publishing failed: the callback gets the error, nothing is registered *)
      {| sent := true; pending := false; in_tq := false; tq_fired := false; has_timer := false; timer := TNone; done := done r ++ [SendError] |}
  | MsgReply => if pending r then complete r Reply else r
  | Msg503 => if pending r then complete r NoResponders else r
  | MsgPre =>
      if pending r then
        let removed := if has_timer r then (match timer r with TArmed => true | _ => false end) else in_tq r in
        if removed then
          {| sent := sent r; pending := true; in_tq := false; tq_fired := tq_fired r; has_timer := true; timer := TArmed; done := done r |}
        else
          {| sent := sent r; pending := true; in_tq := in_tq r; tq_fired := tq_fired r; has_timer := has_timer r; timer := timer r; done := done r |}
      else r
  | TqExpire => if in_tq r then
      {| sent := sent r; pending := pending r; in_tq := false; tq_fired := true; has_timer := has_timer r; timer := timer r; done := done r |}
      else r
  | TqRun => if tq_fired r then
      on_timeout {| sent := sent r; pending := pending r; in_tq := in_tq r; tq_fired := false; has_timer := has_timer r; timer := timer r; done := done r |}
      else r
  | TimerExpire => match timer r with
      | TArmed => {| sent := sent r; pending := pending r; in_tq := in_tq r; tq_fired := tq_fired r; has_timer := has_timer r; timer := TFired; done := done r |}
      | _ => r end
  | TimerRun => match timer r with
      | TFired => on_timeout {| sent := sent r; pending := pending r; in_tq := in_tq r; tq_fired := tq_fired r; has_timer := has_timer r; timer := TNone; done := done r |}
      | _ => r end
  end.

Definition run (l : list act) : req := fold_left step l init.

(* some time-out path is still alive *)
Definition live (r : req) : bool :=
  in_tq r || tq_fired r || (match timer r with TNone => false | _ => true end).

Record Inv (r : req) : Prop := {
  i_once : length (done r) = if sent r && negb (pending r) then 1 else 0;
  i_live : pending r = true -> live r = true;
  i_tq : in_tq r = true -> pending r = true /\ has_timer r = false;
  i_unsent : sent r = false -> pending r = false /\ in_tq r = false /\ tq_fired r = false /\ timer r = TNone
}.

Lemma init_inv : Inv init.
Proof. constructor; cbn; auto; try discriminate. Qed.

Lemma step_inv r a : Inv r -> Inv (step r a).
Proof.
  destruct r as [s p q f h t d]. intros [H1 H2 H3 H4]. cbn in *.
  destruct a; destruct s, p, q, f, h, t; cbn in *;
    try (destruct (H3 eq_refl); discriminate);
    try (destruct (H4 eq_refl) as (? & ? & ? & ?); discriminate);
    try (specialize (H2 eq_refl); discriminate);
    (constructor; cbn; try rewrite app_length; cbn;
     try lia; try discriminate; try reflexivity; try (intros; split; reflexivity || discriminate);
     try (intros; repeat split; reflexivity || discriminate)).
Qed.

Theorem run_inv l : Inv (run l).
Proof.
  unfold run. generalize init_inv. generalize init. induction l as [|a l IH]; intros r H; cbn; [exact H|apply IH, step_inv, H].
Qed.

(* C18: for every interleaving of replies, pre-responses and timer expiries/callbacks, the completion callback
   is invoked at most once; exactly once as soon as the request is no longer pending; and while it is pending a
   time-out path is alive, so silence always ends in a timeout. *)
Theorem completion_exactly_once : forall l,
  let r := run l in
  length (done r) <= 1 /\
  (sent r = true -> pending r = false -> length (done r) = 1) /\
  (pending r = true -> done r = [] /\ live r = true).
Proof.
  intros l r. destruct (run_inv l) as [H1 H2 H3 H4]. fold r in H1, H2, H3, H4.
  repeat split.
  - rewrite H1. destruct (sent r && negb (pending r)); lia.
  - intros Hs Hp. rewrite H1, Hs, Hp. reflexivity.
  - rewrite H in H1. rewrite andb_false_r in H1. destruct (done r); [reflexivity|discriminate].
  - apply H2, H.
Qed.
Print Assumptions completion_exactly_once.

(* reply racing an expired default timer: the timer callback finds the entry gone *)
Example race1 : done (run [Send; TqExpire; MsgReply; TqRun]) = [Reply]. Proof. reflexivity. Qed.
(* pre-response re-arms, silence then ends in exactly one timeout *)
Example pre_then_silence : done (run [Send; MsgPre; TimerExpire; MsgPre; TimerRun]) = [Timeout]. Proof. reflexivity. Qed.
(* a request that could not be published completes once, with the error; no timeout follows *)
Example pubfail : done (run [SendFail; TqExpire; TqRun; MsgReply]) = [SendError]. Proof. reflexivity. Qed.
(* a late duplicate reply is ignored *)
Example dup : done (run [Send; MsgReply; MsgReply; TqExpire; TqRun]) = [Reply]. Proof. reflexivity. Qed.
