(* C16 proofs: the two HTTP API encoders print exactly their expansion trees, and terminate (fuel-stable)
   on every finite graph, cyclic or not. *)
From Coq Require Import String.
From Coq Require Import List Ascii Arith Bool Lia.
From RG Require Import Pure.Render.
Import ListNotations.
Open Scope list_scope.

(* ---------- one-step unfoldings, with the local value encoders named *)
Definition encv (g : graph) (f : nat) (path : list node) (r : node) (v : hval) : str :=
  match v with
  | HRef r' => enc g f (r :: path) r' true
  | HSoft h => s "{""href"":"%string ++ h ++ s "}"%string
  | HData i => i
  | HPrim raw => raw
  end.

Definition encvflat (g : graph) (f : nat) (path : list node) (r : node) (v : hval) : str :=
  match v with
  | HRef r' => encflat g f (r :: path) r'
  | HSoft h => s "{""href"":"%string ++ h ++ s "}"%string
  | HData i => i
  | HPrim raw => raw
  end.

Definition ev (g : graph) (f : nat) (path : list node) (r : node) (v : hval) : json :=
  match v with
  | HRef r' => expand g f (r :: path) r' true
  | HSoft h => href_obj h
  | HData i => JRaw i
  | HPrim raw => JRaw raw
  end.

Definition evflat (g : graph) (f : nat) (path : list node) (r : node) (v : hval) : json :=
  match v with
  | HRef r' => expandflat g f (r :: path) r'
  | HSoft h => href_obj h
  | HData i => JRaw i
  | HPrim raw => JRaw raw
  end.

Lemma enc_S : forall g f path r wrap,
  enc g (S f) path r wrap =
    (if wrap then s "{""href"":"%string ++ href g r else []) ++
    (if mem r path then []
     else match res g r with
          | HErr e => (if wrap then s ",""error"":"%string else []) ++ e
          | HColl vs => (if wrap then s ",""collection"":"%string else []) ++ s "["%string ++
                        join (s ","%string) (map (encv g f path r) vs) ++ s "]"%string
          | HModel kvs => (if wrap then s ",""model"":"%string else []) ++ s "{"%string ++
                          join (s ","%string)
                               (map (fun kv => fst kv ++ s ":"%string ++ encv g f path r (snd kv)) kvs) ++
                          s "}"%string
          end) ++
    (if wrap then s "}"%string else []).
Proof. reflexivity. Qed.

Lemma encflat_S : forall g f path r,
  encflat g (S f) path r =
    if mem r path then s "{""href"":"%string ++ href g r ++ s "}"%string
    else match res g r with
         | HErr e => e
         | HColl vs => s "["%string ++ join (s ","%string) (map (encvflat g f path r) vs) ++ s "]"%string
         | HModel kvs => s "{"%string ++
                         join (s ","%string)
                              (map (fun kv => fst kv ++ s ":"%string ++ encvflat g f path r (snd kv)) kvs) ++
                         s "}"%string
         end.
Proof. reflexivity. Qed.

Lemma expand_S : forall g f path r wrap,
  expand g (S f) path r wrap =
    let body : option (str * json) :=
      if mem r path then None
      else Some (match res g r with
                 | HErr e => (s """error"""%string, JRaw e)
                 | HColl vs => (s """collection"""%string, JArr (map (ev g f path r) vs))
                 | HModel kvs => (s """model"""%string,
                                  JObj (map (fun kv => (fst kv, ev g f path r (snd kv))) kvs))
                 end) in
    if wrap then JObj ((s """href"""%string, JRaw (href g r)) :: match body with Some b => [b] | None => [] end)
    else match body with Some b => snd b | None => JRaw [] end.
Proof. reflexivity. Qed.

Lemma expandflat_S : forall g f path r,
  expandflat g (S f) path r =
    if mem r path then href_obj (href g r)
    else match res g r with
         | HErr e => JRaw e
         | HColl vs => JArr (map (evflat g f path r) vs)
         | HModel kvs => JObj (map (fun kv => (fst kv, evflat g f path r (snd kv))) kvs)
         end.
Proof. reflexivity. Qed.

(* ---------- printing facts *)
Lemma print_href_obj : forall h, print (href_obj h) = s "{""href"":"%string ++ h ++ s "}"%string.
Proof.
  intros h. unfold href_obj. cbn. reflexivity.
Qed.

Lemma print_arr : forall l, print (JArr l) = s "["%string ++ join (s ","%string) (map print l) ++ s "]"%string.
Proof. reflexivity. Qed.

Lemma print_obj : forall kvs,
  print (JObj kvs) =
    s "{"%string ++ join (s ","%string) (map (fun kv => fst kv ++ s ":"%string ++ print (snd kv)) kvs) ++
    s "}"%string.
Proof. reflexivity. Qed.

Lemma print_wrap1 : forall H,
  print (JObj [(s """href"""%string, JRaw H)]) = s "{""href"":"%string ++ H ++ s "}"%string.
Proof. intros H. cbn. reflexivity. Qed.

Lemma print_wrap2_error : forall H j,
  print (JObj [(s """href"""%string, JRaw H); (s """error"""%string, j)]) =
  s "{""href"":"%string ++ H ++ (s ",""error"":"%string ++ print j) ++ s "}"%string.
Proof.
  intros H j. rewrite print_obj. cbn [map join fst snd print].
  unfold s. cbn [list_ascii_of_string app]. repeat rewrite <- app_assoc. cbn [app]. reflexivity.
Qed.

Lemma print_wrap2_collection : forall H j,
  print (JObj [(s """href"""%string, JRaw H); (s """collection"""%string, j)]) =
  s "{""href"":"%string ++ H ++ (s ",""collection"":"%string ++ print j) ++ s "}"%string.
Proof.
  intros H j. rewrite print_obj. cbn [map join fst snd print].
  unfold s. cbn [list_ascii_of_string app]. repeat rewrite <- app_assoc. cbn [app]. reflexivity.
Qed.

Lemma print_wrap2_model : forall H j,
  print (JObj [(s """href"""%string, JRaw H); (s """model"""%string, j)]) =
  s "{""href"":"%string ++ H ++ (s ",""model"":"%string ++ print j) ++ s "}"%string.
Proof.
  intros H j. rewrite print_obj. cbn [map join fst snd print].
  unfold s. cbn [list_ascii_of_string app]. repeat rewrite <- app_assoc. cbn [app]. reflexivity.
Qed.

(* ---------- T1 *)
Lemma encv_print_ev : forall g f,
  (forall path r wrap, enc g f path r wrap = print (expand g f path r wrap)) ->
  forall path r v, encv g f path r v = print (ev g f path r v).
Proof.
  intros g f IH path r v. destruct v as [raw | r' | h | i]; cbn [encv ev print].
  - reflexivity.
  - apply IH.
  - rewrite print_href_obj. reflexivity.
  - reflexivity.
Qed.

Theorem enc_is_print_of_expand : forall g fuel path r wrap,
  enc g fuel path r wrap = print (expand g fuel path r wrap).
Proof.
  intros g fuel. induction fuel as [| f IH]; intros path r wrap.
  - reflexivity.
  - rewrite enc_S, expand_S. cbv zeta.
    assert (HV : forall v, encv g f path r v = print (ev g f path r v)).
    { intros v. apply encv_print_ev. exact IH. }
    assert (HC : forall vs, map (encv g f path r) vs = map print (map (ev g f path r) vs)).
    { intros vs. rewrite map_map. apply map_ext. exact HV. }
    assert (HM : forall kvs,
      map (fun kv => fst kv ++ s ":"%string ++ encv g f path r (snd kv)) kvs =
      map (fun kv => fst kv ++ s ":"%string ++ print (snd kv))
          (map (fun kv => (fst kv, ev g f path r (snd kv))) kvs)).
    { intros kvs. rewrite map_map. apply map_ext. intros kv. cbn [fst snd]. rewrite HV. reflexivity. }
    destruct (mem r path) eqn:Emem.
    + destruct wrap.
      * rewrite print_wrap1. cbn [app]. reflexivity.
      * reflexivity.
    + destruct (res g r) as [kvs | vs | e] eqn:Eres.
      * destruct wrap.
        -- rewrite print_wrap2_model. rewrite print_obj. rewrite HM. reflexivity.
        -- cbn [snd app]. rewrite print_obj. rewrite HM. rewrite app_nil_r. reflexivity.
      * destruct wrap.
        -- rewrite print_wrap2_collection. rewrite print_arr. rewrite HC. reflexivity.
        -- cbn [snd app]. rewrite print_arr. rewrite HC. rewrite app_nil_r. reflexivity.
      * destruct wrap.
        -- rewrite print_wrap2_error. reflexivity.
        -- cbn [snd app print]. rewrite app_nil_r. reflexivity.
Qed.

(* ---------- T2 *)
Lemma encvflat_print_evflat : forall g f,
  (forall path r, encflat g f path r = print (expandflat g f path r)) ->
  forall path r v, encvflat g f path r v = print (evflat g f path r v).
Proof.
  intros g f IH path r v. destruct v as [raw | r' | h | i]; cbn [encvflat evflat print].
  - reflexivity.
  - apply IH.
  - rewrite print_href_obj. reflexivity.
  - reflexivity.
Qed.

Theorem encflat_is_print_of_expand : forall g fuel path r,
  encflat g fuel path r = print (expandflat g fuel path r).
Proof.
  intros g fuel. induction fuel as [| f IH]; intros path r.
  - reflexivity.
  - rewrite encflat_S, expandflat_S.
    assert (HV : forall v, encvflat g f path r v = print (evflat g f path r v)).
    { intros v. apply encvflat_print_evflat. exact IH. }
    destruct (mem r path) eqn:Emem.
    + rewrite print_href_obj. reflexivity.
    + destruct (res g r) as [kvs | vs | e] eqn:Eres.
      * rewrite print_obj. rewrite map_map. cbn [fst snd].
        f_equal. f_equal. f_equal. apply map_ext. intros kv. rewrite HV. reflexivity.
      * rewrite print_arr. rewrite map_map.
        f_equal. f_equal. f_equal. apply map_ext. exact HV.
      * reflexivity.
Qed.

(* ---------- T3: fuel n+1 is enough on a graph with n resources *)
Definition refs_of (x : hres) : list node :=
  match x with
  | HModel kvs => flat_map (fun kv => match snd kv with HRef r => [r] | _ => [] end) kvs
  | HColl vs => flat_map (fun v => match v with HRef r => [r] | _ => [] end) vs
  | HErr _ => []
  end.

Definition bounded (g : graph) (n : nat) : Prop :=
  forall r r', r < n -> In r' (refs_of (res g r)) -> r' < n.

Lemma nodup_bounded_length : forall n (l : list nat),
  NoDup l -> (forall x, In x l -> x < n) -> List.length l <= n.
Proof.
  intros n l Hnd Hlt.
  assert (Hincl : incl l (seq 0 n)).
  { intros x Hx. apply in_seq. specialize (Hlt x Hx). lia. }
  pose proof (NoDup_incl_length Hnd Hincl) as Hlen.
  rewrite seq_length in Hlen. exact Hlen.
Qed.

Lemma mem_false_not_in : forall r path, mem r path = false -> ~ In r path.
Proof.
  intros r path Hmem Hin.
  assert (Ht : mem r path = true).
  { unfold mem. apply existsb_exists. exists r. split; [exact Hin | apply Nat.eqb_refl]. }
  rewrite Ht in Hmem. discriminate Hmem.
Qed.

Lemma fresh_step : forall n path r f,
  r < n -> NoDup path -> (forall x, In x path -> x < n) -> mem r path = false ->
  n - List.length path < S f ->
  NoDup (r :: path) /\ (forall x, In x (r :: path) -> x < n) /\ n - List.length (r :: path) < f.
Proof.
  intros n path r f Hr Hnd Hlt Hmem Hf.
  pose proof (mem_false_not_in r path Hmem) as Hnin.
  assert (Hnd' : NoDup (r :: path)).
  { apply NoDup_cons; assumption. }
  assert (Hlt' : forall x, In x (r :: path) -> x < n).
  { intros x [Hx | Hx]; [subst x; exact Hr | apply Hlt; exact Hx]. }
  split; [exact Hnd' |]. split; [exact Hlt' |].
  pose proof (nodup_bounded_length n (r :: path) Hnd' Hlt') as Hlen.
  cbn [List.length] in *. lia.
Qed.

Lemma ref_in_coll : forall vs r', In (HRef r') vs -> In r' (refs_of (HColl vs)).
Proof.
  intros vs r' Hin. cbn [refs_of]. apply in_flat_map. exists (HRef r'). split; [exact Hin | left; reflexivity].
Qed.

Lemma ref_in_model : forall kvs kv r', In kv kvs -> snd kv = HRef r' -> In r' (refs_of (HModel kvs)).
Proof.
  intros kvs kv r' Hin Hsnd. cbn [refs_of]. apply in_flat_map. exists kv.
  split; [exact Hin | rewrite Hsnd; left; reflexivity].
Qed.

Theorem enc_fuel_enough : forall g n, bounded g n -> forall f1 f2 path r wrap,
  r < n -> NoDup path -> (forall x, In x path -> x < n) ->
  n - List.length path < f1 -> n - List.length path < f2 ->
  enc g f1 path r wrap = enc g f2 path r wrap.
Proof.
  intros g n Hb f1. induction f1 as [| f1 IH]; intros f2 path r wrap Hr Hnd Hlt Hf1 Hf2.
  - lia.
  - destruct f2 as [| f2]; [lia |].
    rewrite !enc_S.
    destruct (mem r path) eqn:Emem; [reflexivity |].
    destruct (fresh_step n path r f1 Hr Hnd Hlt Emem Hf1) as [Hnd' [Hlt' Hf1']].
    destruct (fresh_step n path r f2 Hr Hnd Hlt Emem Hf2) as [_ [_ Hf2']].
    assert (HV : forall v, (forall r', v = HRef r' -> In r' (refs_of (res g r))) ->
                           encv g f1 path r v = encv g f2 path r v).
    { intros v Hv. destruct v as [raw | r' | h | i]; cbn [encv]; try reflexivity.
      apply IH; try assumption.
      apply (Hb r r' Hr). apply Hv. reflexivity. }
    destruct (res g r) as [kvs | vs | e] eqn:Eres.
    + assert (HM : map (fun kv => fst kv ++ s ":"%string ++ encv g f1 path r (snd kv)) kvs =
                   map (fun kv => fst kv ++ s ":"%string ++ encv g f2 path r (snd kv)) kvs).
      { apply map_ext_in. intros kv Hin. rewrite HV; [reflexivity |].
        intros r' Hsnd. apply (ref_in_model kvs kv r' Hin Hsnd). }
      rewrite HM. reflexivity.
    + assert (HC : map (encv g f1 path r) vs = map (encv g f2 path r) vs).
      { apply map_ext_in. intros v Hin. apply HV.
        intros r' Hv. subst v. apply ref_in_coll. exact Hin. }
      rewrite HC. reflexivity.
    + reflexivity.
Qed.

Theorem encflat_fuel_enough : forall g n, bounded g n -> forall f1 f2 path r,
  r < n -> NoDup path -> (forall x, In x path -> x < n) ->
  n - List.length path < f1 -> n - List.length path < f2 ->
  encflat g f1 path r = encflat g f2 path r.
Proof.
  intros g n Hb f1. induction f1 as [| f1 IH]; intros f2 path r Hr Hnd Hlt Hf1 Hf2.
  - lia.
  - destruct f2 as [| f2]; [lia |].
    rewrite !encflat_S.
    destruct (mem r path) eqn:Emem; [reflexivity |].
    destruct (fresh_step n path r f1 Hr Hnd Hlt Emem Hf1) as [Hnd' [Hlt' Hf1']].
    destruct (fresh_step n path r f2 Hr Hnd Hlt Emem Hf2) as [_ [_ Hf2']].
    assert (HV : forall v, (forall r', v = HRef r' -> In r' (refs_of (res g r))) ->
                           encvflat g f1 path r v = encvflat g f2 path r v).
    { intros v Hv. destruct v as [raw | r' | h | i]; cbn [encvflat]; try reflexivity.
      apply IH; try assumption.
      apply (Hb r r' Hr). apply Hv. reflexivity. }
    destruct (res g r) as [kvs | vs | e] eqn:Eres.
    + assert (HM : map (fun kv => fst kv ++ s ":"%string ++ encvflat g f1 path r (snd kv)) kvs =
                   map (fun kv => fst kv ++ s ":"%string ++ encvflat g f2 path r (snd kv)) kvs).
      { apply map_ext_in. intros kv Hin. rewrite HV; [reflexivity |].
        intros r' Hsnd. apply (ref_in_model kvs kv r' Hin Hsnd). }
      rewrite HM. reflexivity.
    + assert (HC : map (encvflat g f1 path r) vs = map (encvflat g f2 path r) vs).
      { apply map_ext_in. intros v Hin. apply HV.
        intros r' Hv. subst v. apply ref_in_coll. exact Hin. }
      rewrite HC. reflexivity.
    + reflexivity.
Qed.

Theorem encode_get_stable : forall g n r extra, bounded g n -> r < n ->
  enc g (S n + extra) [] r false = encode_get g n r.
Proof.
  intros g n r extra Hb Hr. unfold encode_get.
  apply (enc_fuel_enough g n Hb); try assumption.
  - constructor.
  - intros x Hx. destruct Hx.
  - cbn [List.length]. lia.
  - cbn [List.length]. lia.
Qed.

Theorem encode_get_flat_stable : forall g n r extra, bounded g n -> r < n ->
  encflat g (S n + extra) [] r = encode_get_flat g n r.
Proof.
  intros g n r extra Hb Hr. unfold encode_get_flat.
  apply (encflat_fuel_enough g n Hb); try assumption.
  - constructor.
  - intros x Hx. destruct Hx.
  - cbn [List.length]. lia.
  - cbn [List.length]. lia.
Qed.

(* ---------- T4: a 2-cycle renders finitely *)
Definition g2 : graph :=
  {| res := fun r => match r with
                     | 0 => HModel [(s """a"""%string, HRef 1)]
                     | 1 => HModel [(s """b"""%string, HRef 0)]
                     | _ => HErr (s "null"%string)
                     end;
     href := fun r => match r with
                      | 0 => s """/api/r0"""%string
                      | _ => s """/api/r1"""%string
                      end |}.

Lemma g2_bounded : bounded g2 2.
Proof.
  intros r r' Hr Hin.
  destruct r as [| [| r]]; [| | lia]; cbn in Hin; destruct Hin as [Hin | []]; subst r'; lia.
Qed.

Example cycle2_json :
  encode_get g2 2 0 =
  s "{""a"":{""href"":""/api/r1"",""model"":{""b"":{""href"":""/api/r0""}}}}"%string.
Proof. vm_compute. reflexivity. Qed.

Example cycle2_flat :
  encode_get_flat g2 2 0 = s "{""a"":{""b"":{""href"":""/api/r0""}}}"%string.
Proof. vm_compute. reflexivity. Qed.

(* more fuel gives the same bytes on the cycle *)
Example cycle2_json_more_fuel :
  enc g2 50 [] 0 false =
  s "{""a"":{""href"":""/api/r1"",""model"":{""b"":{""href"":""/api/r0""}}}}"%string.
Proof. vm_compute. reflexivity. Qed.

Print Assumptions enc_is_print_of_expand.
Print Assumptions encflat_is_print_of_expand.
Print Assumptions enc_fuel_enough.
Print Assumptions encflat_fuel_enough.
Print Assumptions encode_get_stable.
Print Assumptions encode_get_flat_stable.
Print Assumptions g2_bounded.
Print Assumptions cycle2_json.
Print Assumptions cycle2_flat.
Print Assumptions cycle2_json_more_fuel.
