(* Proofs, group I (isolation, C10): a connection task addresses its own connection only; tokens are changed by token events only. *)
From Coq Require Import List Arith Lia Bool.
From RG Require Import Comp.Conv Comp.Core Proofs.CoreProofsG.
Import ListNotations.

Section CoreProofs.
Variables (val upd : Type) (app : upd -> val -> val) (norm : upd -> val -> option upd) (d : val).
Hypothesis norm_none : forall u v, norm u v = None -> app u v = v.
Hypothesis norm_some : forall u v u', norm u v = Some u' -> app u' v = app u v.

Notation exec := (Core.exec val upd app norm d).
Notation conns := (Core.conns val upd).
Notation insts := (Core.insts val upd).

(* the connection an output is addressed to / made on behalf of *)
Definition addressee (o : Core.out val upd) : option nat :=
  match o with
  | Core.OResp _ _ c _ _ | Core.OErr _ _ c _ _ | Core.OAck _ _ c _ _ | Core.OEvent _ _ c _ | Core.OCustom _ _ c
  | Core.OUnsubEv _ _ c | Core.OAccessReq _ _ c _ _ | Core.OConnUnsub _ _ c => Some c
  | _ => None
  end.

Notation out_ := (Core.out val upd).
Notation tk_ := (Core.tk val upd).
Notation st_ := (Core.st val upd).
Notation step := (Core.step val upd app norm).
Notation cstep := (Conv.step val upd app norm).
Notation tx := (Core.tx val upd).
Notation ty := (Core.ty val upd).
Notation to := (Core.to val upd).
Notation act := (Core.act val upd app norm).
Notation emit := (Core.emit val upd).
Notation setx := (Core.setx val upd).
Notation sety := (Core.sety val upd).
Notation dispose_t := (Core.dispose_t val upd app norm).
Notation remove_direct := (Core.remove_direct val upd app norm).
Notation unsubscribe_direct := (Core.unsubscribe_direct val upd app norm).
Notation load_access := (Core.load_access val upd).
Notation handle_reaccess := (Core.handle_reaccess val upd app norm).
Notation reaccess := (Core.reaccess val upd app norm).
Notation respond := (Core.respond val upd app norm).
Notation on_ready := (Core.on_ready val upd app norm).
Notation unqueue_reaccess := (Core.unqueue_reaccess val upd app norm).
Notation run_cb := (Core.run_cb val upd app norm).
Notation conn_task := (Core.conn_task val upd app norm).
Notation gI := (g_I val upd app d).

(* ---------------- what a task may emit ---------------- *)
(* an output of a task of connection c working on instance i, the connection's token being t during the task *)
Definition i_ok (c i t : nat) (x : out_) : Prop :=
  (addressee x = None \/ addressee x = Some c) /\
  match x with Core.OAccessReq _ _ c' i' tk => c' = c /\ i' = i /\ tk = t | _ => True end.

(* the task record: token t, owner of the instance w, everything sent so far is fine *)
Definition i_P (c i t w : nat) (k : tk_) : Prop :=
  Core.tok (tx k) = t /\ Core.owner (ty k) = w /\ Forall (i_ok c i t) (to k).

Lemma i_P_act c i t w k a : i_P c i t w k -> i_P c i t w (act k a).
Proof. intros H. exact H. Qed.
Lemma i_P_emit c i t w k o : i_P c i t w k -> Forall (i_ok c i t) o -> i_P c i t w (emit k o).
Proof. intros (A&B&C) Ho. split; [exact A|]. split; [exact B|]. cbn [Core.to Core.emit]. apply Forall_app. split; assumption. Qed.
Lemma i_P_setx c i t w k x : i_P c i t w k -> Core.tok x = Core.tok (tx k) -> i_P c i t w (setx k x).
Proof. intros (A&B&C) E. split; [cbn [Core.tx Core.setx]; congruence|]. split; [exact B|exact C]. Qed.
Lemma i_P_sety c i t w k y : i_P c i t w k -> Core.owner y = Core.owner (ty k) -> i_P c i t w (sety k y).
Proof. intros (A&B&C) E. split; [exact A|]. split; [cbn [Core.ty Core.sety]; congruence|exact C]. Qed.

Lemma i_ok_proc c i t p e : Forall (i_ok c i t) (snd (Core.proc_o val upd app c p e)).
Proof.
  unfold Core.proc_o. destruct p as [ver v]. destruct (Nat.eqb ver (Conv.e_ver upd e)); [|constructor].
  destruct (Conv.e_upd upd e); cbn [snd]; (constructor; [split; [right; reflexivity|exact I]|constructor]).
Qed.
Lemma i_ok_replay c i t l : forall p, Forall (i_ok c i t) (Core.replay_o val upd app c p l).
Proof.
  induction l as [|e l IH]; intros p; cbn [Core.replay_o]; [constructor|].
  pose proof (i_ok_proc c i t p e) as H. destruct (Core.proc_o val upd app c p e) as [p' oo]. cbn [snd] in H.
  apply Forall_app. split; [exact H|apply IH].
Qed.
Lemma i_ok_drained c i t x : Forall (i_ok c i t) (Core.drained val upd app c x).
Proof. apply i_ok_replay. Qed.
Lemma i_ok_map c i t r : Forall (i_ok c i t) (map (fun id' => Core.OResp val upd c id' None) r).
Proof. induction r as [|a r IH]; cbn [map]; constructor; [split; [right; reflexivity|exact I]|exact IH]. Qed.

Ltac i_out :=
  first [ apply i_ok_drained | apply i_ok_map | apply i_ok_proc
        | constructor; [split; [first [right; reflexivity|left; reflexivity]|exact I]|constructor]
        | constructor ].

Ltac i_peel tac :=
  lazymatch goal with
  | |- i_P _ _ _ _ (if ?b then _ else _) => destruct b; i_peel tac
  | |- i_P _ _ _ _ (Core.setx _ _ _ _) => apply i_P_setx; [i_peel tac|reflexivity]
  | |- i_P _ _ _ _ (Core.sety _ _ _ _) => apply i_P_sety; [i_peel tac|reflexivity]
  | |- i_P _ _ _ _ (Core.act _ _ _ _ _ _) => apply i_P_act; i_peel tac
  | |- i_P _ _ _ _ (Core.emit _ _ _ _) => apply i_P_emit; [i_peel tac|i_out]
  | _ => first [assumption | tac]
  end.

Section Handlers.
Variables (c i t w : nat).
Notation PP := (i_P c i t w).

Lemma i_dispose k : PP k -> PP (dispose_t i k).
Proof. intros H. unfold Core.dispose_t. cbv zeta. i_peel idtac. Qed.
Ltac h1 := lazymatch goal with |- i_P _ _ _ _ (Core.dispose_t _ _ _ _ _ _) => apply i_dispose; i_peel ltac:(idtac; h1) end.
Lemma i_remove k n : PP k -> PP (remove_direct i k n).
Proof. intros H. unfold Core.remove_direct. cbv zeta. i_peel ltac:(idtac; h1). Qed.
Ltac h2 := lazymatch goal with
  | |- i_P _ _ _ _ (Core.remove_direct _ _ _ _ _ _ _) => apply i_remove; i_peel ltac:(idtac; h2)
  | _ => h1 end.
Lemma i_unsubd k : PP k -> PP (unsubscribe_direct c i k).
Proof. intros H. unfold Core.unsubscribe_direct. i_peel ltac:(idtac; h2). Qed.
Lemma i_load k b : PP k -> PP (load_access c i k b).
Proof.
  intros H. unfold Core.load_access. cbv zeta. destruct (Core.inflight (ty k)).
  - i_peel idtac.
  - apply i_P_emit; [i_peel idtac|]. constructor; [|constructor].
    split; [right; reflexivity|]. split; [reflexivity|]. split; [reflexivity|]. destruct H as (A&_). exact A.
Qed.
Ltac h3 := lazymatch goal with
  | |- i_P _ _ _ _ (Core.load_access _ _ _ _ _ _) => apply i_load; i_peel ltac:(idtac; h3)
  | _ => h2 end.
Lemma i_hre k : PP k -> PP (handle_reaccess c i k).
Proof. intros H. unfold Core.handle_reaccess. cbv zeta. i_peel ltac:(idtac; h3). Qed.
Ltac h4 := lazymatch goal with
  | |- i_P _ _ _ _ (Core.handle_reaccess _ _ _ _ _ _ _) => apply i_hre; i_peel ltac:(idtac; h4)
  | _ => h3 end.
Lemma i_reaccess k : PP k -> PP (reaccess c i k).
Proof. intros H. unfold Core.reaccess. cbv zeta. i_peel ltac:(idtac; h4). Qed.
Lemma i_unq k : PP k -> PP (unqueue_reaccess c i k).
Proof. intros H. unfold Core.unqueue_reaccess. cbv zeta. i_peel ltac:(idtac; h4). Qed.
Lemma i_respond k ids : PP k -> PP (respond c i k ids).
Proof. intros H. unfold Core.respond. destruct ids as [|id r]; [exact H|]. cbv zeta. i_peel ltac:(idtac; h4). Qed.
Lemma i_onready k id : PP k -> PP (on_ready c i k id).
Proof. intros H. unfold Core.on_ready. cbv zeta. destruct (Core.loaded_ val upd i k); [apply i_respond; exact H|i_peel idtac]. Qed.
Lemma i_runcb g k b : PP k -> PP (run_cb c i g k b).
Proof.
  intros H. unfold Core.run_cb. destruct b as [id|].
  - destruct g; [destruct (Core.gone_ val upd i k); [exact H|apply i_onready; exact H]|].
    apply i_remove. i_peel idtac.
  - apply i_unq. destruct g; [exact H|apply i_unsubd; exact H].
Qed.
Lemma i_fold g l : forall k, PP k -> PP (fold_left (run_cb c i g) l k).
Proof. induction l as [|b l IH]; intros k H; cbn [fold_left]; [exact H|]. apply IH, i_runcb, H. Qed.
Lemma i_fold_act l : forall k, PP k -> PP (fold_left act l k).
Proof. induction l as [|a l IH]; intros k H; cbn [fold_left]; [exact H|]. apply IH, i_P_act, H. Qed.
End Handlers.

(* ---------------- the task of a grant ---------------- *)
Definition i_noacc (c : nat) (x : out_) : Prop :=
  (addressee x = None \/ addressee x = Some c) /\ match x with Core.OAccessReq _ _ _ _ _ => False | _ => True end.

Definition i_res (s : st_) (c : nat) (it : Core.qitem) (r : tk_ * option nat * nat * bool) : Prop :=
  let k := fst (fst (fst r)) in
  let t := match it with Core.QToken t => t | _ => Core.tok (conns s c) end in
  Core.tok (tx k) = t /\
  match snd (fst (fst r)) with
  | Some i => exists w, i_P c i t w k /\
       (w = c \/ w = Core.owner (insts s i) /\ (Core.cur (conns s c) = Some i \/ it = Core.QAccess i \/ it = Core.QSub i))
  | None => Forall (i_noacc c) (to k)
  end.

Lemma i_P_tok c i t w k : i_P c i t w k -> Core.tok (tx k) = t.
Proof. intros (A&_). exact A. Qed.

Lemma i_res_some s c it k i nx ms w :
  let t := match it with Core.QToken t => t | _ => Core.tok (conns s c) end in
  i_P c i t w k ->
  (w = c \/ w = Core.owner (insts s i) /\ (Core.cur (conns s c) = Some i \/ it = Core.QAccess i \/ it = Core.QSub i)) ->
  i_res s c it (k, Some i, nx, ms).
Proof. intros t H Hw. unfold i_res. cbn [fst snd]. split; [apply (i_P_tok _ _ _ _ _ H)|]. exists w. split; assumption. Qed.

Lemma i_P_k0 c i t w σ a x y : Core.tok x = t -> Core.owner y = w ->
  i_P c i t w {| Core.ts := σ; Core.ta := a; Core.tx := x; Core.ty := y; Core.to := [] |}.
Proof. intros A B. split; [exact A|]. split; [exact B|constructor]. Qed.

Lemma i_fold_act_tx l : forall k, tx (fold_left act l k) = tx k.
Proof. induction l as [|a l IH]; intros k; cbn [fold_left]; [reflexivity|]. rewrite IH. reflexivity. Qed.
Lemma i_fold_act_to l : forall k, to (fold_left act l k) = to k.
Proof. induction l as [|a l IH]; intros k; cbn [fold_left]; [reflexivity|]. rewrite IH. reflexivity. Qed.

Lemma i_task s c it q : Core.cqueue (conns s c) = it :: q -> i_res s c it (conn_task s c).
Proof.
  intros Eq. unfold Core.conn_task. rewrite Eq. cbv zeta.
  change (Core.cur (Core.with_q (conns s c) q)) with (Core.cur (conns s c)).
  destruct it as [id|id cnt|t|i|i|].
  - (* QReq *) destruct (Core.cur (conns s c)) as [i|] eqn:Ec.
    + apply (i_res_some s c (Core.QReq id) _ i _ _ (Core.owner (insts s i))); [|right; split; [reflexivity|left; exact Ec]].
      cbv zeta.
      match goal with |- context [Core.acc ?y] => destruct (Core.acc y) as [[|]|] end.
      * apply i_onready. apply i_P_k0; reflexivity.
      * apply i_remove. apply i_P_emit; [apply i_P_k0; reflexivity|i_out].
      * apply i_load. apply i_P_k0; reflexivity.
    + apply (i_res_some s c (Core.QReq id) _ _ _ _ c); [|left; reflexivity].
      cbv zeta. apply i_load. apply i_P_emit; [apply i_P_act, i_P_k0; reflexivity|].
      destruct (Core.mqsub val upd s); i_out.
  - (* QUnsub *) destruct (Core.cur (conns s c)) as [i|] eqn:Ec.
    + apply (i_res_some s c (Core.QUnsub id cnt) _ i _ _ (Core.owner (insts s i))); [|right; split; [reflexivity|left; exact Ec]].
      cbv zeta.
      assert (H : i_P c i (Core.tok (conns s c)) (Core.owner (insts s i))
                    {| Core.ts := Core.cv val upd s; Core.ta := []; Core.tx := Core.with_q (conns s c) q; Core.ty := insts s i; Core.to := [] |})
        by (apply i_P_k0; reflexivity).
      destruct (Nat.eqb cnt 0); [apply i_P_emit; [exact H|i_out]|].
      destruct (Nat.leb cnt _); [|apply i_P_emit; [exact H|i_out]].
      apply i_remove. i_peel idtac.
    + unfold i_res. cbn [fst snd Core.tx Core.emit Core.to List.app]. split; [reflexivity|].
      constructor; [|constructor]. split; [right; reflexivity|exact I].
  - (* QToken *) destruct (Core.cur (conns s c)) as [i|] eqn:Ec.
    + apply (i_res_some s c (Core.QToken t) _ i _ _ (Core.owner (insts s i))); [|right; split; [reflexivity|left; exact Ec]].
      cbv zeta. destruct (Core.tokset _); [apply i_reaccess|]; apply i_P_k0; reflexivity.
    + unfold i_res. cbn [fst snd Core.tx Core.to Core.tok]. split; [reflexivity|constructor].
  - (* QAccess *)
    apply (i_res_some s c (Core.QAccess i) _ i _ _ (Core.owner (insts s i))); [|right; split; [reflexivity|right; left; reflexivity]].
    cbv zeta.
    assert (H : i_P c i (Core.tok (conns s c)) (Core.owner (insts s i))
                  {| Core.ts := Core.cv val upd s; Core.ta := []; Core.tx := Core.with_q (conns s c) q; Core.ty := insts s i; Core.to := [] |})
      by (apply i_P_k0; reflexivity).
    destruct (Core.is_gone _ _ _ _); [exact H|]. destruct (Core.ans (insts s i)) as [g|]; [|exact H].
    apply i_fold. apply i_P_sety; [exact H|reflexivity].
  - (* QSub *)
    apply (i_res_some s c (Core.QSub i) _ i _ _ (Core.owner (insts s i))); [|right; split; [reflexivity|right; right; reflexivity]].
    cbv zeta.
    assert (H : i_P c i (Core.tok (conns s c)) (Core.owner (insts s i))
                  {| Core.ts := Core.cv val upd s; Core.ta := []; Core.tx := Core.with_q (conns s c) q; Core.ty := insts s i; Core.to := [] |})
      by (apply i_P_k0; reflexivity).
    destruct (Conv.cq val upd _) as [|[|e|] l].
    + apply i_P_act, H.
    + destruct (Conv.gone val upd _); [apply i_P_act, H|]. apply i_respond. apply i_P_sety; [apply i_P_act, H|reflexivity].
    + apply i_P_emit; [apply i_P_act, H|]. destruct (_ && _); i_out.
    + apply i_reaccess. apply i_P_act, H.
  - (* QDispose *)
    destruct (Core.cur (conns s c)) as [i|] eqn:Ec.
    + apply (i_res_some s c Core.QDispose _ i _ _ (Core.owner (insts s i))); [|right; split; [reflexivity|left; exact Ec]].
      cbv zeta. apply i_P_emit; [|i_out]. apply i_P_sety; [|reflexivity]. apply i_fold_act. apply i_P_k0; reflexivity.
    + unfold i_res. cbn [fst snd Core.tx Core.emit Core.sety Core.to]. rewrite i_fold_act_tx, i_fold_act_to. cbn [Core.tx Core.to List.app].
      split; [reflexivity|]. constructor; [|constructor]. split; [right; reflexivity|exact I].
Qed.

(* ---------------- what a grant does to the state ---------------- *)
Lemma i_grant s c it q : Core.cqueue (conns s c) = it :: q ->
  let r := conn_task s c in
  let k := fst (fst (fst r)) in
  snd (step s (Core.GrantConn upd c)) = to k /\
  conns (fst (step s (Core.GrantConn upd c))) = Core.set_conn (conns s) c (tx k) /\
  insts (fst (step s (Core.GrantConn upd c))) =
    match snd (fst (fst r)) with Some i => Core.set_inst (insts s) i (ty k) | None => insts s end.
Proof.
  intros Eq. unfold Core.step. rewrite Eq. cbv zeta. destruct (conn_task s c) as [[[k oi] nx] ms]. cbn [fst snd Core.conns Core.insts].
  split; [reflexivity|]. split; reflexivity.
Qed.

Lemma i_other s o : (forall c, o <> Core.GrantConn upd c) ->
  snd (step s o) = [] \/ snd (step s o) = [Core.OGetReq val upd].
Proof.
  intros Hne. destruct o as [c id|c id cnt|c|c t|i g| |u| | | |c]; unfold Core.step.
  - destruct (Core.disc _); left; reflexivity.
  - destruct (Core.disc _); left; reflexivity.
  - destruct (Core.disc _); left; reflexivity.
  - destruct (Core.is_done _); left; reflexivity.
  - destruct (_ && _); left; reflexivity.
  - left; reflexivity.
  - left; reflexivity.
  - left; reflexivity.
  - left; reflexivity.
  - cbn [snd]. destruct (_ && _); [right|left]; reflexivity.
  - exfalso. apply (Hne c). reflexivity.
Qed.

Lemma i_fan_tok σ σ' own l : forall f c,
  Core.tok (fold_left (fun g i => if Core.grew val upd σ σ' i then Core.set_conn g (own i) (Core.push_q (g (own i)) (Core.QSub i)) else g) l f c)
  = Core.tok (f c).
Proof.
  induction l as [|a l IH]; intros f c; cbn [fold_left]; [reflexivity|]. rewrite IH.
  destruct (Core.grew val upd σ σ' a); [|reflexivity]. unfold Core.set_conn. destruct (Nat.eqb_spec c (own a)) as [->|Hn]; reflexivity.
Qed.
Lemma i_pass_tok σ own f c : Core.tok (Core.pass val upd σ own f c) = Core.tok (f c).
Proof.
  unfold Core.pass. destruct (Core.nop_head val upd σ) as [i|]; [|reflexivity]. destruct (Core.is_closed val upd σ i); [reflexivity|].
  unfold Core.set_conn. destruct (Nat.eqb_spec c (own i)) as [->|Hn]; reflexivity.
Qed.

Lemma i_tok_step s o c : Core.tok (conns (fst (step s o)) c) <> Core.tok (conns s c) ->
  o = Core.GrantConn upd c /\ exists tk q, Core.cqueue (conns s c) = Core.QToken tk :: q.
Proof.
  intros H. destruct o as [c0 id|c0 id cnt|c0|c0 t|i g| |u| | | |c0].
  - exfalso. apply H. unfold Core.step. destruct (Core.disc _); [reflexivity|]. cbn [fst Core.conns]. unfold Core.set_conn.
    destruct (Nat.eqb_spec c c0) as [->|Hn]; reflexivity.
  - exfalso. apply H. unfold Core.step. destruct (Core.disc _); [reflexivity|]. cbn [fst Core.conns]. unfold Core.set_conn.
    destruct (Nat.eqb_spec c c0) as [->|Hn]; reflexivity.
  - exfalso. apply H. unfold Core.step. destruct (Core.disc _); [reflexivity|]. cbn [fst Core.conns]. unfold Core.set_conn.
    destruct (Nat.eqb_spec c c0) as [->|Hn]; reflexivity.
  - exfalso. apply H. unfold Core.step. destruct (Core.is_done _); [reflexivity|]. cbn [fst Core.conns]. unfold Core.set_conn.
    destruct (Nat.eqb_spec c c0) as [->|Hn]; reflexivity.
  - exfalso. apply H. unfold Core.step. destruct (_ && _); reflexivity.
  - exfalso. apply H. reflexivity.
  - exfalso. apply H. reflexivity.
  - exfalso. apply H. reflexivity.
  - exfalso. apply H. reflexivity.
  - exfalso. apply H. unfold Core.step. cbn [fst Core.conns]. rewrite i_pass_tok. unfold Core.fan. apply i_fan_tok.
  - destruct (Core.cqueue (conns s c0)) as [|it q] eqn:Eq.
    + exfalso. apply H. unfold Core.step. rewrite Eq. reflexivity.
    + destruct (i_grant s c0 it q Eq) as (_&E2&_). pose proof (i_task s c0 it q Eq) as (Rt&_). cbv zeta in E2.
      rewrite E2 in H. unfold Core.set_conn in H. destruct (Nat.eqb_spec c c0) as [Hc|Hn]; [subst c0|exfalso; apply H; reflexivity].
      split; [reflexivity|]. destruct it as [id|id cnt|t|i|i|]; try (exfalso; apply H; exact Rt).
      exists t, q. exact Eq.
Qed.

Theorem core_isolation : forall t ops o,
  let s := fst (exec t ops) in
  let '(s', outs) := Core.step val upd app norm s o in
  (forall c, o = Core.GrantConn upd c ->
     forall x, In x outs -> (addressee x = None \/ addressee x = Some c) /\
       match x with
       | Core.OAccessReq _ _ c' i tk => c' = c /\ Core.owner (insts s' i) = c /\ tk = Core.tok (conns s' c)
       | _ => True
       end) /\
  ((forall c, o <> Core.GrantConn upd c) -> forall x, In x outs -> addressee x = None).
Proof.
  intros t ops o s. assert (HI : gI s) by (apply g_I_exec; assumption). clearbody s.
  destruct (step s o) as [s' outs] eqn:Es. split.
  - intros c -> x Hin. destruct (Core.cqueue (conns s c)) as [|it q] eqn:Eq.
    + unfold Core.step in Es. rewrite Eq in Es. inversion Es; subst. destruct Hin.
    + destruct (i_grant s c it q Eq) as (E1&E2&E3). pose proof (i_task s c it q Eq) as R. unfold i_res in R.
      rewrite Es in E1, E2, E3. cbv zeta in E1, E2, E3, R.
      destruct (conn_task s c) as [[[k oi] nx] ms]. cbn [fst snd] in E1, E2, E3, R. destruct R as [Rt R]. subst outs.
      destruct oi as [i|].
      * destruct R as (w & (A&B&C) & Hw). rewrite Forall_forall in C. destruct (C x Hin) as [C1 C2]. split; [exact C1|].
        destruct x as [|c0 i0 t0| | | | | | | |]; try exact I. destruct C2 as (E4&E5&E6). subst c0 i0.
        split; [reflexivity|]. rewrite E2, E3. rewrite g_set_inst_eq, g_set_conn_eq. split; [|congruence].
        rewrite B. destruct Hw as [Hw|[Hw Hc]]; [exact Hw|]. rewrite Hw.
        destruct Hc as [Hc|[Hc|Hc]].
        -- apply (g_i_cur _ _ _ _ _ HI c i Hc).
        -- assert (Hq : g_qok val upd s c it) by (apply (g_i_q _ _ _ _ _ HI); rewrite Eq; left; reflexivity).
           rewrite Hc in Hq. apply Hq.
        -- assert (Hq : g_qok val upd s c it) by (apply (g_i_q _ _ _ _ _ HI); rewrite Eq; left; reflexivity).
           rewrite Hc in Hq. apply Hq.
      * rewrite Forall_forall in R. destruct (R x Hin) as [C1 C2]. split; [exact C1|]. destruct x; try exact I. destruct C2.
  - intros Hne x Hin. destruct (i_other s o Hne) as [E|E]; rewrite Es in E; cbn [snd] in E; subst outs.
    + destruct Hin.
    + destruct Hin as [<-|[]]. reflexivity.
Qed.

(* a connection's token is changed by its own token events only *)
Theorem core_token_own : forall t ops o c,
  let s := fst (exec t ops) in
  let s' := fst (Core.step val upd app norm s o) in
  Core.tok (conns s' c) <> Core.tok (conns s c) -> o = Core.GrantConn upd c /\ exists tk q, Core.cqueue (conns s c) = Core.QToken tk :: q.
Proof. intros t ops o c s s' H. apply i_tok_step. exact H. Qed.

End CoreProofs.

Print Assumptions core_isolation.
Print Assumptions core_token_own.
