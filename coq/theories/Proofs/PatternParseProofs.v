(* C12: proofs about the model of rescache.ParseResourcePattern / ResourcePattern.Match
   (models in Pure/Pattern.v and Pure/PatternParse.v):
     parse_join              the parser accepts every well-formed pattern, hasWild is right
     parse_sound             the parser accepts only well-formed patterns
     match_model_correct     Match = NATS token matching for valid patterns and names
     invalid_matches_nothing an invalid pattern matches nothing *)
From Coq Require Import List Ascii NArith Bool Arith Lia.
From RG Require Import Pure.Pattern Pure.PatternParse.
Import ListNotations.

(* a byte allowed inside a token: 33..126, not '?', not '.' *)
Definition okc (c : ascii) : bool := negb (badc c) && negb (is c dot).
Definition tok_chars_ok (t : list ascii) : Prop := forallb okc t = true.
Definition has_wild (pt : list (list ascii)) : bool :=
  existsb (fun t => leqb t [star] || leqb t [gt]) pt.
(* a well-formed pattern on tokens: valid_pat plus the byte-range condition on literal tokens *)
Definition wf_pat (pt : list (list ascii)) : Prop :=
  pt <> [] /\ valid_pat pt /\ Forall tok_chars_ok pt.

(* ---------- small facts ---------- *)
Lemma is_true_eq c d : is c d = true -> c = d.
Proof. unfold is. intros H. apply Ascii.eqb_eq. exact H. Qed.

Lemma bool_eq_iff (a b : bool) : (a = true <-> b = true) -> a = b.
Proof.
  destruct a, b; intros [H1 H2]; try reflexivity.
  - symmetry. apply H1. reflexivity.
  - apply H2. reflexivity.
Qed.

Lemma okc_facts c : okc c = true -> badc c = false /\ is c dot = false.
Proof.
  unfold okc. intros H. apply andb_prop in H as [H1 H2].
  apply negb_true_iff in H1. apply negb_true_iff in H2. split; assumption.
Qed.

Lemma okc_intro c : badc c = false -> is c dot = false -> okc c = true.
Proof. intros H1 H2. unfold okc. rewrite H1, H2. reflexivity. Qed.

Lemma litc_intro c : is c dot = false -> is c star = false -> is c gt = false -> litc c = true.
Proof. intros H1 H2 H3. unfold litc. rewrite H1, H2, H3. reflexivity. Qed.

Lemma okc_nodot t : tok_chars_ok t -> nodot t.
Proof.
  unfold tok_chars_ok, nodot. induction t as [|c t IH]; cbn [forallb]; intros H; [reflexivity|].
  apply andb_prop in H as [Hc Ht]. destruct (okc_facts c Hc) as [_ Hd].
  rewrite Hd, (IH Ht). reflexivity.
Qed.

(* ---------- last ---------- *)
Lemma last_cons (A : Type) (c : A) (p : list A) (d : A) : last (c :: p) d = last p c.
Proof.
  revert c d. induction p as [|x p IH]; intros c d; [reflexivity|].
  change (last (c :: x :: p) d) with (last (x :: p) d).
  rewrite (IH x d), (IH x c). reflexivity.
Qed.

Lemma last_default (A : Type) (b : list A) (x d : A) : b <> [] -> last b x = last b d.
Proof. intros Hne. destruct b as [|y b]; [congruence|]. rewrite !last_cons. reflexivity. Qed.

Lemma last_app_ne (A : Type) (a b : list A) (d : A) : b <> [] -> last (a ++ b) d = last b d.
Proof.
  intros Hne. revert d. induction a as [|x a IH]; intros d; cbn [app]; [reflexivity|].
  rewrite last_cons, IH. apply last_default. exact Hne.
Qed.

Lemma last_dot_indep p c d :
  is c dot = false -> is d dot = false -> is (last p c) dot = is (last p d) dot.
Proof.
  intros Hc Hd. destruct p as [|x p].
  - cbn [last]. rewrite Hc, Hd. reflexivity.
  - rewrite !last_cons. reflexivity.
Qed.

Lemma last_nodot : forall t d, t <> [] -> nodot t -> is (last t d) dot = false.
Proof.
  induction t as [|c t IH]; intros d Hne Hnd; [congruence|].
  rewrite last_cons. unfold nodot in Hnd. cbn [forallb] in Hnd.
  apply andb_prop in Hnd as [Hc Ht]. apply negb_true_iff in Hc.
  destruct t as [|x t'].
  - cbn [last]. exact Hc.
  - apply IH; [discriminate|exact Ht].
Qed.

(* ---------- token-list facts ---------- *)
Lemma join_P t ts : join (t :: ts) = t ++ P ts.
Proof. rewrite join_cons. reflexivity. Qed.

Lemma has_wild_cons t pt :
  has_wild (t :: pt) = (leqb t [star] || leqb t [gt]) || has_wild pt.
Proof. reflexivity. Qed.

Lemma valid_pat_cases t pt :
  valid_pat (t :: pt) -> (t = [gt] /\ pt = []) \/ (pat_tok t /\ valid_pat pt).
Proof.
  destruct pt as [|t2 pt']; intros H.
  - cbn in H. destruct H as [H|H]; [left; split; [exact H|reflexivity]|right; split; [exact H|exact I]].
  - right. exact H.
Qed.

Lemma valid_pat_cons t pt : pat_tok t -> valid_pat pt -> valid_pat (t :: pt).
Proof.
  intros Ht Hv. destruct pt as [|t2 pt'].
  - right. exact Ht.
  - split; [exact Ht|exact Hv].
Qed.

Lemma wf_cons t pt :
  pat_tok t -> tok_chars_ok t -> (pt = [] \/ wf_pat pt) -> wf_pat (t :: pt).
Proof.
  intros Ht Hc [->|(Hne & Hv & Hf)].
  - split; [discriminate|]. split; [right; exact Ht|constructor; [exact Hc|constructor]].
  - split; [discriminate|]. split; [apply valid_pat_cons; assumption|constructor; assumption].
Qed.

Lemma wf_inv t pt :
  wf_pat (t :: pt) ->
  tok_chars_ok t /\ ((t = [gt] /\ pt = []) \/ (pat_tok t /\ (pt = [] \/ wf_pat pt))).
Proof.
  intros (Hne & Hv & Hf). inversion Hf as [|? ? Hc Hf']; subst.
  split; [exact Hc|].
  destruct (valid_pat_cases _ _ Hv) as [H|[Ht Hv']]; [left; exact H|right].
  split; [exact Ht|].
  destruct pt as [|t2 pt']; [left; reflexivity|right].
  split; [discriminate|]. split; assumption.
Qed.

Lemma wf_name_toks : forall pt, wf_pat pt -> Forall name_tok pt.
Proof.
  induction pt as [|t pt IH]; intros Hwf; [constructor|].
  destruct (wf_inv _ _ Hwf) as [Hc [[Et Ept]|[Ht Hrest]]].
  - subst t. rewrite Ept. constructor; [split; [discriminate|reflexivity]|constructor].
  - constructor.
    + split; [apply pat_tok_nonempty; exact Ht|apply okc_nodot; exact Hc].
    + destruct Hrest as [Ept|Hwf']; [rewrite Ept; constructor|apply IH; exact Hwf'].
Qed.

Lemma join_last : forall ts,
  Forall name_tok ts -> ts <> [] -> is (last (join ts) dot) dot = false.
Proof.
  induction ts as [|t ts IH]; intros Hf Hne; [congruence|].
  inversion Hf as [|? ? [Htne Htnd] Hf']; subst.
  rewrite join_P. destruct ts as [|t2 ts'].
  - cbn [P]. rewrite app_nil_r. apply last_nodot; assumption.
  - change (P (t2 :: ts')) with (dot :: join (t2 :: ts')).
    rewrite last_app_ne by discriminate. rewrite last_cons.
    apply IH; [exact Hf'|discriminate].
Qed.

(* ---------- 1. the parser accepts every well-formed pattern ---------- *)
Lemma pscan_litc c p st w :
  litc c = true -> okc c = true -> pscan (c :: p) st false w = pscan p false false w.
Proof.
  intros Hl Ho. destruct (litc_facts c Hl) as (Hd & Hs & Hg). destruct (okc_facts c Ho) as (Hb & _).
  cbn [pscan]. rewrite Hd, Hb, Hg, Hs. reflexivity.
Qed.

Lemma pscan_lits : forall t r w,
  forallb litc t = true -> forallb okc t = true ->
  pscan (t ++ r) false false w = pscan r false false w.
Proof.
  induction t as [|c t IH]; intros r w Hl Ho; cbn [app]; [reflexivity|].
  cbn [forallb] in Hl, Ho. apply andb_prop in Hl as [Hlc Hlt]. apply andb_prop in Ho as [Hoc Hot].
  rewrite (pscan_litc c _ false w Hlc Hoc). apply IH; assumption.
Qed.

Lemma pscan_dot p al w : pscan (dot :: p) false al w = pscan p true false w.
Proof. reflexivity. Qed.

Lemma pscan_star p w : pscan (star :: p) true false w = pscan p false true true.
Proof. reflexivity. Qed.

Lemma pscan_join : forall pt w,
  wf_pat pt -> pscan (join pt) true false w = Some (w || has_wild pt).
Proof.
  induction pt as [|t pt' IH]; intros w Hwf; [destruct Hwf as [H _]; congruence|].
  destruct (wf_inv _ _ Hwf) as [Hc [[Et Ept]|[Ht Hrest]]].
  - subst t. rewrite Ept. destruct w; reflexivity.
  - rewrite join_P. destruct Ht as [Et|Hlit].
    + (* "*" *)
      subst t. cbn [app]. rewrite pscan_star.
      rewrite has_wild_cons. change (leqb [star] [star]) with true. cbn [orb]. rewrite orb_true_r.
      destruct Hrest as [Ept|Hwf'].
      * rewrite Ept. reflexivity.
      * destruct pt' as [|t2 pt'']; [destruct Hwf' as [H _]; congruence|].
        change (P (t2 :: pt'')) with (dot :: join (t2 :: pt'')). rewrite pscan_dot.
        rewrite (IH true Hwf'). reflexivity.
    + (* literal token *)
      destruct (lit_not_wild t Hlit) as (Hng & Hns & Hl). destruct Hlit as [Htne _].
      destruct t as [|c t']; [congruence|].
      rewrite has_wild_cons, Hns, Hng. cbn [orb].
      unfold tok_chars_ok in Hc. cbn [forallb] in Hl, Hc.
      apply andb_prop in Hl as [Hlc Hlt]. apply andb_prop in Hc as [Hoc Hot].
      cbn [app]. rewrite (pscan_litc c _ true w Hlc Hoc). rewrite (pscan_lits t' _ w Hlt Hot).
      destruct Hrest as [Ept|Hwf'].
      * rewrite Ept. cbn. rewrite orb_false_r. reflexivity.
      * destruct pt' as [|t2 pt'']; [destruct Hwf' as [H _]; congruence|].
        change (P (t2 :: pt'')) with (dot :: join (t2 :: pt'')). rewrite pscan_dot.
        apply IH. exact Hwf'.
Qed.

Theorem parse_join : forall pt, wf_pat pt -> parse (join pt) = Some (has_wild pt).
Proof.
  intros pt Hwf. pose proof Hwf as (Hne & Hv & _).
  pose proof (join_pat_nonempty pt Hv Hne) as Hj.
  pose proof (join_last pt (wf_name_toks pt Hwf) Hne) as Hl.
  unfold parse. destruct (join pt) as [|c p] eqn:E; [congruence|].
  rewrite Hl. rewrite <- E. rewrite (pscan_join pt false Hwf). reflexivity.
Qed.

(* ---------- 2. the parser accepts only well-formed patterns ---------- *)
Definition owf (pt : list (list ascii)) : Prop := pt = [] \/ wf_pat pt.

(* the three reachable loop states: token start, inside a literal token, after a '*' *)
Lemma pscan_sound : forall p w w',
  (pscan p true false w = Some w' -> p <> [] -> is (last p dot) dot = false ->
     exists pt, wf_pat pt /\ p = join pt /\ w' = w || has_wild pt)
  /\ (pscan p false false w = Some w' -> is (last p star) dot = false ->
     exists t pt, forallb litc t = true /\ forallb okc t = true /\ owf pt /\
                  p = t ++ P pt /\ w' = w || has_wild pt)
  /\ (pscan p false true w = Some w' -> is (last p star) dot = false ->
     exists pt, owf pt /\ p = P pt /\ w' = w || has_wild pt).
Proof.
  induction p as [|c p IH]; intros w w'.
  - split; [|split].
    + intros _ H _. congruence.
    + cbn [pscan]. intros H _. injection H as Hw. exists [], [].
      split; [reflexivity|]. split; [reflexivity|]. split; [left; reflexivity|].
      split; [reflexivity|]. cbn. rewrite orb_false_r. symmetry. exact Hw.
    + cbn [pscan]. intros H _. injection H as Hw. exists [].
      split; [left; reflexivity|]. split; [reflexivity|].
      cbn. rewrite orb_false_r. symmetry. exact Hw.
  - split; [|split].
    + (* token start *)
      intros H _ Hl. rewrite last_cons in Hl. cbn [pscan negb orb] in H.
      destruct (is c dot) eqn:Ed; [discriminate H|].
      destruct (badc c) eqn:Eb; [discriminate H|].
      destruct (is c gt) eqn:Eg.
      * (* '>' : must be the last byte *)
        destruct p as [|x p']; cbn [pscan negb orb] in H; [|discriminate H].
        injection H as Hw. apply is_true_eq in Eg. subst c. exists [[gt]].
        split.
        { split; [discriminate|]. split; [left; reflexivity|].
          constructor; [reflexivity|constructor]. }
        split; [reflexivity|]. cbn. rewrite orb_true_r. symmetry. exact Hw.
      * destruct (is c star) eqn:Es.
        -- (* '*' *)
           apply is_true_eq in Es. subst c.
           destruct (IH true w') as (_ & _ & IH3).
           destruct (IH3 H Hl) as (pt & Ho & Hp & Hw).
           exists ([star] :: pt). split.
           { apply wf_cons; [left; reflexivity|reflexivity|exact Ho]. }
           split; [rewrite join_P, Hp; reflexivity|].
           rewrite has_wild_cons. change (leqb [star] [star]) with true. cbn [orb].
           rewrite orb_true_r. rewrite Hw. reflexivity.
        -- (* literal byte *)
           destruct (IH w w') as (_ & IH2 & _).
           assert (Hl2 : is (last p star) dot = false).
           { rewrite (last_dot_indep p star c eq_refl Ed). exact Hl. }
           destruct (IH2 H Hl2) as (t & pt & Hlt & Hot & Ho & Hp & Hw).
           exists ((c :: t) :: pt). split.
           { apply wf_cons; [right; split; [discriminate|]| |exact Ho].
             - change (forallb litc (c :: t) = true). cbn [forallb].
               rewrite Hlt, (litc_intro c Ed Es Eg). reflexivity.
             - unfold tok_chars_ok. cbn [forallb].
               rewrite Hot, (okc_intro c Eb Ed). reflexivity. }
           split; [rewrite join_P, Hp; reflexivity|].
           rewrite has_wild_cons. cbn [leqb]. unfold is in Es, Eg. rewrite Es, Eg.
           cbn [andb orb]. exact Hw.
    + (* inside a literal token *)
      intros H Hl. rewrite last_cons in Hl. cbn [pscan negb orb] in H.
      destruct (is c dot) eqn:Ed.
      * apply is_true_eq in Ed. subst c.
        assert (Hpne : p <> []).
        { intros Ep. rewrite Ep in Hl. cbn in Hl. discriminate Hl. }
        destruct (IH w w') as (IH1 & _ & _).
        destruct (IH1 H Hpne Hl) as (pt & Hwf & Hp & Hw).
        exists [], pt. split; [reflexivity|]. split; [reflexivity|].
        split; [right; exact Hwf|]. split; [|exact Hw].
        destruct pt as [|t2 pt']; [destruct Hwf as [X _]; congruence|].
        cbn [app P]. f_equal. exact Hp.
      * destruct (badc c) eqn:Eb; [discriminate H|].
        destruct (is c gt) eqn:Eg; [discriminate H|].
        destruct (is c star) eqn:Es; [discriminate H|].
        destruct (IH w w') as (_ & IH2 & _).
        assert (Hl2 : is (last p star) dot = false).
        { rewrite (last_dot_indep p star c eq_refl Ed). exact Hl. }
        destruct (IH2 H Hl2) as (t & pt & Hlt & Hot & Ho & Hp & Hw).
        exists (c :: t), pt.
        split; [cbn [forallb]; rewrite Hlt, (litc_intro c Ed Es Eg); reflexivity|].
        split; [cbn [forallb]; rewrite Hot, (okc_intro c Eb Ed); reflexivity|].
        split; [exact Ho|]. split; [cbn [app]; f_equal; exact Hp|exact Hw].
    + (* after '*' *)
      intros H Hl. rewrite last_cons in Hl. cbn [pscan negb orb] in H.
      destruct (is c dot) eqn:Ed; [|discriminate H].
      apply is_true_eq in Ed. subst c.
      assert (Hpne : p <> []).
      { intros Ep. rewrite Ep in Hl. cbn in Hl. discriminate Hl. }
      destruct (IH w w') as (IH1 & _ & _).
      destruct (IH1 H Hpne Hl) as (pt & Hwf & Hp & Hw).
      exists pt. split; [right; exact Hwf|]. split; [|exact Hw].
      destruct pt as [|t2 pt']; [destruct Hwf as [X _]; congruence|].
      cbn [P]. f_equal. exact Hp.
Qed.

Theorem parse_sound : forall p w,
  parse p = Some w -> exists pt, wf_pat pt /\ p = join pt /\ w = has_wild pt.
Proof.
  intros p w H. unfold parse in H. destruct p as [|c p']; [discriminate H|].
  destruct (is (last (c :: p') dot) dot) eqn:El; [discriminate H|].
  destruct (pscan_sound (c :: p') false w) as (S1 & _ & _).
  assert (Hne : c :: p' <> []) by discriminate.
  destruct (S1 H Hne El) as (pt & Hwf & Hp & Hw).
  exists pt. split; [exact Hwf|]. split; [exact Hp|exact Hw].
Qed.

(* ---------- 3. Match = token matching ---------- *)
Definition dotstart (r : list ascii) : Prop := match r with [] => True | c :: _ => c = dot end.

Lemma P_dotstart ts : dotstart (P ts).
Proof. destruct ts; cbn; auto. Qed.

Lemma app_nodot_inj : forall t u r r',
  nodot t -> nodot u -> dotstart r -> dotstart r' -> t ++ r = u ++ r' -> t = u /\ r = r'.
Proof.
  induction t as [|c t IH]; intros [|d u] r r' Ht Hu Hr Hr' E; cbn [app] in E.
  - split; [reflexivity|exact E].
  - exfalso. subst r. cbn in Hr. subst d. unfold nodot in Hu. cbn in Hu. discriminate Hu.
  - exfalso. subst r'. cbn in Hr'. subst c. unfold nodot in Ht. cbn in Ht. discriminate Ht.
  - injection E as Ecd E'. unfold nodot in Ht, Hu. cbn [forallb] in Ht, Hu.
    apply andb_prop in Ht as [_ Ht]. apply andb_prop in Hu as [_ Hu].
    destruct (IH u r r' Ht Hu Hr Hr' E') as [Etu Err].
    split; [congruence|exact Err].
Qed.

(* join is injective on lists of non-empty dot-free tokens *)
Lemma join_inj : forall a b, Forall name_tok a -> Forall name_tok b -> join a = join b -> a = b.
Proof.
  induction a as [|t a IH]; intros [|u b] Ha Hb E.
  - reflexivity.
  - exfalso. assert (Hne : u :: b <> []) by discriminate.
    apply (join_name_nonempty (u :: b) Hb Hne). symmetry. exact E.
  - exfalso. assert (Hne : t :: a <> []) by discriminate.
    apply (join_name_nonempty (t :: a) Ha Hne). exact E.
  - inversion Ha as [|? ? [Htne Htnd] Ha']; subst.
    inversion Hb as [|? ? [Hune Hund] Hb']; subst.
    rewrite !join_P in E.
    destruct (app_nodot_inj _ _ _ _ Htnd Hund (P_dotstart a) (P_dotstart b) E) as [Etu EP].
    subst u. f_equal.
    destruct a as [|t2 a']; destruct b as [|u2 b']; cbn [P] in EP; try discriminate EP; [reflexivity|].
    injection EP as EP. apply IH; assumption.
Qed.

Lemma spec_lit : forall pt st, Forall lit_tok pt -> (spec pt st = true <-> pt = st).
Proof.
  induction pt as [|t pt IH]; intros st Hf.
  - destruct st as [|u st']; cbn; split; intros H; try reflexivity; discriminate H.
  - inversion Hf as [|? ? Hl Hf']; subst.
    destruct (lit_not_wild t Hl) as (Hng & Hns & _).
    cbn [spec]. rewrite Hng. destruct st as [|u st'].
    + split; intros H; discriminate H.
    + rewrite Hns. cbn [orb]. split; intros H.
      * apply andb_prop in H as [H1 H2]. apply leqb_eq in H1.
        apply (proj1 (IH st' Hf')) in H2. subst. reflexivity.
      * injection H as H1 H2. subst u st'. rewrite leqb_refl. cbn [andb].
        apply (proj2 (IH pt Hf')). reflexivity.
Qed.

Lemma nowild_lits : forall pt, valid_pat pt -> has_wild pt = false -> Forall lit_tok pt.
Proof.
  induction pt as [|t pt IH]; intros Hv Hw; [constructor|].
  rewrite has_wild_cons in Hw. apply orb_false_iff in Hw as [Hw1 Hw2].
  apply orb_false_iff in Hw1 as [Hs Hg].
  destruct (valid_pat_cases _ _ Hv) as [[Et Ept]|[Ht Hv']].
  - subst t. vm_compute in Hg. discriminate Hg.
  - constructor; [|apply IH; assumption].
    destruct Ht as [Et|Hl]; [subst t; vm_compute in Hs; discriminate Hs|exact Hl].
Qed.

(* the no-wildcard branch: plain string comparison is token matching *)
Lemma leqb_join_spec pt st :
  Forall lit_tok pt -> Forall name_tok pt -> Forall name_tok st ->
  leqb (join st) (join pt) = spec pt st.
Proof.
  intros Hl Hpn Hst. apply bool_eq_iff. split; intros H.
  - apply leqb_eq in H. apply (proj2 (spec_lit pt st Hl)).
    apply join_inj; [exact Hpn|exact Hst|symmetry; exact H].
  - apply (proj1 (spec_lit pt st Hl)) in H. subst st. apply leqb_refl.
Qed.

Theorem match_model_correct : forall pt st,
  wf_pat pt -> st <> [] -> Forall name_tok st ->
  match_model (join pt) (join st) = spec pt st.
Proof.
  intros pt st Hwf Hsne Hst. pose proof Hwf as (Hne & Hv & Hc).
  unfold match_model. rewrite (parse_join pt Hwf). destruct (has_wild pt) eqn:Ew.
  - apply pmatch_spec; assumption.
  - apply leqb_join_spec; [apply nowild_lits; assumption|apply wf_name_toks; exact Hwf|exact Hst].
Qed.

(* ---------- 4. an invalid pattern matches nothing ---------- *)
Theorem invalid_matches_nothing : forall p s, parse p = None -> match_model p s = false.
Proof. intros p s H. unfold match_model. rewrite H. reflexivity. Qed.

Print Assumptions parse_join.
Print Assumptions parse_sound.
Print Assumptions match_model_correct.
Print Assumptions invalid_matches_nothing.

(* ---------- sanity examples ---------- *)
From Coq Require Import String.
Definition ls (s : string) : list ascii := list_ascii_of_string s.
Example ex_parse1 : parse (ls "a.*.>") = Some true. Proof. vm_compute. reflexivity. Qed.
Example ex_parse2 : parse (ls "test.model") = Some false. Proof. vm_compute. reflexivity. Qed.
Example ex_parse3 : parse (ls "te*") = None. Proof. vm_compute. reflexivity. Qed.
Example ex_parse4 : parse (ls "a.>.b") = None. Proof. vm_compute. reflexivity. Qed.
Example ex_parse5 : parse (ls "a..b") = None. Proof. vm_compute. reflexivity. Qed.
Example ex_parse6 : parse (ls "a.") = None. Proof. vm_compute. reflexivity. Qed.
Example ex_parse7 : parse (ls "a?b") = None. Proof. vm_compute. reflexivity. Qed.
Example ex_match1 : match_model (ls "a.*.>") (ls "a.b.c") = true. Proof. vm_compute. reflexivity. Qed.
Example ex_match2 : match_model (ls "a.*") (ls "a.b.c") = false. Proof. vm_compute. reflexivity. Qed.
Example ex_match3 : match_model (ls "a.b") (ls "a.b") = true. Proof. vm_compute. reflexivity. Qed.
Example ex_match4 : match_model (ls "a.>") (ls "a") = false. Proof. vm_compute. reflexivity. Qed.
Example ex_match5 : match_model (ls "te*") (ls "test") = false. Proof. vm_compute. reflexivity. Qed.
