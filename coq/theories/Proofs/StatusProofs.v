(* C17: the status tables, stated for all integers / all codes. *)
From Coq Require Import ZArith Bool List Lia.
From RG Require Import Pure.Status.
Import ListNotations.
Open Scope Z_scope.

Theorem error_status_table : forall c,
  error_status c =
    match c with
    | NotFound | MethodNotFound | Timeout => 404
    | AccessDenied => 401
    | Forbidden => 403
    | MethodNotAllowed => 405
    | SubjectTooLong => 414
    | InternalError => 500
    | ServiceUnavailable => 503
    | InvalidParams | InvalidQuery | NoSubscription | InvalidRequest | UnsupportedProtocol | Deleted
    | BadRequest | NotImplemented | OtherCode => 400
    end.
Proof. destruct c; reflexivity. Qed.

Theorem error_status_is_error : forall c, 400 <= error_status c < 600.
Proof. destruct c; cbn; lia. Qed.

(* a service-supplied meta status is honoured exactly within 300..599 *)
Theorem direct_iff_range : forall s, is_direct (Some s) = true <-> 300 <= s <= 599.
Proof. intros s. unfold is_direct. rewrite andb_true_iff, Z.leb_le, Z.ltb_lt. lia. Qed.

Theorem no_status_not_direct : is_direct None = false.
Proof. reflexivity. Qed.

Theorem valid_iff_absent_or_range : forall o,
  is_valid_status o = true <-> match o with None => True | Some s => 300 <= s <= 599 end.
Proof.
  intros [s|]; cbn; [|tauto]. rewrite andb_true_iff, Z.leb_le, Z.ltb_lt. lia.
Qed.

(* a status used to end a request maps to an error of the matching class *)
Theorem status_error_class : forall s,
  (400 <= s <= 499 -> In (status_error s) [AccessDenied; Forbidden; NotFound; MethodNotAllowed; Timeout; BadRequest]) /\
  (500 <= s <= 599 -> In (status_error s) [NotImplemented; ServiceUnavailable; Timeout; InternalError]) /\
  (s < 400 \/ 600 <= s -> status_error s = InternalError).
Proof.
  intros s. unfold status_error. repeat split; intros H.
  - replace ((400 <=? s) && (s <? 500)) with true by (symmetry; rewrite andb_true_iff, Z.leb_le, Z.ltb_lt; lia).
    destruct ((s =? 401) || (s =? 402) || (s =? 407)); [cbn; tauto|].
    destruct ((s =? 403) || (s =? 451)); [cbn; tauto|].
    destruct ((s =? 410) || (s =? 404)); [cbn; tauto|].
    destruct (s =? 405); [cbn; tauto|]. destruct (s =? 408); cbn; tauto.
  - replace ((400 <=? s) && (s <? 500)) with false by (symmetry; rewrite andb_false_iff, Z.leb_gt, Z.ltb_ge; lia).
    replace ((500 <=? s) && (s <? 600)) with true by (symmetry; rewrite andb_true_iff, Z.leb_le, Z.ltb_lt; lia).
    destruct (s =? 501); [cbn; tauto|]. destruct (s =? 503); [cbn; tauto|]. destruct (s =? 504); cbn; tauto.
  - replace ((400 <=? s) && (s <? 500)) with false by (symmetry; rewrite andb_false_iff, Z.leb_gt, Z.ltb_ge; lia).
    replace ((500 <=? s) && (s <? 600)) with false by (symmetry; rewrite andb_false_iff, Z.leb_gt, Z.ltb_ge; lia).
    reflexivity.
Qed.
