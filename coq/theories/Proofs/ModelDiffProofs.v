(* Proofs about Pure/ModelDiff.v (processResetModel + handleEventChange's re-filter) over Base/Value.v.
   No axioms; every theorem is closed under the global context (see the end of the file).

   Three of the requested statements are FALSE of the model as written; machine-checked
   counterexamples are given below (set_key_not_uniq_counterexample,
   apply_change_client_uniq_counterexample, reset_converges_counterexample,
   reset_noop_iff_counterexample) and the strongest true variants are proved with suffix _partial:
     - set_key keeps key-uniqueness only for a fresh key or on a key-sorted list;
       apply_change_client_partial therefore assumes `ksorted m` (its lookup half needs no hypothesis);
     - reset_converges_partial and reset_noop_iff_partial additionally assume that the cached
       model `old` holds no VDelete value. *)
From Coq Require Import List Arith Bool Lia.
From RG Require Import Base.Value Pure.ModelDiff.
Import ListNotations.

Definition uniq (m : kv) := NoDup (keys m).

(* key-sorted association lists: the canonical form that set_key maintains *)
Fixpoint sorted (l : list nat) : Prop :=
  match l with
  | [] => True
  | x :: l' => (forall y, In y l' -> x < y) /\ sorted l'
  end.
Definition ksorted (m : kv) := sorted (keys m).

(* ---------- M1: lookup / set_key / remove_key ---------- *)

Lemma lookup_set_same : forall k v m, lookup k (set_key k v m) = Some v.
Proof.
  intros k v m. induction m as [|[k' v'] m IH]; cbn [set_key lookup].
  - rewrite Nat.eqb_refl. reflexivity.
  - destruct (Nat.eqb k k') eqn:E.
    + cbn [lookup]. rewrite Nat.eqb_refl. reflexivity.
    + destruct (Nat.ltb k k'); cbn [lookup].
      * rewrite Nat.eqb_refl. reflexivity.
      * rewrite E. exact IH.
Qed.

Lemma lookup_set_other : forall k k' v m, k <> k' -> lookup k (set_key k' v m) = lookup k m.
Proof.
  intros k k' v m Hne. apply Nat.eqb_neq in Hne.
  induction m as [|[k2 v2] m IH]; cbn [set_key lookup].
  - rewrite Hne. reflexivity.
  - destruct (Nat.eqb k' k2) eqn:E.
    + apply Nat.eqb_eq in E. subst k2. cbn [lookup]. rewrite Hne. reflexivity.
    + destruct (Nat.ltb k' k2); cbn [lookup].
      * rewrite Hne. reflexivity.
      * destruct (Nat.eqb k k2); [reflexivity | exact IH].
Qed.

Lemma lookup_set : forall k k' v m,
  lookup k (set_key k' v m) = if Nat.eqb k k' then Some v else lookup k m.
Proof.
  intros k k' v m. destruct (Nat.eqb_spec k k') as [e|n].
  - subst k'. apply lookup_set_same.
  - apply lookup_set_other. exact n.
Qed.

Lemma lookup_remove_same : forall k m, lookup k (remove_key k m) = None.
Proof.
  intros k m. induction m as [|[k' v'] m IH]; cbn [remove_key lookup].
  - reflexivity.
  - destruct (Nat.eqb k k') eqn:E.
    + exact IH.
    + cbn [lookup]. rewrite E. exact IH.
Qed.

Lemma lookup_remove_other : forall k k' m, k <> k' -> lookup k (remove_key k' m) = lookup k m.
Proof.
  intros k k' m Hne. induction m as [|[k2 v2] m IH]; cbn [remove_key lookup].
  - reflexivity.
  - destruct (Nat.eqb_spec k' k2) as [e|n].
    + subst k2. rewrite (proj2 (Nat.eqb_neq k k') Hne). exact IH.
    + cbn [lookup]. destruct (Nat.eqb k k2); [reflexivity | exact IH].
Qed.

Lemma lookup_remove : forall k k' m,
  lookup k (remove_key k' m) = if Nat.eqb k k' then None else lookup k m.
Proof.
  intros k k' m. destruct (Nat.eqb_spec k k') as [e|n].
  - subst k'. apply lookup_remove_same.
  - apply lookup_remove_other. exact n.
Qed.

Lemma lookup_None_iff : forall k m, lookup k m = None <-> ~ In k (keys m).
Proof.
  intros k m. unfold keys. induction m as [|[k' v'] m IH]; cbn [lookup map fst In].
  - split; [intros _ H; exact H | reflexivity].
  - destruct (Nat.eqb_spec k k') as [e|n].
    + split; intros H.
      * discriminate H.
      * exfalso. apply H. left. symmetry. exact e.
    + split; intros H.
      * intros [H1|H1].
        -- apply n. symmetry. exact H1.
        -- apply IH in H. exact (H H1).
      * apply IH. intros H1. apply H. right. exact H1.
Qed.

Lemma has_key_false : forall k m, has_key k m = false -> lookup k m = None.
Proof.
  intros k m H. unfold has_key in H. destruct (lookup k m); [discriminate H | reflexivity].
Qed.

Lemma In_keys_set : forall x k v m, In x (keys (set_key k v m)) <-> k = x \/ In x (keys m).
Proof.
  intros x k v m. unfold keys. induction m as [|[k' v'] m IH]; cbn [set_key map fst In].
  - tauto.
  - destruct (Nat.eqb_spec k k') as [e|n].
    + subst k'. cbn [map fst In]. tauto.
    + destruct (Nat.ltb k k'); cbn [map fst In]; tauto.
Qed.

Lemma In_keys_remove : forall x k m, In x (keys (remove_key k m)) -> In x (keys m).
Proof.
  intros x k m. unfold keys. induction m as [|[k' v'] m IH]; cbn [remove_key map fst In]; intros H.
  - exact H.
  - destruct (Nat.eqb k k').
    + right. apply IH. exact H.
    + cbn [map fst In] in H. destruct H as [H|H]; [left; exact H | right; apply IH; exact H].
Qed.

Lemma uniq_remove_key : forall k m, uniq m -> uniq (remove_key k m).
Proof.
  intros k m. unfold uniq. induction m as [|[k' v'] m IH]; intros H.
  - exact H.
  - unfold keys in H. cbn [map fst] in H. inversion H as [|x l0 Hni Hnd]; subst.
    cbn [remove_key]. destruct (Nat.eqb k k').
    + apply IH. exact Hnd.
    + unfold keys. cbn [map fst]. constructor.
      * intros Hin. apply Hni. apply (In_keys_remove k' k m). exact Hin.
      * apply IH. exact Hnd.
Qed.

(* set_key keeps uniqueness when the key is fresh ... *)
Lemma uniq_set_key_fresh : forall k v m, uniq m -> lookup k m = None -> uniq (set_key k v m).
Proof.
  intros k v m. unfold uniq. induction m as [|[k' v'] m IH]; intros Hu Hl.
  - cbn. constructor; [intros H; exact H | constructor].
  - unfold keys in Hu. cbn [map fst] in Hu. inversion Hu as [|x l0 Hni Hnd]; subst.
    cbn [lookup] in Hl. cbn [set_key].
    destruct (Nat.eqb_spec k k') as [e|n]; [discriminate Hl|].
    destruct (Nat.ltb k k').
    + unfold keys. cbn [map fst]. constructor.
      * intros [H|H]; [apply n; symmetry; exact H|].
        apply lookup_None_iff in Hl. apply Hl. exact H.
      * exact Hu.
    + unfold keys. cbn [map fst]. constructor.
      * intros Hin. apply (In_keys_set k' k v m) in Hin. destruct Hin as [Hin|Hin].
        -- apply n. exact Hin.
        -- apply Hni. exact Hin.
      * apply IH; [exact Hnd | exact Hl].
Qed.

(* ... but not in general: the requested "uniq m -> uniq (set_key k v m)" is false *)
Example set_key_not_uniq_counterexample :
  uniq [(5, VPrim 0); (3, VPrim 0)] /\ ~ uniq (set_key 3 (VPrim 1) [(5, VPrim 0); (3, VPrim 0)]).
Proof.
  split.
  - unfold uniq. cbn. constructor.
    + intros [H|H]; [discriminate H | exact H].
    + constructor; [intros H; exact H | constructor].
  - intros H. vm_compute in H. inversion H as [|x l0 Hni Hnd]; subst.
    apply Hni. right. left. reflexivity.
Qed.

(* on key-sorted lists everything is preserved *)
Lemma sorted_NoDup : forall l, sorted l -> NoDup l.
Proof.
  induction l as [|x l IH]; intros H.
  - constructor.
  - destruct H as [H1 H2]. constructor.
    + intros Hin. apply H1 in Hin. lia.
    + apply IH. exact H2.
Qed.

Lemma ksorted_uniq : forall m, ksorted m -> uniq m.
Proof. intros m H. apply sorted_NoDup. exact H. Qed.

Lemma ksorted_set_key : forall k v m, ksorted m -> ksorted (set_key k v m).
Proof.
  intros k v m. unfold ksorted. induction m as [|[k' v'] m IH]; intros H.
  - cbn. split; [intros y Hy; destruct Hy | exact I].
  - unfold keys in H. cbn [map fst sorted] in H. destruct H as [H1 H2].
    cbn [set_key]. destruct (Nat.eqb_spec k k') as [e|n].
    + subst k'. unfold keys. cbn [map fst sorted]. split; assumption.
    + destruct (Nat.ltb_spec k k') as [Hlt|Hge]; unfold keys; cbn [map fst sorted].
      * split.
        -- intros y [Hy|Hy]; [subst y; exact Hlt | apply H1 in Hy; lia].
        -- split; assumption.
      * split.
        -- intros y Hy. apply (In_keys_set y k v m) in Hy. destruct Hy as [Hy|Hy].
           ++ subst y. lia.
           ++ apply H1. exact Hy.
        -- apply IH. exact H2.
Qed.

Lemma ksorted_remove_key : forall k m, ksorted m -> ksorted (remove_key k m).
Proof.
  intros k m. unfold ksorted. induction m as [|[k' v'] m IH]; intros H.
  - exact H.
  - unfold keys in H. cbn [map fst sorted] in H. destruct H as [H1 H2].
    cbn [remove_key]. destruct (Nat.eqb k k').
    + apply IH. exact H2.
    + unfold keys. cbn [map fst sorted]. split.
      * intros y Hy. apply H1. apply (In_keys_remove y k m). exact Hy.
      * apply IH. exact H2.
Qed.

Lemma uniq_set_key_sorted : forall k v m, ksorted m -> uniq (set_key k v m).
Proof. intros k v m H. apply ksorted_uniq. apply ksorted_set_key. exact H. Qed.

(* ---------- M2: cache and client agree ---------- *)

(* the lookup half needs no hypothesis at all *)
Lemma apply_change_client_lookup : forall props m k,
  lookup k (client_apply (fst (apply_change props m)) m) = lookup k (snd (apply_change props m)).
Proof.
  induction props as [|[k0 v] ps IH]; intros m k; cbn [apply_change].
  - reflexivity.
  - specialize (IH m). destruct (apply_change ps m) as [eff m1] eqn:E. cbn [fst snd] in IH.
    destruct v.
    1-4: destruct (lookup k0 m1) as [ov|] eqn:El; [destruct (veq ov _) eqn:Ev|];
         cbn [fst snd client_apply]; try apply IH; rewrite !lookup_set, IH; reflexivity.
    destruct (has_key k0 m1) eqn:Eh; cbn [fst snd client_apply].
    + rewrite !lookup_remove, IH. reflexivity.
    + apply IH.
Qed.

Lemma apply_change_ksorted : forall props m, ksorted m -> ksorted (snd (apply_change props m)).
Proof.
  induction props as [|[k0 v] ps IH]; intros m Hs; cbn [apply_change].
  - exact Hs.
  - specialize (IH m Hs). destruct (apply_change ps m) as [eff m1] eqn:E. cbn [snd] in IH.
    destruct v.
    1-4: destruct (lookup k0 m1) as [ov|] eqn:El; [destruct (veq ov _) eqn:Ev|];
         cbn [snd]; try exact IH; apply ksorted_set_key; exact IH.
    destruct (has_key k0 m1) eqn:Eh; cbn [snd].
    + apply ksorted_remove_key. exact IH.
    + exact IH.
Qed.

(* The requested statement (with only `uniq props` and `uniq m`) is false: its `uniq m'` conjunct fails. *)
Example apply_change_client_uniq_counterexample :
  let props := [(3, VPrim 1)] in
  let m := [(5, VPrim 0); (3, VPrim 0)] in
  uniq props /\ uniq m /\ ~ uniq (snd (apply_change props m)).
Proof.
  cbv zeta. split; [|split].
  - unfold uniq. cbn. constructor; [intros H; exact H | constructor].
  - exact (proj1 set_key_not_uniq_counterexample).
  - intros H. vm_compute in H. inversion H as [|x l0 Hni Hnd]; subst.
    apply Hni. right. left. reflexivity.
Qed.

(* Strongest true variant: the cached map is key-sorted (the canonical form of Value.v).
   `uniq props` is not needed. *)
Theorem apply_change_client_partial : forall props m, ksorted m ->
  let '(eff, m') := apply_change props m in
  (forall k, lookup k (client_apply eff m) = lookup k m') /\ ksorted m' /\ uniq m'.
Proof.
  intros props m Hs.
  pose proof (apply_change_client_lookup props m) as H1.
  pose proof (apply_change_ksorted props m Hs) as H2.
  destruct (apply_change props m) as [eff m'] eqn:E. cbn [fst snd] in H1, H2.
  split; [exact H1 | split; [exact H2 | apply ksorted_uniq; exact H2]].
Qed.

(* the lookup conjunct in the requested let-form, without hypotheses *)
Theorem apply_change_client_lookup_only : forall props m,
  let '(eff, m') := apply_change props m in
  forall k, lookup k (client_apply eff m) = lookup k m'.
Proof.
  intros props m. pose proof (apply_change_client_lookup props m) as H1.
  destruct (apply_change props m) as [eff m'] eqn:E. exact H1.
Qed.

(* ---------- what apply_change does to a key ---------- *)

Definition upd (o : option value) (d : option value) : option value :=
  match o with
  | Some VDelete => None
  | Some v => Some v
  | None => d
  end.

Lemma apply_change_lookup : forall props m k,
  lookup k (snd (apply_change props m)) = upd (lookup k props) (lookup k m).
Proof.
  induction props as [|[k0 v] ps IH]; intros m k; cbn [apply_change lookup].
  - reflexivity.
  - specialize (IH m). destruct (apply_change ps m) as [eff m1] eqn:E. cbn [snd] in IH.
    destruct (Nat.eqb_spec k k0) as [e|n].
    + subst k0. destruct v.
      1-4: destruct (lookup k m1) as [ov|] eqn:El; [destruct (veq ov _) eqn:Ev|];
           cbn [snd upd]; try (rewrite lookup_set_same; reflexivity);
           apply veq_eq in Ev; subst ov; exact El.
      destruct (has_key k m1) eqn:Eh; cbn [snd upd].
      * apply lookup_remove_same.
      * apply has_key_false. exact Eh.
    + destruct v.
      1-4: destruct (lookup k0 m1) as [ov|] eqn:El; [destruct (veq ov _) eqn:Ev|];
           cbn [snd]; rewrite ?lookup_set_other by exact n; apply IH.
      destruct (has_key k0 m1) eqn:Eh; cbn [snd]; rewrite ?lookup_remove_other by exact n; apply IH.
Qed.

(* ---------- reset_props ---------- *)

Definition step (p : kv) (k : nat) : kv := if has_key k p then p else set_key k VDelete p.
Definition keep (old : kv) : nat * value -> bool :=
  fun '(k, v) => match lookup k old with Some ov => negb (veq v ov) | None => true end.

Lemma reset_props_eq : forall old new,
  reset_props old new = filter (keep old) (fold_left step (keys old) new).
Proof. reflexivity. Qed.

Lemma has_key_existsb : forall k m, has_key k m = existsb (Nat.eqb k) (keys m).
Proof.
  intros k m. unfold has_key, keys. induction m as [|[k' v'] m IH]; cbn [lookup map fst existsb].
  - reflexivity.
  - destruct (Nat.eqb k k'); [reflexivity | exact IH].
Qed.

Lemma fold_step_lookup : forall l p k,
  lookup k (fold_left step l p) =
    match lookup k p with
    | Some v => Some v
    | None => if existsb (Nat.eqb k) l then Some VDelete else None
    end.
Proof.
  induction l as [|x l IH]; intros p k; cbn [fold_left existsb].
  - destruct (lookup k p); reflexivity.
  - rewrite IH. unfold step. destruct (has_key x p) eqn:Eh.
    + destruct (lookup k p) as [v|] eqn:El; [reflexivity|].
      destruct (Nat.eqb_spec k x) as [e|n]; [|reflexivity].
      subst x. unfold has_key in Eh. rewrite El in Eh. discriminate Eh.
    + rewrite lookup_set. destruct (Nat.eqb_spec k x) as [e|n].
      * subst x. rewrite (has_key_false k p Eh). reflexivity.
      * reflexivity.
Qed.

Lemma fold_step_uniq : forall l p, uniq p -> uniq (fold_left step l p).
Proof.
  induction l as [|x l IH]; intros p Hu; cbn [fold_left].
  - exact Hu.
  - apply IH. unfold step. destruct (has_key x p) eqn:Eh.
    + exact Hu.
    + apply uniq_set_key_fresh; [exact Hu | apply has_key_false; exact Eh].
Qed.

Lemma In_keys_filter : forall (P : nat * value -> bool) x m,
  In x (keys (filter P m)) -> In x (keys m).
Proof.
  intros P x m. unfold keys. induction m as [|[k' v'] m IH]; cbn [filter]; intros H.
  - exact H.
  - cbn [map fst In]. destruct (P (k', v')).
    + cbn [map fst In] in H. destruct H as [H|H]; [left; exact H | right; apply IH; exact H].
    + right. apply IH. exact H.
Qed.

Lemma uniq_filter : forall (P : nat * value -> bool) m, uniq m -> uniq (filter P m).
Proof.
  intros P m. unfold uniq. induction m as [|[k' v'] m IH]; intros Hu.
  - exact Hu.
  - unfold keys in Hu. cbn [map fst] in Hu. inversion Hu as [|x l0 Hni Hnd]; subst.
    cbn [filter]. destruct (P (k', v')).
    + unfold keys. cbn [map fst]. constructor.
      * intros Hin. apply Hni. apply (In_keys_filter P k' m). exact Hin.
      * apply IH. exact Hnd.
    + apply IH. exact Hnd.
Qed.

Lemma lookup_filter : forall (P : nat * value -> bool) m k, uniq m ->
  lookup k (filter P m) =
    match lookup k m with
    | Some v => if P (k, v) then Some v else None
    | None => None
    end.
Proof.
  intros P m k. induction m as [|[k' v'] m IH]; intros Hu; cbn [filter lookup].
  - reflexivity.
  - unfold uniq, keys in Hu. cbn [map fst] in Hu. inversion Hu as [|x l0 Hni Hnd]; subst.
    destruct (Nat.eqb_spec k k') as [e|n].
    + subst k'. destruct (P (k, v')) eqn:EP.
      * cbn [lookup]. rewrite Nat.eqb_refl. reflexivity.
      * rewrite IH by exact Hnd.
        assert (Hl : lookup k m = None) by (apply lookup_None_iff; exact Hni).
        rewrite Hl. reflexivity.
    + destruct (P (k', v')).
      * cbn [lookup]. rewrite (proj2 (Nat.eqb_neq k k') n). apply IH. exact Hnd.
      * apply IH. exact Hnd.
Qed.

Lemma reset_props_uniq : forall old new, uniq new -> uniq (reset_props old new).
Proof.
  intros old new Hu. rewrite reset_props_eq. apply uniq_filter. apply fold_step_uniq. exact Hu.
Qed.

Lemma lookup_reset_props : forall old new k, uniq new ->
  lookup k (reset_props old new) =
    match lookup k new, lookup k old with
    | Some v, Some ov => if veq v ov then None else Some v
    | Some v, None => Some v
    | None, Some ov => if veq VDelete ov then None else Some VDelete
    | None, None => None
    end.
Proof.
  intros old new k Hu. rewrite reset_props_eq.
  rewrite lookup_filter by (apply fold_step_uniq; exact Hu).
  rewrite fold_step_lookup. rewrite <- has_key_existsb. unfold has_key.
  destruct (lookup k new) as [v|] eqn:En.
  - unfold keep. destruct (lookup k old) as [ov|]; [|reflexivity].
    destruct (veq v ov); reflexivity.
  - destruct (lookup k old) as [ov|] eqn:Eo; [|reflexivity].
    unfold keep. rewrite Eo. destruct (veq VDelete ov); reflexivity.
Qed.

(* ---------- M3 ---------- *)

(* The requested statement is false: a VDelete value in the cached model survives the reset. *)
Example reset_converges_counterexample :
  let old := [(0, VDelete)] in
  let new := @nil (nat * value) in
  uniq old /\ uniq new /\ (forall k v, lookup k new = Some v -> v <> VDelete) /\
  reset_props old new = [] /\
  lookup 0 (snd (apply_change (reset_props old new) old)) = Some VDelete /\
  lookup 0 new = None.
Proof.
  cbv zeta. split; [|split; [|split; [|split; [|split]]]].
  - unfold uniq. cbn. constructor; [intros H; exact H | constructor].
  - unfold uniq. cbn. constructor.
  - intros k v H. cbn in H. discriminate H.
  - vm_compute. reflexivity.
  - vm_compute. reflexivity.
  - reflexivity.
Qed.

(* Strongest true variant: the cached model holds no delete action. `uniq old` is not needed. *)
Theorem reset_converges_partial : forall old new, uniq old -> uniq new ->
  (forall k v, lookup k new = Some v -> v <> VDelete) ->
  (forall k v, lookup k old = Some v -> v <> VDelete) ->
  let '(eff, m') := apply_change (reset_props old new) old in
  forall k, lookup k m' = lookup k new.
Proof.
  intros old new _ Hun Hnew Hold.
  pose proof (apply_change_lookup (reset_props old new) old) as H.
  destruct (apply_change (reset_props old new) old) as [eff m'] eqn:E. cbn [snd] in H.
  intros k. rewrite H. rewrite lookup_reset_props by exact Hun.
  destruct (lookup k new) as [v|] eqn:En; destruct (lookup k old) as [ov|] eqn:Eo.
  - destruct (veq v ov) eqn:Ev.
    + apply veq_eq in Ev. subst ov. reflexivity.
    + pose proof (Hnew k v En) as Hv. destruct v; try reflexivity. exfalso. apply Hv. reflexivity.
  - pose proof (Hnew k v En) as Hv. destruct v; try reflexivity. exfalso. apply Hv. reflexivity.
  - pose proof (Hold k ov Eo) as Hv.
    destruct ov; try reflexivity. exfalso. apply Hv. reflexivity.
  - reflexivity.
Qed.

(* ---------- M4 ---------- *)

Lemma all_none_nil : forall m, (forall k, lookup k m = None) -> m = [].
Proof.
  intros [|[k v] m] H.
  - reflexivity.
  - specialize (H k). cbn [lookup] in H. rewrite Nat.eqb_refl in H. discriminate H.
Qed.

(* unchanged content yields no event: holds as requested (only `uniq new` is used) *)
Theorem reset_noop_if : forall old new, uniq new ->
  (forall k, lookup k old = lookup k new) -> reset_props old new = [].
Proof.
  intros old new Hun Heq. apply all_none_nil. intros k.
  rewrite lookup_reset_props by exact Hun. rewrite (Heq k).
  destruct (lookup k new) as [v|]; [rewrite veq_refl; reflexivity | reflexivity].
Qed.

(* The requested iff is false in the "only if" direction, by the same example as for M3. *)
Example reset_noop_iff_counterexample :
  let old := [(0, VDelete)] in
  let new := @nil (nat * value) in
  reset_props old new = [] /\ lookup 0 old <> lookup 0 new.
Proof.
  cbv zeta. split.
  - vm_compute. reflexivity.
  - cbn. intros H. discriminate H.
Qed.

(* Strongest true variant: the cached model holds no delete action.
   `uniq old` and the no-delete hypothesis on `new` are not needed. *)
Theorem reset_noop_iff_partial : forall old new, uniq old -> uniq new ->
  (forall k v, lookup k new = Some v -> v <> VDelete) ->
  (forall k v, lookup k old = Some v -> v <> VDelete) ->
  (reset_props old new = [] <-> forall k, lookup k old = lookup k new).
Proof.
  intros old new _ Hun _ Hold. split.
  - intros Hnil k. pose proof (lookup_reset_props old new k Hun) as H.
    rewrite Hnil in H. cbn [lookup] in H.
    destruct (lookup k new) as [v|] eqn:En; destruct (lookup k old) as [ov|] eqn:Eo.
    + destruct (veq v ov) eqn:Ev.
      * apply veq_eq in Ev. subst ov. reflexivity.
      * discriminate H.
    + discriminate H.
    + destruct (veq VDelete ov) eqn:Ev.
      * apply veq_eq in Ev. subst ov. exfalso. apply (Hold k VDelete Eo). reflexivity.
      * discriminate H.
    + reflexivity.
  - apply reset_noop_if. exact Hun.
Qed.

(* ---------- example ---------- *)

Example ex_reset_props :
  reset_props [(0, VPrim 1); (1, VRef 2)] [(1, VRef 2); (2, VPrim 3)] = [(0, VDelete); (2, VPrim 3)].
Proof. vm_compute. reflexivity. Qed.

Example ex_reset_apply :
  apply_change (reset_props [(0, VPrim 1); (1, VRef 2)] [(1, VRef 2); (2, VPrim 3)])
               [(0, VPrim 1); (1, VRef 2)]
  = ([(0, VDelete); (2, VPrim 3)], [(1, VRef 2); (2, VPrim 3)]).
Proof. vm_compute. reflexivity. Qed.

Print Assumptions lookup_set_same.
Print Assumptions lookup_set_other.
Print Assumptions lookup_remove_same.
Print Assumptions lookup_remove_other.
Print Assumptions uniq_remove_key.
Print Assumptions uniq_set_key_fresh.
Print Assumptions uniq_set_key_sorted.
Print Assumptions ksorted_set_key.
Print Assumptions ksorted_remove_key.
Print Assumptions set_key_not_uniq_counterexample.
Print Assumptions apply_change_client_uniq_counterexample.
Print Assumptions apply_change_client_partial.
Print Assumptions apply_change_client_lookup_only.
Print Assumptions apply_change_lookup.
Print Assumptions reset_props_uniq.
Print Assumptions lookup_reset_props.
Print Assumptions reset_converges_counterexample.
Print Assumptions reset_converges_partial.
Print Assumptions reset_noop_if.
Print Assumptions reset_noop_iff_counterexample.
Print Assumptions reset_noop_iff_partial.
