(* Theorems about the value-object decoder model Pure/ValueDec.v. *)
From Coq Require Import List Ascii String NArith Bool Arith Lia.
From RG Require Import Pure.Rid Pure.ValueDec.
Import ListNotations.

Lemma leqb_eq a b : leqb a b = true <-> a = b.
Proof.
  revert b; induction a as [|x a IH]; intros [|y b]; cbn; split; intros H; try discriminate; try reflexivity.
  - apply andb_true_iff in H as [H1 H2]. apply Ascii.eqb_eq in H1. apply IH in H2. congruence.
  - inversion H; subst. rewrite Ascii.eqb_refl. cbn. apply IH. reflexivity.
Qed.

(* A value is taken for a (soft) reference only when the object carried a non-empty, valid rid,
   no action and no data, and was decoded without a type error; soft exactly when the flag is set. *)
Theorem reference_sound : forall f r,
  classify f = ORef r \/ classify f = OSoft r ->
  f_err f = false /\ f_rid f = Some r /\ r <> [] /\ is_valid_rid r true = true /\
  f_action f = None /\ f_data f = None /\
  (classify f = OSoft r <-> f_soft f = true).
Proof.
  intros f r H. unfold classify in *.
  destruct (f_err f); [destruct H as [H|H]; discriminate H|].
  destruct (f_rid f) as [r'|].
  - destruct r' as [|c r']; [destruct H as [H|H]; discriminate H|].
    cbn [is_nil] in *.
    destruct (f_action f) as [a|]; cbn [is_some orb] in *; [destruct H as [H|H]; discriminate H|].
    destruct (f_data f) as [d|]; cbn [is_some orb] in *; [destruct H as [H|H]; discriminate H|].
    destruct (is_valid_rid (c :: r') true) eqn:V; cbn [negb] in *; [|destruct H as [H|H]; discriminate H].
    destruct (f_soft f); destruct H as [H|H]; try discriminate H; inversion H; subst;
      repeat split; auto; try discriminate; intros X; try discriminate X; reflexivity.
  - destruct (f_action f) as [a|].
    + destruct (is_some (f_data f)); [destruct H as [H|H]; discriminate H|].
      destruct (leqb a (s2l "delete")); destruct H as [H|H]; discriminate H.
    + destruct (f_data f) as [[v id]|]; [destruct v; destruct H as [H|H]; discriminate H|].
      destruct H as [H|H]; discriminate H.
Qed.

(* The delete action is recognised only for exactly {"action":"delete"} without rid and data. *)
Theorem delete_sound : forall f,
  classify f = ODelete ->
  f_err f = false /\ f_rid f = None /\ f_action f = Some (s2l "delete") /\ f_data f = None.
Proof.
  intros f H. unfold classify in *.
  destruct (f_err f); [discriminate H|].
  destruct (f_rid f) as [r'|].
  - destruct (is_nil r'); [discriminate H|].
    destruct (is_some (f_action f) || is_some (f_data f)); [discriminate H|].
    destruct (negb (is_valid_rid r' true)); [discriminate H|]. destruct (f_soft f); discriminate H.
  - destruct (f_action f) as [a|].
    + destruct (f_data f) as [d|]; cbn [is_some] in *; [discriminate H|].
      destruct (leqb a (s2l "delete")) eqn:E; [|discriminate H].
      apply leqb_eq in E. subst. auto.
    + destruct (f_data f) as [[v id]|]; [destruct v; discriminate H|discriminate H].
Qed.

(* A data value or wrapped primitive is the object's data member, with neither rid nor action;
   it is a data value exactly when that member is an object or an array. *)
Theorem data_sound : forall f id,
  classify f = OData id \/ classify f = OPrimData id ->
  f_err f = false /\ f_rid f = None /\ f_action f = None /\
  exists v, f_data f = Some (v, id) /\
    (classify f = OData id <-> (v = JObj \/ v = JArr)).
Proof.
  intros f id H. unfold classify in *.
  destruct (f_err f); [destruct H as [H|H]; discriminate H|].
  destruct (f_rid f) as [r'|].
  - destruct (is_nil r'); [destruct H as [H|H]; discriminate H|].
    destruct (is_some (f_action f) || is_some (f_data f)); [destruct H as [H|H]; discriminate H|].
    destruct (negb (is_valid_rid r' true)); [destruct H as [H|H]; discriminate H|].
    destruct (f_soft f); destruct H as [H|H]; discriminate H.
  - destruct (f_action f) as [a|].
    + destruct (is_some (f_data f)); [destruct H as [H|H]; discriminate H|].
      destruct (leqb a (s2l "delete")); destruct H as [H|H]; discriminate H.
    + destruct (f_data f) as [[v id']|]; [|destruct H as [H|H]; discriminate H].
      repeat split; auto.
      exists v. destruct v; destruct H as [H|H]; try discriminate H; inversion H; subst; split; auto;
        split; intros X; try discriminate X; try (destruct X as [X|X]; discriminate X); auto.
Qed.

(* Anything ambiguous, ill-typed or empty is rejected: a value object is accepted only when it was
   decoded without a type error and carries exactly one of rid / action / data. *)
Theorem accepted_has_one_marker : forall f,
  is_err (classify f) = false -> f_err f = false /\ markers f = 1.
Proof.
  intros f H. unfold classify, markers in *.
  destruct (f_err f); [discriminate H|]. split; [reflexivity|].
  destruct (f_rid f) as [r'|]; cbn [is_some].
  - destruct (is_nil r'); [discriminate H|].
    destruct (f_action f), (f_data f); cbn [is_some orb] in *; try discriminate H. reflexivity.
  - destruct (f_action f) as [a|]; cbn [is_some].
    + destruct (f_data f); cbn [is_some] in *; [discriminate H|reflexivity].
    + destruct (f_data f) as [[v id]|]; cbn [is_some]; [reflexivity|discriminate H].
Qed.

(* ... and conversely the only rejected single-marker objects are the empty rid, the invalid rid and
   the unknown action. *)
Theorem one_marker_accepted : forall f,
  f_err f = false -> markers f = 1 ->
  match f_rid f, f_action f with
  | Some r, _ => classify f = (if is_nil r then OErr EEmptyRid else if is_valid_rid r true then (if f_soft f then OSoft r else ORef r) else OErr EInvalidRid)
  | None, Some a => classify f = (if leqb a (s2l "delete") then ODelete else OErr EUnknownAction)
  | None, None => is_err (classify f) = false
  end.
Proof.
  intros f E M. unfold classify, markers in *. rewrite E.
  destruct (f_rid f) as [r|]; cbn [is_some] in *.
  - destruct (is_nil r); [reflexivity|].
    destruct (f_action f), (f_data f); cbn [is_some orb] in *; try discriminate M.
    destruct (is_valid_rid r true); reflexivity.
  - destruct (f_action f) as [a|]; cbn [is_some] in *.
    + destruct (f_data f); cbn [is_some] in *; [discriminate M|reflexivity].
    + destruct (f_data f) as [[v id]|]; [destruct v; reflexivity|discriminate M].
Qed.

(* Member lists: a member whose key is none of the four names changes nothing; a later member of the
   same well-typed kind overrides an earlier one. *)
Lemma read_app ms m : read (ms ++ [m]) = store (read ms) m.
Proof. unfold read. rewrite fold_left_app. reflexivity. Qed.

Theorem foreign_member_ignored : forall ms k v id,
  key_is k "rid" = false -> key_is k "soft" = false -> key_is k "action" = false -> key_is k "data" = false ->
  decode (TObj (ms ++ [(k, v, id)])) = decode (TObj ms).
Proof.
  intros ms k v id H1 H2 H3 H4. cbn [decode]. rewrite read_app. cbn [store]. rewrite H1, H2, H3, H4. reflexivity.
Qed.

(* A type error anywhere in the object rejects it, whatever follows. *)
Lemma store_err f m : f_err f = true -> f_err (store f m) = true.
Proof.
  intros H. destruct m as [[k v] id]. cbn [store].
  destruct (key_is k "rid"); [destruct v; cbn; auto|].
  destruct (key_is k "soft"); [destruct v; cbn; auto|].
  destruct (key_is k "action"); [destruct v; cbn; auto|].
  destruct (key_is k "data"); cbn; auto.
Qed.
Lemma fold_err ms : forall f, f_err f = true -> f_err (fold_left store ms f) = true.
Proof. induction ms as [|m ms IH]; intros f H; cbn; auto using store_err. Qed.

Theorem type_error_rejects : forall ms1 ms2 k v id,
  f_err (store (read ms1) (k, v, id)) = true ->
  decode (TObj (ms1 ++ (k, v, id) :: ms2)) = OErr EJson.
Proof.
  intros ms1 ms2 k v id H. cbn [decode]. unfold read. rewrite fold_left_app. cbn [fold_left].
  unfold classify. rewrite fold_err; [reflexivity|exact H].
Qed.

(* non-vacuity *)
Example ex_ref : decode (TObj [(s2l "rid", JStr (s2l "a.b"), 0)]) = ORef (s2l "a.b").
Proof. reflexivity. Qed.
Example ex_soft : decode (TObj [(s2l "Soft", JBool true, 0); (s2l "RID", JStr (s2l "a.b?q=1"), 1)]) = OSoft (s2l "a.b?q=1").
Proof. reflexivity. Qed.
Example ex_amb : decode (TObj [(s2l "rid", JStr (s2l "a"), 0); (s2l "data", JNull, 1)]) = OErr EAmbiguous.
Proof. reflexivity. Qed.
Example ex_override : decode (TObj [(s2l "rid", JStr (s2l "a"), 0); (s2l "rid", JNull, 1); (s2l "action", JStr (s2l "delete"), 2)]) = ODelete.
Proof. reflexivity. Qed.
Example ex_typeerr : decode (TObj [(s2l "rid", JNum, 0); (s2l "data", JNum, 1)]) = OErr EJson.
Proof. reflexivity. Qed.
