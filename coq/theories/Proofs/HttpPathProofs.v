(* C14/C16: proofs about the models of server.PathToRID / RIDToPath with net/url PathEscape / PathUnescape
   (theories/Pure/HttpPath.v), and the link to codec.IsValidRID (theories/Pure/Rid.v). *)
From Coq Require Import String List Ascii NArith Bool Arith Lia.
From RG Require Pure.Rid.
From RG Require Import Pure.HttpPath.
Import ListNotations.

(* HttpPath and Rid both define is/dot/qm; they are convertible.  Only HttpPath is imported,
   everything from Rid is written qualified. *)

(* ------------------------------------------------------------------ *)
(* P1: PathUnescape (PathEscape s) = s                                 *)

Lemma unescape_pct : forall h l s,
  unescape (pct :: h :: l :: s) =
  match hexval h, hexval l, unescape s with
  | Some a, Some b, Some r => Some (ascii_of_N (a * 16 + b) :: r)
  | _, _, _ => None
  end.
Proof. reflexivity. Qed.

Lemma unescape_nopct : forall c s, is c pct = false ->
  unescape (c :: s) = match unescape s with Some r => Some (c :: r) | None => None end.
Proof. intros c s H. cbn [unescape]. rewrite H. reflexivity. Qed.

(* per-byte facts, by exhaustive computation over the 256 bytes *)
Lemma esc_byte : forall c,
  hexval (hexdigit (N_of_ascii c / 16)) = Some (N_of_ascii c / 16)%N /\
  hexval (hexdigit (N_of_ascii c mod 16)) = Some (N_of_ascii c mod 16)%N /\
  ascii_of_N (N_of_ascii c / 16 * 16 + N_of_ascii c mod 16) = c.
Proof.
  intros c. destruct c as [[] [] [] [] [] [] [] []]; vm_compute; repeat split; reflexivity.
Qed.

Lemma noesc_notpct : forall c, should_escape c = false -> is c pct = false.
Proof.
  intros c H. destruct c as [[] [] [] [] [] [] [] []]; vm_compute in H; try discriminate H; vm_compute; reflexivity.
Qed.

Lemma escape_cons_esc : forall c s, should_escape c = true ->
  escape (c :: s) = pct :: hexdigit (N_of_ascii c / 16) :: hexdigit (N_of_ascii c mod 16) :: escape s.
Proof. intros c s H. cbn [escape]. rewrite H. reflexivity. Qed.

Lemma escape_cons_noesc : forall c s, should_escape c = false -> escape (c :: s) = c :: escape s.
Proof. intros c s H. cbn [escape]. rewrite H. reflexivity. Qed.

Lemma unescape_escape : forall s, unescape (escape s) = Some s.
Proof.
  induction s as [|c s IH].
  - reflexivity.
  - destruct (should_escape c) eqn:E.
    + rewrite (escape_cons_esc c s E), unescape_pct.
      destruct (esc_byte c) as (H1 & H2 & H3). rewrite H1, H2, IH, H3. reflexivity.
    + rewrite (escape_cons_noesc c s E), (unescape_nopct c _ (noesc_notpct c E)), IH. reflexivity.
Qed.

(* ------------------------------------------------------------------ *)
(* P2: RIDToPath then PathToRID is the identity on valid, query-free rids *)

Definition dslash (c : ascii) : ascii := if is c dot then slash else c.

Lemma rid_to_path_cons : forall c l prefix,
  rid_to_path (c :: l) prefix = prefix ++ map dslash (escape (c :: l)).
Proof. reflexivity. Qed.

Lemma escape_app : forall a b, escape (a ++ b) = escape a ++ escape b.
Proof.
  induction a as [|c a IH]; intros b.
  - reflexivity.
  - cbn [List.app]. destruct (should_escape c) eqn:E.
    + rewrite !(escape_cons_esc c _ E), IH. reflexivity.
    + rewrite !(escape_cons_noesc c _ E), IH. reflexivity.
Qed.

Lemma escape_cons_app : forall c l, escape (c :: l) = escape [c] ++ escape l.
Proof. intros c l. apply (escape_app [c] l). Qed.

(* a non-dot byte escapes to text that the dot->slash map leaves alone, that has no slash,
   and whose first byte is not a slash *)
Lemma nodot_byte : forall c, is c dot = false ->
  map dslash (escape [c]) = escape [c] /\
  forallb (fun x => negb (is x slash)) (escape [c]) = true /\
  match escape [c] with x :: _ => is x slash = false | [] => False end.
Proof.
  intros c H. destruct c as [[] [] [] [] [] [] [] []]; vm_compute in H; try discriminate H;
    vm_compute; repeat split; reflexivity.
Qed.

Lemma split_slash_app_noslash : forall a r cur,
  forallb (fun x => negb (is x slash)) a = true ->
  split_slash (a ++ r) cur = split_slash r (rev a ++ cur).
Proof.
  induction a as [|x a IH]; intros r cur H.
  - reflexivity.
  - cbn [forallb] in H. apply andb_prop in H as [Hx Ha]. apply negb_true_iff in Hx.
    cbn [List.app split_slash rev]. rewrite Hx, (IH r (x :: cur) Ha), <- app_assoc. reflexivity.
Qed.

Lemma split_dot_step : forall l cur,
  split_slash (map dslash (escape (dot :: l))) cur = rev cur :: split_slash (map dslash (escape l)) [].
Proof. reflexivity. Qed.

Lemma vrid_cons_inv : forall c l st, Rid.vrid (c :: l) false st = true ->
  (is c dot = true /\ st = false /\ Rid.vrid l false true = true) \/
  (is c dot = false /\ Rid.vrid l false false = true).
Proof.
  intros c l st H. cbn [Rid.vrid] in H.
  destruct (Rid.is c Rid.qm); [cbn in H; discriminate H|].
  destruct (Rid.bad c); [discriminate H|].
  change (Rid.is c Rid.dot) with (is c dot) in H.
  destruct (is c dot).
  - left. destruct st; [discriminate H|]. repeat split. exact H.
  - right. split; [reflexivity|exact H].
Qed.

Lemma roundtrip_aux : forall l tok,
  Rid.vrid l false (match tok with [] => true | _ => false end) = true ->
  exists parts, parts <> [] /\
    unescape_all (split_slash (map dslash (escape l)) (rev (escape tok))) = Some parts /\
    join_dot parts = tok ++ l.
Proof.
  induction l as [|c l IH]; intros tok H.
  - exists [tok]. split; [intros E; discriminate E|]. split.
    + cbn [escape map split_slash unescape_all]. rewrite rev_involutive, unescape_escape. reflexivity.
    + cbn [join_dot]. rewrite app_nil_r. reflexivity.
  - apply vrid_cons_inv in H as [(Hd & Hst & Hv)|(Hd & Hv)].
    + unfold is in Hd. apply Ascii.eqb_eq in Hd. subst c.
      destruct (IH [] Hv) as (parts' & Hne & Hu & Hj). cbn [escape rev] in Hu.
      exists (tok :: parts'). split; [intros E; discriminate E|]. split.
      * rewrite split_dot_step, rev_involutive. cbn [unescape_all].
        rewrite unescape_escape, Hu. reflexivity.
      * destruct parts' as [|p ps]; [exfalso; apply Hne; reflexivity|].
        cbn [join_dot]. cbn [join_dot List.app] in Hj. rewrite Hj. reflexivity.
    + destruct (nodot_byte c Hd) as (Hmap & Hns & _).
      assert (Hv' : Rid.vrid l false (match tok ++ [c] with [] => true | _ => false end) = true).
      { destruct tok; exact Hv. }
      destruct (IH (tok ++ [c]) Hv') as (parts & Hne & Hu & Hj).
      exists parts. split; [exact Hne|]. split.
      * rewrite escape_cons_app, map_app, Hmap, (split_slash_app_noslash _ _ _ Hns).
        rewrite <- rev_app_distr, <- escape_app. exact Hu.
      * rewrite Hj, <- app_assoc. reflexivity.
Qed.

Lemma has_prefix_app : forall p x, has_prefix (p ++ x) p = Some x.
Proof.
  induction p as [|c p IH]; intros x.
  - destruct x; reflexivity.
  - cbn [List.app has_prefix]. unfold is. rewrite Ascii.eqb_refl. apply IH.
Qed.

Lemma dslash_nodot : forall l, existsb (fun c => is c dot) (map dslash l) = false.
Proof.
  induction l as [|c l IH].
  - reflexivity.
  - cbn [map existsb]. rewrite IH, orb_false_r. unfold dslash.
    destruct (is c dot) eqn:E; [reflexivity|exact E].
Qed.

Theorem rid_path_roundtrip : forall rid prefix,
  Rid.is_valid_rid rid false = true ->
  path_to_rid (rid_to_path rid prefix) [] prefix = rid.
Proof.
  intros rid prefix H. unfold Rid.is_valid_rid in H.
  destruct rid as [|c l]; [cbn in H; discriminate H|].
  destruct (roundtrip_aux (c :: l) [] H) as (parts & _ & Hu & Hj).
  change (rev (escape [])) with (@nil ascii) in Hu. cbn [List.app] in Hj.
  apply vrid_cons_inv in H as [(_ & Hst & _)|(Hd & _)]; [discriminate Hst|].
  destruct (nodot_byte c Hd) as (Hmap & _ & Hfst).
  rewrite rid_to_path_cons. unfold path_to_rid, path_parts.
  rewrite has_prefix_app, dslash_nodot.
  revert Hu. rewrite escape_cons_app, map_app, Hmap.
  destruct (escape [c]) as [|x r]; [contradiction|]. intros Hu.
  cbn [List.app] in *. rewrite Hfst.
  replace (Nat.eqb (length (prefix ++ x :: r ++ map dslash (escape l))) (length prefix)) with false.
  - rewrite Hu. cbn [add_query]. exact Hj.
  - symmetry. apply Nat.eqb_neq. rewrite app_length. cbn [length]. lia.
Qed.

(* ------------------------------------------------------------------ *)
(* P3: validation happens after unescaping, so an accepted path yields a clean subject *)

Theorem path_rid_subject_clean : forall path query prefix,
  Rid.is_valid_rid (path_to_rid path query prefix) true = true ->
  Rid.clean (Rid.name_of (path_to_rid path query prefix)).
Proof.
  intros path query prefix H. apply (Rid.valid_rid_subject_clean _ true). exact H.
Qed.

Theorem path_rid_action_subject_clean : forall path query prefix,
  Rid.is_valid_rid (fst (path_to_rid_action path query prefix)) true = true ->
  Rid.clean (Rid.name_of (fst (path_to_rid_action path query prefix))).
Proof.
  intros path query prefix H. apply (Rid.valid_rid_subject_clean _ true). exact H.
Qed.

(* ------------------------------------------------------------------ *)
(* Examples                                                            *)

Definition s2l (s : string) := list_ascii_of_string s.

(* values obtained with Eval vm_compute and recorded *)
Example p_plain : path_to_rid (s2l "/api/a/b") [] (s2l "/api/") = s2l "a.b".
Proof. reflexivity. Qed.
(* a percent-encoded dot is decoded AFTER the literal-dot check and the slash split: it becomes a real dot in
   the rid (so "/api/a%2Eb" and "/api/a/b" name the same resource); IsValidRID then runs on the decoded text *)
Example p_encoded_dot : path_to_rid (s2l "/api/a%2Eb") [] (s2l "/api/") = s2l "a.b".
Proof. reflexivity. Qed.
Example p_literal_dot : path_to_rid (s2l "/api/a.b") [] (s2l "/api/") = [].
Proof. reflexivity. Qed.
Example p_bad_escape : path_to_rid (s2l "/api/a%2") [] (s2l "/api/") = [].
Proof. reflexivity. Qed.
(* encoded wildcards are decoded; rejecting them is left to IsValidRID (path_rid_subject_clean) *)
Example p_encoded_wild : path_to_rid (s2l "/api/a%2a/%3E") [] (s2l "/api/") = s2l "a*.>".
Proof. reflexivity. Qed.
Example p_encoded_wild_invalid : Rid.is_valid_rid (path_to_rid (s2l "/api/a%2a/%3E") [] (s2l "/api/")) true = false.
Proof. reflexivity. Qed.
Example p_double_slash : path_to_rid (s2l "/api//a") [] (s2l "/api") = s2l ".a".
Proof. reflexivity. Qed.
Example p_trailing_slash : path_to_rid (s2l "/api/a/") [] (s2l "/api/") = s2l "a.".
Proof. reflexivity. Qed.
Example p_query : path_to_rid (s2l "/api/a/b") (s2l "q=1") (s2l "/api/") = s2l "a.b?q=1".
Proof. reflexivity. Qed.
Example p_only_prefix : path_to_rid (s2l "/api/") [] (s2l "/api/") = [].
Proof. reflexivity. Qed.
Example r_slash : rid_to_path (s2l "a.b/c") (s2l "/api/") = s2l "/api/a/b%2Fc".
Proof. reflexivity. Qed.
Example r_roundtrip : path_to_rid (rid_to_path (s2l "a.b/c") (s2l "/api/")) [] (s2l "/api/") = s2l "a.b/c".
Proof. reflexivity. Qed.
Example p_action : path_to_rid_action (s2l "/api/a/b/m") [] (s2l "/api/") = (s2l "a.b", s2l "m").
Proof. reflexivity. Qed.

Print Assumptions unescape_escape.
Print Assumptions rid_path_roundtrip.
Print Assumptions path_rid_subject_clean.
Print Assumptions path_rid_action_subject_clean.
