From Coq Require Import List Arith Lia Bool Permutation.
From RG Require Import Comp.Conv Comp.Core.
Import ListNotations.

Section CoreProofs.
Variables (val upd : Type) (app : upd -> val -> val) (norm : upd -> val -> option upd) (d : val).
Hypothesis norm_none : forall u v, norm u v = None -> app u v = v.
Hypothesis norm_some : forall u v u', norm u v = Some u' -> app u' v = app u v.

Notation csubs := (Conv.subs val upd).
Notation exec := (Core.exec val upd app norm d).
Notation cv := (Core.cv val upd).
Notation conns := (Core.conns val upd).
Notation insts := (Core.insts val upd).
Notation client := (Core.client val upd app).
Notation resps := (Core.resps val upd).
Notation quiescent := (Core.quiescent val upd).
Notation no_underflow := (Core.no_underflow val upd app).

Notation step := (Core.step val upd app norm).
Notation cstep := (Conv.step val upd app norm).
Notation acts_of := (Core.acts_of val upd app norm).
Notation next := (Core.next val upd).
Notation exec1 := (Core.exec1 val upd app norm).
Notation cst := (Conv.st val upd).
Notation caction := (Conv.action upd).
Notation CInv := (Conv.Inv val upd app).
Notation sub_ := (Conv.sub val upd).
Notation tk_ := (Core.tk val upd).
Notation out_ := (Core.out val upd).
Notation st_ := (Core.st val upd).
Notation sgone := (Conv.gone val upd).
Notation ssent := (Conv.sent val upd).
Notation ssubscribed := (Conv.subscribed val upd).
Notation sloaded := (Conv.loaded val upd).
Notation scq := (Conv.cq val upd).
Notation sflag := (Conv.flag val upd).
Notation seq_ := (Conv.eq val upd).
Notation sclosed := (Conv.closed val upd).
Notation cqe := (Conv.qe val upd).
Notation ts := (Core.ts val upd).
Notation ta := (Core.ta val upd).
Notation tx := (Core.tx val upd).
Notation ty := (Core.ty val upd).
Notation to := (Core.to val upd).
Notation act := (Core.act val upd app norm).
Notation emit := (Core.emit val upd).
Notation setx := (Core.setx val upd).
Notation sety := (Core.sety val upd).
Notation me := (Core.me val upd).
Notation gone_ := (Core.gone_ val upd).
Notation loaded_ := (Core.loaded_ val upd).
Notation sent_ := (Core.sent_ val upd).
Notation flag_ := (Core.flag_ val upd).
Notation dispose_t := (Core.dispose_t val upd app norm).
Notation remove_direct := (Core.remove_direct val upd app norm).
Notation unsubscribe_direct := (Core.unsubscribe_direct val upd app norm).
Notation load_access := (Core.load_access val upd).
Notation handle_reaccess := (Core.handle_reaccess val upd app norm).
Notation reaccess := (Core.reaccess val upd app norm).
Notation respond := (Core.respond val upd app norm).
Notation on_ready := (Core.on_ready val upd app norm).
Notation unqueue_reaccess := (Core.unqueue_reaccess val upd app norm).
Notation run_cb := (Core.run_cb val upd app norm).
Notation conn_task := (Core.conn_task val upd app norm).

(* ---------------- plumbing ---------------- *)
Lemma g_exec_snoc t ops o : exec t (ops ++ [o]) = exec1 (exec t ops) o.
Proof. unfold Core.exec. rewrite fold_left_app. reflexivity. Qed.

Lemma g_cstep_inv σ a : CInv σ -> CInv (cstep σ a).
Proof. apply (Conv.step_inv val upd app norm norm_none norm_some). Qed.
Lemma g_acts_inv acts : forall σ, CInv σ -> CInv (fold_left cstep acts σ).
Proof. induction acts as [|a acts IH]; intros σ H; [exact H|]. cbn [fold_left]. apply IH, g_cstep_inv, H. Qed.

(* ---------------- task steps: what a handler does to the task record besides the instance-local data ---------------- *)
Definition g_tact0 (i : nat) (a : caction) : Prop :=
  match a with
  | Conv.Respond _ j _ | Conv.Unqueue _ j _ | Conv.StartQueue _ j => j = i
  | Conv.Dispose _ j cl => j = i /\ cl = false
  | _ => False
  end.

Record g_st (i : nat) (k k' : tk_) : Prop := {
  g_st_f_acts : exists l, ta k' = ta k ++ l /\ ts k' = fold_left cstep l (ts k) /\ Forall (g_tact0 i) l;
  g_st_f_own : Core.owner (ty k') = Core.owner (ty k);
  g_st_f_q : Core.cqueue (tx k') = Core.cqueue (tx k);
  g_st_f_tok : Core.tok (tx k') = Core.tok (tx k) }.

Lemma g_st_refl i k : g_st i k k.
Proof. constructor; try reflexivity. exists []. rewrite app_nil_r. repeat split. constructor. Qed.
Lemma g_st_trans i k1 k2 k3 : g_st i k1 k2 -> g_st i k2 k3 -> g_st i k1 k3.
Proof.
  intros [(l1 & A1 & B1 & C1) O1 Q1 T1] [(l2 & A2 & B2 & C2) O2 Q2 T2]. constructor; try congruence.
  exists (l1 ++ l2). rewrite A2, A1, B2, B1, app_assoc, fold_left_app. repeat split. apply Forall_app. auto.
Qed.
Lemma g_st_act i k a : g_tact0 i a -> g_st i k (act k a).
Proof. intros H. constructor; try reflexivity. exists [a]. repeat split. constructor; [exact H|constructor]. Qed.
Lemma g_st_emit i k o : g_st i k (emit k o).
Proof. constructor; try reflexivity. exists []. cbn. rewrite app_nil_r. repeat split. constructor. Qed.
Lemma g_st_sety i k a r ac fl an rf rqq l : g_st i k (sety k (Core.upd_y (ty k) a r ac fl an rf rqq l)).
Proof. constructor; try reflexivity. exists []. cbn. rewrite app_nil_r. repeat split. constructor. Qed.
Lemma g_st_sety' i k y : Core.owner y = Core.owner (ty k) -> g_st i k (sety k y).
Proof. intros H. constructor; try reflexivity; [|exact H]. exists []. cbn. rewrite app_nil_r. repeat split. constructor. Qed.
Lemma g_st_setx i k cu n : g_st i k (setx k (Core.with_cd (tx k) cu n)).
Proof. constructor; try reflexivity. exists []. cbn. rewrite app_nil_r. repeat split. constructor. Qed.

Section Handlers.
Variables (c i : nat).

Ltac g_peel tac := eapply g_st_trans; [|tac].
Ltac g_pact := apply g_st_act; cbv [g_tact0]; auto.

Lemma g_st_dispose_t k : g_st i k (dispose_t i k).
Proof.
  unfold Core.dispose_t. destruct (gone_ i k); [apply g_st_refl|].
  g_peel ltac:(apply g_st_setx). g_peel ltac:(apply g_st_sety). g_pact.
Qed.
Lemma g_st_remove_direct k n : g_st i k (remove_direct i k n).
Proof.
  unfold Core.remove_direct. destruct (Nat.eqb (Core.direct (tx k)) 0); [apply g_st_refl|].
  match goal with |- context [if ?b then _ else _] => destruct b end.
  - g_peel ltac:(apply g_st_dispose_t). apply g_st_setx.
  - apply g_st_setx.
Qed.
Lemma g_st_unsubscribe_direct k : g_st i k (unsubscribe_direct c i k).
Proof.
  unfold Core.unsubscribe_direct. destruct (Nat.ltb 0 (Core.direct (tx k))); [|apply g_st_refl].
  g_peel ltac:(apply g_st_emit). apply g_st_remove_direct.
Qed.
Lemma g_st_load_access k b : g_st i k (load_access c i k b).
Proof.
  unfold Core.load_access. destruct (Core.inflight (ty k)); [apply g_st_sety|].
  g_peel ltac:(apply g_st_emit). g_peel ltac:(apply g_st_sety). apply g_st_sety.
Qed.
Lemma g_st_handle_reaccess k : g_st i k (handle_reaccess c i k).
Proof.
  unfold Core.handle_reaccess.
  match goal with |- context [if ?b then _ else _] => destruct b end; [apply g_st_sety|].
  g_peel ltac:(apply g_st_load_access). g_peel ltac:(g_pact). g_peel ltac:(apply g_st_sety). apply g_st_sety.
Qed.
Lemma g_st_reaccess k : g_st i k (reaccess c i k).
Proof.
  unfold Core.reaccess. destruct (gone_ i k); [apply g_st_refl|]. destruct (flag_ i k); [apply g_st_sety|apply g_st_handle_reaccess].
Qed.
Lemma g_st_respond k ids : g_st i k (respond c i k ids).
Proof.
  unfold Core.respond. destruct ids as [|id r]; [apply g_st_refl|].
  g_peel ltac:(apply g_st_emit).
  destruct (sent_ i k); [apply g_st_emit|].
  match goal with |- context [if ?b then _ else _] => destruct b end.
  - g_peel ltac:(apply g_st_handle_reaccess). g_peel ltac:(g_pact). apply g_st_emit.
  - g_peel ltac:(apply g_st_emit). g_peel ltac:(g_pact). apply g_st_emit.
Qed.
Lemma g_st_on_ready k id : g_st i k (on_ready c i k id).
Proof. unfold Core.on_ready. destruct (loaded_ i k); [apply g_st_respond|apply g_st_sety]. Qed.
Lemma g_st_unqueue_reaccess k : g_st i k (unqueue_reaccess c i k).
Proof.
  unfold Core.unqueue_reaccess.
  match goal with |- context [if ?b then _ else _] => destruct b end; [apply g_st_sety|].
  match goal with |- context [if ?b then _ else _] => destruct b end.
  - g_peel ltac:(apply g_st_handle_reaccess). apply g_st_sety.
  - g_peel ltac:(apply g_st_emit). g_peel ltac:(g_pact). apply g_st_sety.
Qed.
Lemma g_st_run_cb g k b : g_st i k (run_cb c i g k b).
Proof.
  unfold Core.run_cb. destruct b as [id|].
  - destruct g.
    + destruct (gone_ i k); [apply g_st_refl|apply g_st_on_ready].
    + g_peel ltac:(apply g_st_remove_direct). apply g_st_emit.
  - destruct g.
    + apply g_st_unqueue_reaccess.
    + g_peel ltac:(apply g_st_unqueue_reaccess). apply g_st_unsubscribe_direct.
Qed.
Lemma g_st_batch g l : forall k, g_st i k (fold_left (run_cb c i g) l k).
Proof.
  induction l as [|b l IH]; intros k; cbn [fold_left]; [apply g_st_refl|].
  eapply g_st_trans; [apply g_st_run_cb|apply IH].
Qed.
End Handlers.

(* ---------------- what the Conv actions of a task do ---------------- *)
Lemma g_skipn_all {A} (l : list A) : skipn (length l) l = [].
Proof. induction l; cbn; auto. Qed.

Lemma g_drain x n :
  sgone (Conv.drain val upd app x n) = sgone x /\ sloaded (Conv.drain val upd app x n) = sloaded x /\
  ssent (Conv.drain val upd app x n) = ssent x /\ ssubscribed (Conv.drain val upd app x n) = ssubscribed x /\
  scq (Conv.drain val upd app x n) = scq x /\ sclosed (Conv.drain val upd app x n) = sclosed x /\
  (n = length (seq_ x) -> sflag (Conv.drain val upd app x n) = false).
Proof.
  unfold Conv.drain. destruct (Conv.replay val upd app (Conv.sver val upd x, Conv.sval val upd x) (firstn n (seq_ x))) as [ver v].
  cbn. repeat split. intros ->. rewrite g_skipn_all. reflexivity.
Qed.

Lemma g_e_startq σ i : sloaded (csubs σ i) = true -> ssent (csubs σ i) = true ->
  let z' := csubs (cstep σ (Conv.StartQueue upd i)) i in
  sgone z' = sgone (csubs σ i) /\ sloaded z' = true /\ ssent z' = true /\ sflag z' = true.
Proof.
  intros Hl Hs. cbn [Conv.step]. rewrite Hl, Hs. cbn [andb Conv.subs]. rewrite Conv.set_sub_eq. cbn. auto.
Qed.
Lemma g_e_respond σ i n : sloaded (csubs σ i) = true -> ssent (csubs σ i) = false ->
  let z' := csubs (cstep σ (Conv.Respond upd i n)) i in
  sgone z' = sgone (csubs σ i) /\ sloaded z' = true /\ ssent z' = true /\ (n = length (seq_ (csubs σ i)) -> sflag z' = false).
Proof.
  intros Hl Hs. cbn [Conv.step]. rewrite Hl, Hs. cbn [andb negb Conv.subs]. rewrite Conv.set_sub_eq.
  match goal with |- context [Conv.drain val upd app ?x n] => destruct (g_drain x n) as (A&B&C&_&_&_&F) end.
  cbn zeta. rewrite A, B, C. cbn. repeat split; auto.
Qed.
Lemma g_e_unqueue σ i n : sloaded (csubs σ i) = true -> ssent (csubs σ i) = true -> sflag (csubs σ i) = true ->
  let z' := csubs (cstep σ (Conv.Unqueue upd i n)) i in
  sgone z' = sgone (csubs σ i) /\ sloaded z' = true /\ ssent z' = true /\ (n = length (seq_ (csubs σ i)) -> sflag z' = false).
Proof.
  intros Hl Hs Hf. cbn [Conv.step]. rewrite Hl, Hs, Hf. cbn [andb negb Conv.subs]. rewrite Conv.set_sub_eq.
  match goal with |- context [Conv.drain val upd app ?x n] => destruct (g_drain x n) as (A&B&C&_&_&_&F) end.
  cbn zeta. rewrite A, B, C. repeat split; auto.
Qed.
Lemma g_e_dispose σ i cl : sgone (csubs (cstep σ (Conv.Dispose upd i cl)) i) = true.
Proof.
  cbn [Conv.step]. destruct (sgone (csubs σ i)) eqn:Eg; [destruct cl|]; cbn [Conv.subs]; rewrite ?Conv.set_sub_eq; cbn; auto.
Qed.

Definition g_isrem (i : nat) (it : Conv.eitem val upd) : Prop := it = Conv.IRemSub val upd i.

Record g_fr (i : nat) (σ σ' : cst) : Prop := {
  g_fr_other : forall j, j <> i -> csubs σ' j = csubs σ j;
  g_fr_qe : exists r, cqe σ' = cqe σ ++ r /\ Forall (g_isrem i) r;
  g_fr_rs : Conv.rs_subs val upd σ' = Conv.rs_subs val upd σ;
  g_fr_rl : Conv.rs_loaded val upd σ' = Conv.rs_loaded val upd σ;
  g_fr_an : Conv.answered val upd σ' = Conv.answered val upd σ;
  g_fr_sd : ssubscribed (csubs σ' i) = ssubscribed (csubs σ i);
  g_fr_gm : sgone (csubs σ i) = true -> sgone (csubs σ' i) = true }.

Lemma g_fr_refl i σ : g_fr i σ σ.
Proof. constructor; auto. exists []. rewrite app_nil_r. split; [reflexivity|constructor]. Qed.
Lemma g_fr_trans i σ1 σ2 σ3 : g_fr i σ1 σ2 -> g_fr i σ2 σ3 -> g_fr i σ1 σ3.
Proof.
  intros [A1 (r1&B1&C1) D1 E1 F1 G1 H1] [A2 (r2&B2&C2) D2 E2 F2 G2 H2]. constructor; try congruence; auto.
  - intros j Hj. rewrite A2, A1; auto.
  - exists (r1 ++ r2). rewrite B2, B1, app_assoc. split; [reflexivity|apply Forall_app; auto].
Qed.

Ltac g_fr_same := exists []; rewrite app_nil_r; split; [reflexivity|constructor].
Ltac g_fr_one := eexists [_]; split; [reflexivity|constructor; [reflexivity|constructor]].

Lemma g_fr_tact0 i σ a : g_tact0 i a -> g_fr i σ (cstep σ a) /\ scq (csubs (cstep σ a) i) = scq (csubs σ i).
Proof.
  destruct a as [u| | |n| |j|j cl| |j|j n|j n|j]; cbn [g_tact0]; try contradiction.
  - intros [-> ->]. cbn [Conv.step]. destruct (sgone (csubs σ i)) eqn:Eg.
    + split; [apply g_fr_refl|reflexivity].
    + split; [|cbn [Conv.subs]; rewrite Conv.set_sub_eq; reflexivity].
      constructor; cbn [Conv.subs Conv.qe Conv.rs_subs Conv.rs_loaded Conv.answered]; auto.
      * intros j Hj. apply Conv.set_sub_neq, Hj.
      * destruct (sloaded (csubs σ i)); [g_fr_one|g_fr_same].
      * rewrite Conv.set_sub_eq. reflexivity.
      * congruence.
  - intros ->. cbn [Conv.step]. destruct (_ && _); [|split; [apply g_fr_refl|reflexivity]].
    cbn [Conv.subs]. rewrite Conv.set_sub_eq.
    match goal with |- context [Conv.drain val upd app ?x n] => destruct (g_drain x n) as (A&B&C&D&E&F&_) end.
    split; [|rewrite E; reflexivity].
    constructor; cbn [Conv.subs Conv.qe Conv.rs_subs Conv.rs_loaded Conv.answered]; auto.
    + intros j Hj. apply Conv.set_sub_neq, Hj.
    + g_fr_same.
    + rewrite Conv.set_sub_eq, D. reflexivity.
    + rewrite Conv.set_sub_eq, A. auto.
  - intros ->. cbn [Conv.step]. destruct (_ && _); [|split; [apply g_fr_refl|reflexivity]].
    cbn [Conv.subs]. rewrite Conv.set_sub_eq.
    match goal with |- context [Conv.drain val upd app ?x n] => destruct (g_drain x n) as (A&B&C&D&E&F&_) end.
    split; [|rewrite E; reflexivity].
    constructor; cbn [Conv.subs Conv.qe Conv.rs_subs Conv.rs_loaded Conv.answered]; auto.
    + intros j Hj. apply Conv.set_sub_neq, Hj.
    + g_fr_same.
    + rewrite Conv.set_sub_eq, D. reflexivity.
    + rewrite Conv.set_sub_eq, A. auto.
  - intros ->. cbn [Conv.step]. destruct (_ && _); [|split; [apply g_fr_refl|reflexivity]].
    cbn [Conv.subs]. rewrite Conv.set_sub_eq. split; [|reflexivity].
    constructor; cbn [Conv.subs Conv.qe Conv.rs_subs Conv.rs_loaded Conv.answered]; auto.
    + intros j Hj. apply Conv.set_sub_neq, Hj.
    + g_fr_same.
    + rewrite Conv.set_sub_eq. reflexivity.
    + rewrite Conv.set_sub_eq. auto.
Qed.

Lemma g_fr_list i l : forall σ, Forall (g_tact0 i) l ->
  g_fr i σ (fold_left cstep l σ) /\ scq (csubs (fold_left cstep l σ) i) = scq (csubs σ i).
Proof.
  induction l as [|a l IH]; intros σ H; cbn [fold_left]; [split; [apply g_fr_refl|reflexivity]|].
  inversion H as [|? ? Ha Hl]; subst. destruct (g_fr_tact0 i σ a Ha) as [A B]. destruct (IH (cstep σ a) Hl) as [A' B'].
  split; [eapply g_fr_trans; eassumption|congruence].
Qed.

(* the head item of subscription i's connection queue is run *)
Lemma g_runc σ i :
  g_fr i σ (cstep σ (Conv.RunC upd i)) /\ scq (csubs (cstep σ (Conv.RunC upd i)) i) = tl (scq (csubs σ i)) /\
  sgone (csubs (cstep σ (Conv.RunC upd i)) i) = sgone (csubs σ i).
Proof.
  cbn [Conv.step]. destruct (scq (csubs σ i)) as [|[|e|] q] eqn:Eq.
  - rewrite Eq. split; [apply g_fr_refl|auto].
  - destruct (sgone (csubs σ i)) eqn:Eg; cbn [Conv.subs]; rewrite Conv.set_sub_eq; (split; [|cbn; auto]).
    + constructor; cbn [Conv.subs Conv.qe Conv.rs_subs Conv.rs_loaded Conv.answered]; auto.
      * intros j Hj; apply Conv.set_sub_neq, Hj.
      * g_fr_one.
      * rewrite Conv.set_sub_eq; reflexivity.
      * rewrite Conv.set_sub_eq; cbn; congruence.
    + constructor; cbn [Conv.subs Conv.qe Conv.rs_subs Conv.rs_loaded Conv.answered]; auto.
      * intros j Hj; apply Conv.set_sub_neq, Hj.
      * g_fr_same.
      * rewrite Conv.set_sub_eq; reflexivity.
      * rewrite Conv.set_sub_eq; cbn; congruence.
  - cbn [Conv.subs]; rewrite Conv.set_sub_eq.
    assert (X : forall z', sgone z' = sgone (csubs σ i) -> ssubscribed z' = ssubscribed (csubs σ i) -> scq z' = q ->
      g_fr i σ {| Conv.truth := Conv.truth val upd σ; Conv.answered := Conv.answered val upd σ; Conv.qe := cqe σ;
                  Conv.rs_loaded := Conv.rs_loaded val upd σ; Conv.rs_val := Conv.rs_val val upd σ; Conv.rs_ver := Conv.rs_ver val upd σ;
                  Conv.rs_subs := Conv.rs_subs val upd σ; Conv.subs := Conv.set_sub val upd (csubs σ) i z' |} /\ scq z' = q /\ sgone z' = sgone (csubs σ i)).
    { intros z' A B C. split; [|auto].
      constructor; cbn [Conv.subs Conv.qe Conv.rs_subs Conv.rs_loaded Conv.answered]; auto.
      - intros j Hj; apply Conv.set_sub_neq, Hj.
      - g_fr_same.
      - rewrite Conv.set_sub_eq. exact B.
      - rewrite Conv.set_sub_eq, A. auto. }
    cbn [tl]. apply X; destruct (negb (sloaded (csubs σ i))); try reflexivity;
      destruct (sflag (csubs σ i)); try reflexivity;
      destruct (Conv.proc val upd app (Conv.sver val upd (csubs σ i), Conv.sval val upd (csubs σ i)) e); reflexivity.
  - cbn [Conv.subs]; rewrite Conv.set_sub_eq. split; [|cbn; auto].
    constructor; cbn [Conv.subs Conv.qe Conv.rs_subs Conv.rs_loaded Conv.answered]; auto.
    + intros j Hj; apply Conv.set_sub_neq, Hj.
    + g_fr_same.
    + rewrite Conv.set_sub_eq. reflexivity.
    + rewrite Conv.set_sub_eq. cbn. auto.
Qed.

(* the flags of subscription i after its head item was run *)
Lemma g_runc_flags σ i :
  let z := csubs σ i in let z' := csubs (cstep σ (Conv.RunC upd i)) i in
  match scq z with
  | Conv.CLoaded _ :: _ =>
      if sgone z then sloaded z' = false /\ ssent z' = ssent z /\ sflag z' = sflag z
      else sloaded z' = true /\ ssent z' = false /\ sflag z' = true
  | _ => sloaded z' = sloaded z /\ ssent z' = ssent z /\ sflag z' = sflag z
  end.
Proof.
  cbn zeta. cbn [Conv.step]. destruct (scq (csubs σ i)) as [|[|e|] q] eqn:Eq.
  - auto.
  - destruct (sgone (csubs σ i)); cbn [Conv.subs]; rewrite Conv.set_sub_eq; cbn; auto.
  - cbn [Conv.subs]; rewrite Conv.set_sub_eq. destruct (sloaded (csubs σ i)) eqn:El; cbn [negb]; [|cbn; auto].
    destruct (sflag (csubs σ i)) eqn:Ef; [cbn; auto|].
    destruct (Conv.proc val upd app (Conv.sver val upd (csubs σ i), Conv.sval val upd (csubs σ i)) e). cbn. auto.
  - cbn [Conv.subs]; rewrite Conv.set_sub_eq. cbn. auto.
Qed.
Notation g_AVal := Core.AVal.
Notation g_nreq l := (length (Core.ids_of l)).

(* the re-validation invariant of a live instance: x its connection, y the instance, ld/sn/fl the loaded/sent/flag bits of its
   Conv subscriber; [more]: the task at hand still has waiting requests to serve *)
Record g_V (i : nat) (more ld sn fl : bool) (x : Core.conn) (y : Core.inst) : Prop := {
  g_v_cur : Core.cur x = Some i;
  g_v_dir : 0 < Core.direct x;
  g_v_rq : Core.rq y = true -> fl = true /\ ld = true /\ sn = true /\ In g_AVal (Core.acb y) /\ Core.acc y = None /\ Core.inflight y = true;
  g_v_acb : Core.acb y <> [] -> Core.inflight y = true /\ Core.acc y = None;
  g_v_infl : Core.inflight y = true -> Core.acb y <> [];
  g_v_accn : Core.acc y = None -> Core.inflight y = true;
  g_v_accf : Core.acc y <> Some false;
  g_v_refl : Core.reflag y = true -> fl = true;
  g_v_flag : ld = true -> sn = true -> Core.rq y = false -> fl = false;
  g_v_sent : ld = true -> sn = false -> Core.acc y = Some true -> more = true;
  g_v_rcb : ld = false -> Core.acc y = Some true -> Core.rcb y = [] -> more = true;
  g_v_aval : In g_AVal (Core.acb y) -> Core.rq y = true;
  g_v_tl : ~ In g_AVal (tl (Core.acb y));
  g_v_nfl : fl = false -> Core.acc y <> None;
  g_v_rcbn : Core.rcb y <> [] -> Core.acc y <> None /\ ld = false;
  g_v_cnt : Core.acc y = None -> In g_AVal (Core.acb y) \/ Core.direct x <= g_nreq (Core.acb y);
  g_v_cp : fl = false -> ld = true /\ sn = true;
  g_v_ans : Core.ans y <> None -> Core.inflight y = true }.

Lemma g_in_app_req (l : list Core.acbk) id : In g_AVal (l ++ [Core.AReq id]) <-> In g_AVal l.
Proof. rewrite in_app_iff. cbn. split; [intros [H|[H|[]]]; [exact H|discriminate H]|auto]. Qed.
Lemma g_tl_app_req (l : list Core.acbk) id : ~ In g_AVal (tl l) -> ~ In g_AVal (tl (l ++ [Core.AReq id])).
Proof. destruct l as [|a l]; cbn; [tauto|]. rewrite g_in_app_req. auto. Qed.
Lemma g_nreq_app_req (l : list Core.acbk) id : g_nreq (l ++ [Core.AReq id]) = S (g_nreq l).
Proof. unfold Core.ids_of. rewrite flat_map_app, app_length. cbn. lia. Qed.
Lemma g_nreq_app_val (l : list Core.acbk) : g_nreq (l ++ [g_AVal]) = g_nreq l.
Proof. unfold Core.ids_of. rewrite flat_map_app, app_length. cbn. lia. Qed.

Ltac g_vt :=
  repeat match goal with
  | H : ?a = ?a -> _ |- _ => specialize (H eq_refl)
  | H : _ /\ _ |- _ => destruct H
  | H : true = false |- _ => discriminate H
  | H : false = true |- _ => discriminate H
  | |- _ /\ _ => split
  end; subst; auto; try congruence; try lia.

(* P14: same flags, same count and current instance *)
Lemma g_V_x i more ld sn fl x x' y : g_V i more ld sn fl x y -> Core.cur x' = Core.cur x -> Core.direct x' = Core.direct x ->
  g_V i more ld sn fl x' y.
Proof. intros [] E1 E2. constructor; rewrite ?E1, ?E2; auto. Qed.
Lemma g_V_more i ld sn fl x y : g_V i false ld sn fl x y -> g_V i true ld sn fl x y.
Proof. intros []. constructor; auto. Qed.
(* once the resource was sent nothing waits for the task any more *)
Lemma g_V_done i more fl x y : g_V i more true true fl x y -> g_V i false true true fl x y.
Proof. intros []. constructor; auto; discriminate. Qed.

Ltac g_pre H := destruct H as [Hcur Hdir Hrq Hacb Hinfl Haccn Haccf Hrefl Hflag Hsent Hrcb Haval Htl Hnfl Hrcbn Hcnt Hcp Hans].
Ltac g_fields := cbn [Core.upd_y Core.owner Core.acb Core.rcb Core.acc Core.inflight Core.ans Core.reflag Core.rq Core.lost
                      Core.with_cd Core.cur Core.direct Core.cqueue Core.tok Core.tokset Core.disc].
Ltac g_fw :=
  repeat match goal with
  | H : ?a = ?a -> _ |- _ => specialize (H eq_refl)
  | H : ?P -> _, H' : ?P |- _ => specialize (H H')
  | H : _ /\ _ |- _ => destruct H
  | H : true = false |- _ => discriminate H
  | H : false = true |- _ => discriminate H
  | H : Some _ = None |- _ => discriminate H
  | H : None = Some _ |- _ => discriminate H
  | H : ?a <> ?a |- _ => exfalso; apply H; reflexivity
  end.
Ltac g_v1 := intros; g_fw; subst; repeat split; auto; try congruence; try lia; try tauto;
  try (intro; g_fw; subst; auto; try congruence; try lia; try tauto).
Ltac g_nonnil := match goal with |- ?l ++ [_] <> [] => let E := fresh in intros E; destruct l; discriminate E end.

Lemma g_V_acc i more ld sn fl x x' y : g_V i more ld sn fl x y -> Core.acc y <> None -> Core.cur x' = Core.cur x -> 0 < Core.direct x' ->
  g_V i more ld sn fl x' y.
Proof. intros H Ha E1 E2. g_pre H. constructor; rewrite ?E1; auto. intros E. contradiction. Qed.
Lemma g_V_dec i more ld sn fl x x' y : g_V i more ld sn fl x y -> Core.cur x' = Core.cur x -> 0 < Core.direct x' -> Core.direct x' <= Core.direct x ->
  g_V i more ld sn fl x' y.
Proof. intros H E1 E2 E3. g_pre H. constructor; rewrite ?E1; auto. intros E. destruct (Hcnt E); [left; assumption|right; lia]. Qed.

Lemma g_V_join i ld sn fl x x' y id l : g_V i false ld sn fl x y -> Core.acc y = None ->
  Core.cur x' = Core.cur x -> Core.direct x' = S (Core.direct x) ->
  g_V i false ld sn fl x' (Core.upd_y y (Core.acb y ++ [Core.AReq id]) (Core.rcb y) (Core.acc y) true (Core.ans y) (Core.reflag y) (Core.rq y) l).
Proof.
  intros H Ha E1 E2. g_pre H. constructor; g_fields; rewrite ?E1, ?E2, ?g_in_app_req, ?g_nreq_app_req; try solve [g_v1].
  - intros _. g_nonnil.
  - apply g_tl_app_req, Htl.
  - intros E. destruct (Hcnt E); [left; assumption|right; lia].
Qed.

Lemma g_V_wait i more more' sn fl x y id l : g_V i more false sn fl x y -> Core.acc y = Some true ->
  g_V i more' false sn fl x (Core.upd_y y (Core.acb y) (Core.rcb y ++ [id]) (Core.acc y) (Core.inflight y) (Core.ans y) (Core.reflag y) (Core.rq y) l).
Proof.
  intros H Ha. g_pre H. constructor; g_fields; try solve [g_v1].
  intros _ _ E. destruct (Core.rcb y); discriminate E.
Qed.

Lemma g_V_remember i more ld sn x y l : g_V i more ld sn true x y ->
  g_V i more ld sn true x (Core.upd_y y (Core.acb y) (Core.rcb y) (Core.acc y) (Core.inflight y) (Core.ans y) true (Core.rq y) l).
Proof. intros H. g_pre H. constructor; g_fields; solve [g_v1]. Qed.

Lemma g_V_reacc i more sn fl x y l : g_V i more true sn fl x y -> Core.acb y = [] ->
  g_V i false true true true x (Core.upd_y y (Core.acb y ++ [g_AVal]) (Core.rcb y) None true (Core.ans y) false true l).
Proof.
  intros H Ha. g_pre H. rewrite Ha. constructor; g_fields; cbn [List.app tl In]; try solve [g_v1].
Qed.

Lemma g_V_loaded i sn fl x y l : g_V i false false sn fl x y ->
  g_V i true true false true x (Core.upd_y y (Core.acb y) [] (Core.acc y) (Core.inflight y) (Core.ans y) (Core.reflag y) (Core.rq y) l).
Proof. intros H. g_pre H. constructor; g_fields; try solve [g_v1]. Qed.
Lemma g_V_loaded0 i sn fl x y l : g_V i false false sn fl x y -> Core.rcb y = [] ->
  g_V i false true false true x (Core.upd_y y (Core.acb y) [] (Core.acc y) (Core.inflight y) (Core.ans y) (Core.reflag y) (Core.rq y) l).
Proof. intros H Hr. g_pre H. constructor; g_fields; try solve [g_v1]. Qed.

Lemma g_V_respond i more fl x y : g_V i more true false fl x y -> Core.reflag y = false -> Core.acc y <> None ->
  g_V i false true true false x y.
Proof. intros H Hr Ha. g_pre H. constructor; try solve [g_v1]. Qed.

Lemma g_V_val_ok i ld sn fl x y l : g_V i false ld sn fl x y -> In g_AVal (Core.acb y) -> Core.reflag y = false ->
  g_V i false true true false x (Core.upd_y y [] (Core.rcb y) (Some true) false None (Core.reflag y) false l).
Proof.
  intros H Hin Hr. g_pre H. destruct (Hrq (Haval Hin)) as (A&B&C&_). subst.
  constructor; g_fields; cbn [tl In]; try solve [g_v1].
Qed.
Lemma g_V_val_again i ld sn fl x y l : g_V i false ld sn fl x y -> In g_AVal (Core.acb y) ->
  g_V i false true true true x (Core.upd_y y ([] ++ [g_AVal]) (Core.rcb y) None true None false true l).
Proof.
  intros H Hin. g_pre H. destruct (Hrq (Haval Hin)) as (A&B&C&_). subst.
  constructor; g_fields; cbn [List.app tl In]; try solve [g_v1].
Qed.
Lemma g_V_granted i ld sn fl x y l : g_V i false ld sn fl x y -> ~ In g_AVal (Core.acb y) ->
  g_V i true ld sn fl x (Core.upd_y y [] (Core.rcb y) (Some true) false None (Core.reflag y) (Core.rq y) l).
Proof. intros H Hin. g_pre H. constructor; g_fields; cbn [tl In]; try solve [g_v1]. Qed.

Lemma g_V_answer i more ld sn fl x y g l : g_V i more ld sn fl x y -> Core.inflight y = true ->
  g_V i more ld sn fl x (Core.upd_y y (Core.acb y) (Core.rcb y) (Core.acc y) (Core.inflight y) (Some g) (Core.reflag y) (Core.rq y) l).
Proof. intros H Hi. g_pre H. constructor; g_fields; try solve [g_v1]. Qed.

Lemma g_V_new i x y id l : Core.acb y = [] ->
  g_V i false false false true (Core.with_cd x (Some i) 1)
    (Core.upd_y y (Core.acb y ++ [Core.AReq id]) [] None true None false false l).
Proof.
  intros Ha. rewrite Ha. constructor; g_fields; cbn [List.app tl In Core.ids_of flat_map length]; try solve [g_v1].
  intros [E|[]]. discriminate E.
Qed.

(* ---------------- the handlers on a live instance ---------------- *)
Definition g_T (i : nat) (more : bool) (k : tk_) : Prop :=
  gone_ i k = false /\ g_V i more (loaded_ i k) (sent_ i k) (flag_ i k) (tx k) (ty k).
Definition g_D (i : nat) (k : tk_) : Prop :=
  gone_ i k = true /\ Core.cur (tx k) = None /\ Core.direct (tx k) = 0.

Ltac g_k := unfold Core.gone_, Core.loaded_, Core.sent_, Core.flag_, Core.me in *;
            cbn [Core.ts Core.ta Core.tx Core.ty Core.to Core.act Core.emit Core.setx Core.sety] in *.

Ltac g_split := repeat match goal with |- _ /\ _ => split end.

Section HandlersV.
Variables (c i : nat).

Lemma g_h_dispose k : gone_ i k = false -> Core.direct (tx k) = 0 ->
  g_D i (dispose_t i k) /\ to (dispose_t i k) = to k.
Proof.
  intros Hg Hd. unfold Core.dispose_t. rewrite Hg. g_k. split; [|reflexivity]. split; [apply g_e_dispose|].
  g_fields. auto.
Qed.
Lemma g_h_remove_none k n : Core.direct (tx k) = 0 -> remove_direct i k n = k.
Proof. intros Hd. unfold Core.remove_direct. rewrite Hd. reflexivity. Qed.
Lemma g_h_remove_all k n : gone_ i k = false -> 0 < Core.direct (tx k) -> Core.direct (tx k) - n = 0 ->
  g_D i (remove_direct i k n) /\ to (remove_direct i k n) = to k.
Proof.
  intros Hg Hd Hn. unfold Core.remove_direct. destruct (Nat.eqb_spec (Core.direct (tx k)) 0) as [E|_]; [lia|].
  g_k. g_fields. rewrite Hn. cbn [Nat.eqb].
  destruct (g_h_dispose (setx k (Core.with_cd (tx k) (Core.cur (tx k)) 0))) as [A B]; [g_k; exact Hg|reflexivity|].
  split; [exact A|rewrite B; reflexivity].
Qed.
Lemma g_h_remove_some k n : Core.direct (tx k) - n <> 0 ->
  remove_direct i k n = setx k (Core.with_cd (tx k) (Core.cur (tx k)) (Core.direct (tx k) - n)).
Proof.
  intros Hn. unfold Core.remove_direct. destruct (Nat.eqb_spec (Core.direct (tx k)) 0) as [E|_]; [lia|].
  g_k. g_fields. destruct (Nat.eqb_spec (Core.direct (tx k) - n) 0) as [E|_]; [contradiction|reflexivity].
Qed.

Lemma g_hr_eq k : Nat.eqb (Core.direct (tx k)) 0 = false -> Core.inflight (ty k) = false ->
  let k' := handle_reaccess c i k in
  ts k' = cstep (ts k) (Conv.StartQueue upd i) /\ tx k' = tx k /\
  ty k' = Core.upd_y (ty k) (Core.acb (ty k) ++ [g_AVal]) (Core.rcb (ty k)) None true (Core.ans (ty k)) false true (Core.lost (ty k)).
Proof.
  intros Hd Hi. cbn zeta. unfold Core.handle_reaccess. g_k. rewrite Hd. unfold Core.load_access. g_k. g_fields. rewrite Hi. g_k. g_fields. auto.
Qed.

(* handleReaccess on a subscription that is loaded and sent, with nothing waiting for a verdict *)
Lemma g_h_hr k more sn0 fl0 : gone_ i k = false -> loaded_ i k = true -> sent_ i k = true ->
  g_V i more true sn0 fl0 (tx k) (ty k) -> Core.acb (ty k) = [] ->
  let k' := handle_reaccess c i k in
  g_T i false k' /\ flag_ i k' = true /\ loaded_ i k' = true /\ sent_ i k' = true /\ Core.rq (ty k') = true /\ tx k' = tx k.
Proof.
  intros Hg Hl Hs HV Ha. cbn zeta.
  assert (Hi : Core.inflight (ty k) = false).
  { destruct (Core.inflight (ty k)) eqn:E; [|reflexivity]. exfalso. apply (g_v_infl _ _ _ _ _ _ _ HV E), Ha. }
  assert (Hd : Nat.eqb (Core.direct (tx k)) 0 = false) by (apply Nat.eqb_neq; pose proof (g_v_dir _ _ _ _ _ _ _ HV); lia).
  destruct (g_hr_eq k Hd Hi) as (E1&E2&E3).
  destruct (g_e_startq (ts k) i Hl Hs) as (A&B&C&D). unfold g_T. g_k. rewrite E1, E2, E3, A, B, C, D. g_fields.
  g_split; auto. exact (g_V_reacc i more sn0 fl0 (tx k) (ty k) (Core.lost (ty k)) HV Ha).
Qed.

Lemma g_h_reaccess k : g_T i false k ->
  let k' := reaccess c i k in
  g_T i false k' /\ flag_ i k' = true /\ (Core.rq (ty k') = true \/ Core.reflag (ty k') = true) /\ tx k' = tx k.
Proof.
  intros [Hg HV]. cbn zeta. unfold Core.reaccess. rewrite Hg. destruct (flag_ i k) eqn:Ef.
  - unfold g_T. g_k. rewrite Ef. g_split; auto. apply g_V_remember, HV.
  - destruct (g_v_cp _ _ _ _ _ _ _ HV eq_refl) as [Hl Hs].
    assert (Ha : Core.acb (ty k) = []).
    { destruct (Core.acb (ty k)) eqn:E; [reflexivity|]. exfalso.
      destruct (g_v_acb _ _ _ _ _ _ _ HV) as [_ X]; [rewrite E; discriminate|]. exact (g_v_nfl _ _ _ _ _ _ _ HV eq_refl X). }
    rewrite Hl in HV. destruct (g_h_hr k false _ _ Hg Hl Hs HV Ha) as (A&B&_&_&C&D). auto.
Qed.

Lemma g_h_respond k ids more : gone_ i k = false -> loaded_ i k = true ->
  g_V i more true (sent_ i k) (flag_ i k) (tx k) (ty k) -> (sent_ i k = false -> Core.acc (ty k) <> None) -> ids <> [] ->
  let k' := respond c i k ids in
  g_T i false k' /\ loaded_ i k' = true /\ sent_ i k' = true /\ tx k' = tx k.
Proof.
  intros Hg Hl HV Hacc Hids. cbn zeta. unfold Core.respond. destruct ids as [|id r]; [contradiction|].
  destruct (sent_ i k) eqn:Es.
  - unfold g_T. g_k. rewrite Hl, Es. g_split; auto. eapply g_V_done, HV.
  - g_k. specialize (Hacc eq_refl).
    assert (Ha : Core.acb (ty k) = []).
    { destruct (Core.acb (ty k)) eqn:E; [reflexivity|]. exfalso.
      destruct (g_v_acb _ _ _ _ _ _ _ HV) as [_ X]; [rewrite E; discriminate|]. contradiction. }
    destruct (Core.reflag (ty k)) eqn:Er.
    + set (k1 := act (emit k [Core.OResp val upd c id (Some (Conv.sval val upd (me i k)))]) (Conv.Respond upd i 0)).
      destruct (g_e_respond (ts k) i 0 Hl Es) as (A&B&C&_).
      assert (Hg1 : gone_ i k1 = false) by (unfold k1; g_k; rewrite A; exact Hg).
      destruct (g_h_hr k1 more false (flag_ i k) Hg1 B C HV Ha) as (P&Q&R&S&T&U).
      unfold g_T in *. g_k. g_split; try tauto.
    + destruct (g_e_respond (ts k) i (length (seq_ (csubs (ts k) i))) Hl Es) as (A&B&C&D). specialize (D eq_refl).
      unfold g_T. g_k. rewrite A, B, C, D. g_split; auto. eapply g_V_respond; eauto.
Qed.

Lemma g_h_on_ready k id more : g_T i more k ->
  Core.acc (ty k) = Some true \/ (loaded_ i k = true /\ sent_ i k = true) ->
  let k' := on_ready c i k id in
  g_T i false k' /\ tx k' = tx k /\ (Core.acc (ty k') = Some true \/ (loaded_ i k' = true /\ sent_ i k' = true)).
Proof.
  intros [Hg HV] Hor. cbn zeta. unfold Core.on_ready. destruct (loaded_ i k) eqn:El.
  - destruct (g_h_respond k [id] more Hg El HV) as (A&B&C&D); [|discriminate|auto].
    intros Es. destruct Hor as [E|[_ E]]; congruence.
  - assert (Ha : Core.acc (ty k) = Some true) by (destruct Hor as [E|[E _]]; [exact E|discriminate E]).
    unfold g_T. g_k. rewrite El. g_split; auto. apply g_V_wait with (more := more); assumption.
Qed.

(* the waiting requests are served on a grant *)
Lemma g_h_reqs : forall r k, ~ In g_AVal r -> g_T i true k ->
  Core.acc (ty k) = Some true \/ (loaded_ i k = true /\ sent_ i k = true) ->
  (r = [] -> g_T i false k) ->
  let k' := fold_left (run_cb c i true) r k in g_T i false k' /\ tx k' = tx k.
Proof.
  induction r as [|b r IH]; intros k Hn HT Hor H0; cbn zeta; cbn [fold_left].
  - split; [apply H0; reflexivity|reflexivity].
  - destruct b as [id|]; [|exfalso; apply Hn; left; reflexivity].
    cbn [Core.run_cb]. destruct HT as [Hg HV]. rewrite Hg.
    destruct (g_h_on_ready k id true (conj Hg HV) Hor) as (A&B&C).
    destruct (IH (on_ready c i k id)) as [P Q]; auto.
    + intros Hin. apply Hn. right. exact Hin.
    + destruct A as [A1 A2]. split; [exact A1|apply g_V_more, A2].
    + split; [exact P|congruence].
Qed.

(* the validation, first in line, is answered with a grant *)
Lemma g_h_val k : g_T i false k -> In g_AVal (Core.acb (ty k)) ->
  let y := ty k in
  let k' := unqueue_reaccess c i (sety k (Core.upd_y y [] (Core.rcb y) (Some true) false None (Core.reflag y) (Core.rq y) (Core.lost y))) in
  g_T i false k' /\ tx k' = tx k /\ (Core.acc (ty k') = Some true \/ (loaded_ i k' = true /\ sent_ i k' = true)).
Proof.
  intros [Hg HV] Hin. cbn zeta.
  destruct (g_v_rq _ _ _ _ _ _ _ HV (g_v_aval _ _ _ _ _ _ _ HV Hin)) as (Hf&Hl&Hs&_).
  unfold Core.unqueue_reaccess. g_k. g_fields. rewrite Hg. destruct (Core.reflag (ty k)) eqn:Er.
  - assert (Hd : Nat.eqb (Core.direct (tx k)) 0 = false) by (apply Nat.eqb_neq; pose proof (g_v_dir _ _ _ _ _ _ _ HV); lia).
    match goal with |- context [handle_reaccess c i ?k0] => destruct (g_hr_eq k0) as (E1&E2&E3); [g_k; exact Hd|reflexivity|] end.
    destruct (g_e_startq (ts k) i Hl Hs) as (A&B&C&D). unfold g_T. g_k. rewrite E1, E2, E3. g_k. g_fields. rewrite A, B, C, D.
    g_split; auto. exact (g_V_val_again i _ _ _ (tx k) (ty k) (Core.lost (ty k)) HV Hin).
  - destruct (g_e_unqueue (ts k) i (length (seq_ (csubs (ts k) i))) Hl Hs Hf) as (A&B&C&D). specialize (D eq_refl).
    unfold g_T. g_k. rewrite A, B, C, D. g_split; auto.
    pose proof (g_V_val_ok i _ _ _ (tx k) (ty k) (Core.lost (ty k)) HV Hin Er) as X. rewrite Er in X. exact X.
Qed.

(* ---- a denial ---- *)
Definition g_iserr (o : out_) : Prop := exists id e, o = Core.OErr val upd c id e.

Lemma g_d_stable b k : g_D i k ->
  g_D i (run_cb c i false k b) /\ exists o, to (run_cb c i false k b) = to k ++ o /\ Forall g_iserr o.
Proof.
  intros (Hg&Hc&Hd). destruct b as [id|]; cbn [Core.run_cb].
  - rewrite g_h_remove_none by (g_k; exact Hd). split; [split; g_k; auto|].
    exists [Core.OErr val upd c id Core.EDenied]. split; [reflexivity|]. constructor; [exists id, Core.EDenied; reflexivity|constructor].
  - unfold Core.unsubscribe_direct. rewrite Hd. cbn [Nat.ltb Nat.leb]. unfold Core.unqueue_reaccess. g_k. rewrite Hg.
    split; [split; g_k; auto|]. exists []. rewrite app_nil_r. split; [reflexivity|constructor].
Qed.
Lemma g_d_stable_l : forall r k, g_D i k ->
  g_D i (fold_left (run_cb c i false) r k) /\ exists o, to (fold_left (run_cb c i false) r k) = to k ++ o /\ Forall g_iserr o.
Proof.
  induction r as [|b r IH]; intros k H; cbn [fold_left].
  - split; [exact H|]. exists []. rewrite app_nil_r. split; [reflexivity|constructor].
  - destruct (g_d_stable b k H) as [A (o1&B1&C1)]. destruct (IH _ A) as [A' (o2&B2&C2)].
    split; [exact A'|]. exists (o1 ++ o2). rewrite B2, B1, app_assoc. split; [reflexivity|apply Forall_app; auto].
Qed.
(* the validation is denied: every direct subscription is revoked with one unsubscribe event *)
Lemma g_d_val k : gone_ i k = false -> 0 < Core.direct (tx k) ->
  let k' := run_cb c i false k g_AVal in
  g_D i k' /\ to k' = to k ++ [Core.OUnsubEv val upd c].
Proof.
  intros Hg Hd. cbn zeta. cbn [Core.run_cb]. unfold Core.unsubscribe_direct.
  destruct (Nat.ltb_spec 0 (Core.direct (tx k))) as [_|E]; [|lia].
  destruct (g_h_remove_all k (Core.direct (tx k)) Hg Hd) as [(A&B&C) D]; [lia|].
  unfold Core.unqueue_reaccess. g_k. rewrite A. g_k. rewrite D. split; [|reflexivity]. unfold g_D. g_k. auto.
Qed.
Lemma g_d_reqs : forall r k, ~ In g_AVal r -> gone_ i k = false -> 0 < Core.direct (tx k) -> Core.direct (tx k) <= g_nreq r ->
  g_D i (fold_left (run_cb c i false) r k).
Proof.
  induction r as [|b r IH]; intros k Hn Hg Hd Hle; [cbn in Hle; lia|].
  destruct b as [id|]; [|exfalso; apply Hn; left; reflexivity]. cbn [fold_left Core.run_cb].
  destruct (Nat.eq_dec (Core.direct (tx k) - 1) 0) as [E|E].
  - apply g_d_stable_l. apply g_h_remove_all; g_k; auto.
  - rewrite g_h_remove_some by (g_k; exact E). apply IH.
    + intros Hin. apply Hn. right. exact Hin.
    + g_k. exact Hg.
    + g_k. g_fields. lia.
    + g_k. g_fields. cbn [Core.ids_of flat_map List.app length] in Hle. change (flat_map _ r) with (Core.ids_of r) in Hle. lia.
Qed.
End HandlersV.

(* ---------------- the invariant of the reachable states ---------------- *)
Definition g_qok (s : st_) (c : nat) (it : Core.qitem) : Prop :=
  match it with
  | Core.QAccess j | Core.QSub j => j < next s /\ Core.owner (insts s j) = c
  | _ => True
  end.

Record g_I (s : st_) : Prop := {
  g_i_inv : CInv (cv s);
  g_i_fresh : forall j, next s <= j -> insts s j = Core.inst0 /\ csubs (cv s) j = Conv.sub0 val upd d;
  g_i_cur : forall c j, Core.cur (conns s c) = Some j ->
     j < next s /\ Core.owner (insts s j) = c /\ sgone (csubs (cv s) j) = false;
  g_i_dir0 : forall c, Core.cur (conns s c) = None -> Core.direct (conns s c) = 0;
  g_i_live : forall j, j < next s -> sgone (csubs (cv s) j) = false ->
     g_V j false (sloaded (csubs (cv s) j)) (ssent (csubs (cv s) j)) (sflag (csubs (cv s) j))
         (conns s (Core.owner (insts s j))) (insts s j);
  g_i_q : forall c it, In it (Core.cqueue (conns s c)) -> g_qok s c it;
  g_i_nop : forall n, In (Conv.INop val upd n) (cqe (cv s)) -> n < next s }.

Lemma g_set_conn_eq f c x : Core.set_conn f c x c = x.
Proof. unfold Core.set_conn. rewrite Nat.eqb_refl. reflexivity. Qed.
Lemma g_set_conn_neq f c x c' : c' <> c -> Core.set_conn f c x c' = f c'.
Proof. intros H. unfold Core.set_conn. apply Nat.eqb_neq in H. rewrite H. reflexivity. Qed.
Lemma g_set_inst_eq f i y : Core.set_inst f i y i = y.
Proof. unfold Core.set_inst. rewrite Nat.eqb_refl. reflexivity. Qed.
Lemma g_set_inst_neq f i y j : j <> i -> Core.set_inst f i y j = f j.
Proof. intros H. unfold Core.set_inst. apply Nat.eqb_neq in H. rewrite H. reflexivity. Qed.

Lemma g_in_qe_fr i σ σ' n : g_fr i σ σ' -> In (Conv.INop val upd n) (cqe σ') -> In (Conv.INop val upd n) (cqe σ).
Proof.
  intros [_ (r&E&Hr) _ _ _ _ _] Hin. rewrite E in Hin. apply in_app_or in Hin. destruct Hin as [Hin|Hin]; [exact Hin|].
  rewrite Forall_forall in Hr. apply Hr in Hin. discriminate Hin.
Qed.

(* a task of connection c worked on its instance i *)
Lemma g_lift s c i σ' x' y' ms gr : g_I s -> i < next s -> Core.owner (insts s i) = c ->
  CInv σ' -> g_fr i (cv s) σ' -> Core.owner y' = c ->
  (forall it, In it (Core.cqueue x') -> In it (Core.cqueue (conns s c))) ->
  (sgone (csubs σ' i) = false /\ g_V i false (sloaded (csubs σ' i)) (ssent (csubs σ' i)) (sflag (csubs σ' i)) x' y') \/
  (sgone (csubs σ' i) = true /\ Core.cur x' = None /\ Core.direct x' = 0 /\ Core.cur (conns s c) = Some i) \/
  (sgone (csubs σ' i) = true /\ Core.cur x' = Core.cur (conns s c) /\ Core.direct x' = Core.direct (conns s c) /\ Core.cur (conns s c) <> Some i) ->
  g_I {| Core.cv := σ'; Core.conns := Core.set_conn (conns s) c x'; Core.insts := Core.set_inst (insts s) i y';
         Core.next := next s; Core.mqsub := ms; Core.getreq := gr |}.
Proof.
  intros HI Hi Ho Hinv Hfr Hoy Hq Hloc. pose proof HI as [I1 I2 I3 I4 I5 I6 I7].
  assert (Hown : forall j, Core.owner (Core.set_inst (insts s) i y' j) = Core.owner (insts s j)).
  { intros j. destruct (Nat.eq_dec j i) as [->|Hne]; [rewrite g_set_inst_eq; congruence|rewrite g_set_inst_neq by exact Hne; reflexivity]. }
  assert (Hwas : sgone (csubs σ' i) = false -> Core.cur (conns s c) = Some i).
  { intros Hg. assert (Hg0 : sgone (csubs (cv s) i) = false).
    { destruct (sgone (csubs (cv s) i)) eqn:E; [|reflexivity]. rewrite (g_fr_gm _ _ _ Hfr E) in Hg. discriminate Hg. }
    pose proof (g_v_cur _ _ _ _ _ _ _ (I5 i Hi Hg0)) as X. rewrite Ho in X. exact X. }
  constructor; cbn [Core.cv Core.conns Core.insts Core.next].
  - exact Hinv.
  - intros j Hj. rewrite g_set_inst_neq by lia. rewrite (g_fr_other _ _ _ Hfr) by lia. apply I2, Hj.
  - intros c' j Hc. rewrite Hown. destruct (Nat.eq_dec c' c) as [->|Hne].
    + rewrite g_set_conn_eq in Hc. destruct Hloc as [[Hg HV]|[(Hg&Hn&_)|(Hg&Hcu&_&Hni)]].
      * pose proof (g_v_cur _ _ _ _ _ _ _ HV) as X. rewrite Hc in X. injection X as ->. auto.
      * congruence.
      * rewrite Hcu in Hc. assert (j <> i) by congruence. destruct (I3 c j Hc) as (A&B&C). rewrite (g_fr_other _ _ _ Hfr) by assumption. auto.
    + rewrite g_set_conn_neq in Hc by exact Hne. destruct (I3 c' j Hc) as (A&B&C).
      assert (j <> i) by congruence. rewrite (g_fr_other _ _ _ Hfr) by assumption. auto.
  - intros c' Hc. destruct (Nat.eq_dec c' c) as [->|Hne].
    + rewrite g_set_conn_eq in *. destruct Hloc as [[Hg HV]|[(Hg&Hn&Hd&_)|(Hg&Hcu&Hd&Hni)]].
      * pose proof (g_v_cur _ _ _ _ _ _ _ HV) as X. congruence.
      * exact Hd.
      * rewrite Hd. apply I4. congruence.
    + rewrite g_set_conn_neq in * by exact Hne. apply I4, Hc.
  - intros j Hj Hg. rewrite Hown. destruct (Nat.eq_dec j i) as [->|Hne].
    + rewrite g_set_inst_eq, Ho, g_set_conn_eq. destruct Hloc as [[_ HV]|[(Hg'&_)|(Hg'&_)]]; [exact HV|congruence|congruence].
    + rewrite g_set_inst_neq by exact Hne. rewrite (g_fr_other _ _ _ Hfr) in * by exact Hne.
      pose proof (I5 j Hj Hg) as HV. destruct (Nat.eq_dec (Core.owner (insts s j)) c) as [E|E].
      * rewrite E in *. rewrite g_set_conn_eq. pose proof (g_v_cur _ _ _ _ _ _ _ HV) as X.
        destruct Hloc as [[Hg' _]|[(_&_&_&Hc)|(_&Hcu&Hd&_)]].
        -- apply Hwas in Hg'. congruence.
        -- congruence.
        -- eapply g_V_x; eauto.
      * rewrite g_set_conn_neq by exact E. exact HV.
  - intros c' it Hin. assert (Hin' : In it (Core.cqueue (conns s c'))).
    { destruct (Nat.eq_dec c' c) as [->|Hne]; [rewrite g_set_conn_eq in Hin; apply Hq, Hin|rewrite g_set_conn_neq in Hin by exact Hne; exact Hin]. }
    apply I6 in Hin'. destruct it; cbn [g_qok Core.next Core.insts] in *; auto; rewrite Hown; exact Hin'.
  - intros n Hin. apply I7. eapply g_in_qe_fr; eauto.
Qed.

(* the same in terms of the task record *)
Lemma g_lift_k s c i k1 k ms gr : g_I s -> i < next s -> Core.owner (insts s i) = c ->
  ts k1 = fold_left cstep (ta k1) (cv s) -> g_fr i (cv s) (ts k1) -> g_st i k1 k ->
  (forall it, In it (Core.cqueue (tx k1)) -> In it (Core.cqueue (conns s c))) -> Core.owner (ty k1) = c ->
  g_T i false k \/ (g_D i k /\ Core.cur (conns s c) = Some i) \/
  (gone_ i k = true /\ Core.cur (tx k) = Core.cur (conns s c) /\ Core.direct (tx k) = Core.direct (conns s c) /\ Core.cur (conns s c) <> Some i) ->
  g_I {| Core.cv := fold_left cstep (ta k) (cv s); Core.conns := Core.set_conn (conns s) c (tx k);
         Core.insts := Core.set_inst (insts s) i (ty k); Core.next := next s; Core.mqsub := ms; Core.getreq := gr |}.
Proof.
  intros HI Hi Ho Hwf Hfr1 [(l&A&B&C) O Q _] Hq Hoy Hloc.
  assert (E : fold_left cstep (ta k) (cv s) = ts k) by (rewrite A, fold_left_app, <- Hwf; symmetry; exact B).
  rewrite E. destruct (g_fr_list i l (ts k1) C) as [Hfr2 _]. rewrite <- B in Hfr2.
  apply g_lift; auto.
  - rewrite <- E. apply g_acts_inv, (g_i_inv _ HI).
  - eapply g_fr_trans; eassumption.
  - congruence.
  - rewrite Q. exact Hq.
  - unfold g_T, g_D in Hloc. g_k. tauto.
Qed.

(* ---------------- a grant of a connection worker ---------------- *)
Lemma g_step_grant s c : Core.cqueue (conns s c) <> [] ->
  step s (Core.GrantConn upd c) =
  let '(k, oi, nx, ms) := conn_task s c in
  ({| Core.cv := fold_left cstep (ta k) (cv s); Core.conns := Core.set_conn (conns s) c (tx k);
      Core.insts := match oi with Some i => Core.set_inst (insts s) i (ty k) | None => insts s end;
      Core.next := nx; Core.mqsub := ms; Core.getreq := Core.getreq val upd s |}, to k).
Proof.
  intros H. unfold Core.step. cbn [Core.acts_of]. destruct (Core.cqueue (conns s c)) eqn:E; [contradiction|].
  destruct (conn_task s c) as [[[k oi] nx] ms]. reflexivity.
Qed.

Notation g_k0 s x y := (Core.Build_tk val upd (cv s) [] x y []).

Lemma g_start s c i x' : g_I s -> Core.cur (conns s c) = Some i ->
  Core.cur x' = Core.cur (conns s c) -> Core.direct x' = Core.direct (conns s c) ->
  i < next s /\ Core.owner (insts s i) = c /\ g_T i false (g_k0 s x' (insts s i)).
Proof.
  intros HI Hc E1 E2. destruct (g_i_cur _ HI c i Hc) as (A&B&C). split; [exact A|]. split; [exact B|].
  unfold g_T. g_k. split; [exact C|]. pose proof (g_i_live _ HI i A C) as HV. rewrite B in HV. eapply g_V_x; eauto.
Qed.

Ltac g_task Eq := rewrite g_step_grant by (rewrite Eq; discriminate); unfold Core.conn_task; rewrite Eq; cbv beta iota zeta;
  cbn [Core.with_q Core.cur Core.direct Core.cqueue Core.tokset Core.tok Core.disc fst].

(* no instance is touched *)
Lemma g_I_conn s c x' σ' ms gr : g_I s -> σ' = cv s -> Core.cur x' = Core.cur (conns s c) -> Core.direct x' = Core.direct (conns s c) ->
  (forall it, In it (Core.cqueue x') -> In it (Core.cqueue (conns s c)) \/ g_qok s c it) ->
  g_I {| Core.cv := σ'; Core.conns := Core.set_conn (conns s) c x'; Core.insts := insts s; Core.next := next s; Core.mqsub := ms; Core.getreq := gr |}.
Proof.
  intros HI -> E1 E2 Hq. pose proof HI as [I1 I2 I3 I4 I5 I6 I7]. constructor; cbn [Core.cv Core.conns Core.insts Core.next]; auto.
  - intros c' j. destruct (Nat.eq_dec c' c) as [->|Hne]; [rewrite g_set_conn_eq, E1|rewrite g_set_conn_neq by exact Hne]; apply I3.
  - intros c'. destruct (Nat.eq_dec c' c) as [->|Hne]; [rewrite g_set_conn_eq, E1, E2|rewrite g_set_conn_neq by exact Hne]; apply I4.
  - intros j Hj Hg. pose proof (I5 j Hj Hg) as HV.
    destruct (Nat.eq_dec (Core.owner (insts s j)) c) as [E|Hne]; [rewrite E in *; rewrite g_set_conn_eq|rewrite g_set_conn_neq by exact Hne; exact HV].
    eapply g_V_x; eauto.
  - intros c' it. destruct (Nat.eq_dec c' c) as [->|Hne]; [rewrite g_set_conn_eq|rewrite g_set_conn_neq by exact Hne].
    + intros Hin. destruct (Hq it Hin) as [H|H]; [apply I6 in H|]; destruct it; cbn [g_qok Core.next Core.insts] in *; auto.
    + intros Hin. apply I6 in Hin. destruct it; cbn [g_qok Core.next Core.insts] in *; auto.
Qed.

Lemma g_I_token s c t q : g_I s -> Core.cqueue (conns s c) = Core.QToken t :: q -> g_I (fst (step s (Core.GrantConn upd c))).
Proof.
  intros HI Eq. g_task Eq. destruct (Core.cur (conns s c)) as [i|] eqn:Ec.
  - match goal with |- context [g_k0 s ?x ?y] => destruct (g_start s c i x HI Ec) as (Hi&Ho&HT); [first [reflexivity|cbn [Core.cur]; congruence]|reflexivity|set (k1 := g_k0 s x y) in *] end.
    assert (Hq : forall it, In it (Core.cqueue (tx k1)) -> In it (Core.cqueue (conns s c))) by (intros it Hin; rewrite Eq; right; exact Hin).
    destruct (Core.tokset (conns s c)).
    + cbn [fst]. apply (g_lift_k s c i k1); auto.
      * apply g_fr_refl.
      * apply g_st_reaccess.
      * left. apply g_h_reaccess, HT.
    + cbn [fst]. apply (g_lift_k s c i k1); auto.
      * apply g_fr_refl.
      * apply g_st_refl.
  - cbn [fst Core.ta Core.tx fold_left]. apply g_I_conn; auto. intros it Hin. left. rewrite Eq. right. exact Hin.
Qed.

Lemma g_la_eq_in c i k b : Core.inflight (ty k) = true ->
  load_access c i k b = sety k (Core.upd_y (ty k) (Core.acb (ty k) ++ [b]) (Core.rcb (ty k)) (Core.acc (ty k)) true (Core.ans (ty k))
                                   (Core.reflag (ty k)) (Core.rq (ty k)) (Core.lost (ty k))).
Proof. intros H. unfold Core.load_access. rewrite H. reflexivity. Qed.

Lemma g_I_req_cur s c id q i : g_I s -> Core.cqueue (conns s c) = Core.QReq id :: q -> Core.cur (conns s c) = Some i ->
  g_I (fst (step s (Core.GrantConn upd c))).
Proof.
  intros HI Eq Ec. g_task Eq. rewrite Ec.
  destruct (g_start s c i (Core.with_q (conns s c) q) HI Ec eq_refl eq_refl) as (Hi&Ho&[Hg HV]). g_k.
  cbn [Core.with_q Core.cur Core.direct] in HV.
  match goal with |- context [g_k0 s ?x ?y] => set (k1 := g_k0 s x y) in * end.
  assert (Hq : forall it, In it (Core.cqueue (tx k1)) -> In it (Core.cqueue (conns s c))) by (intros it Hin; rewrite Eq; right; exact Hin).
  cbn [Core.ty]. destruct (Core.acc (insts s i)) as [[|]|] eqn:Ea.
  - assert (HT : g_T i false k1).
    { split; [exact Hg|]. unfold k1. g_k. eapply g_V_acc; [exact HV|congruence|cbn; congruence|cbn; lia]. }
    cbn [fst]. apply (g_lift_k s c i k1); auto.
    + apply g_fr_refl.
    + apply g_st_on_ready.
    + left. apply (g_h_on_ready c i k1 id false HT). left. exact Ea.
  - exfalso. exact (g_v_accf _ _ _ _ _ _ _ HV Ea).
  - cbn [fst]. apply (g_lift_k s c i k1); auto.
    + apply g_fr_refl.
    + apply g_st_load_access.
    + left. pose proof (g_v_accn _ _ _ _ _ _ _ HV Ea) as Hin. rewrite g_la_eq_in by exact Hin.
      unfold g_T, k1. g_k. split; [exact Hg|].
      apply (g_V_join i _ _ _ (Core.with_q (conns s c) q)); auto; cbn; congruence.
Qed.

Lemma g_I_unsub s c id cnt q : g_I s -> Core.cqueue (conns s c) = Core.QUnsub id cnt :: q -> g_I (fst (step s (Core.GrantConn upd c))).
Proof.
  intros HI Eq. g_task Eq. destruct (Core.cur (conns s c)) as [i|] eqn:Ec.
  - match goal with |- context [g_k0 s ?x ?y] => destruct (g_start s c i x HI Ec) as (Hi&Ho&HT); [first [reflexivity|cbn [Core.cur]; congruence]|reflexivity|set (k1 := g_k0 s x y) in *] end.
    assert (Hq : forall it, In it (Core.cqueue (tx k1)) -> In it (Core.cqueue (conns s c))) by (intros it Hin; rewrite Eq; right; exact Hin).
    cbn [fst]. destruct HT as [Hg HV]. unfold k1 in Hg, HV. g_k.
    pose proof (g_v_dir _ _ _ _ _ _ _ HV) as Hd. cbn [Core.direct] in Hd.
    destruct (Nat.eqb_spec cnt 0) as [E0|E0].
    + apply (g_lift_k s c i k1); auto; [apply g_fr_refl|apply g_st_emit|]. left. split; assumption.
    + destruct (Nat.leb_spec cnt (Core.direct (conns s c))) as [Ele|Ele].
      * destruct (Nat.eqb_spec (Core.direct (conns s c) - cnt) 0) as [Ez|Ez].
        -- apply (g_lift_k s c i k1); auto; [apply g_fr_refl| |].
           ++ eapply g_st_trans; [|apply g_st_remove_direct]. eapply g_st_trans; [apply g_st_emit|apply g_st_sety'; reflexivity].
           ++ right. left. split; [|congruence]. apply g_h_remove_all; g_k; auto.
        -- rewrite g_h_remove_some by (g_k; exact Ez). apply (g_lift_k s c i k1); auto; [apply g_fr_refl| |].
           ++ eapply g_st_trans; [apply g_st_emit|apply g_st_setx].
           ++ left. split; g_k; [exact Hg|]. eapply g_V_dec; [exact HV|reflexivity|cbn; lia|cbn; lia].
      * apply (g_lift_k s c i k1); auto; [apply g_fr_refl|apply g_st_emit|]. left. split; assumption.
  - cbn [fst Core.ta Core.tx Core.emit fold_left]. apply g_I_conn; auto. intros it Hin. left. rewrite Eq. right. exact Hin.
Qed.

Lemma g_acb_shape (l : list Core.acbk) : ~ In g_AVal (tl l) -> In g_AVal l -> exists r, l = g_AVal :: r /\ ~ In g_AVal r.
Proof.
  destruct l as [|b r]; cbn; [tauto|]. intros Hn [E|Hin]; [|contradiction]. subst b. exists r. auto.
Qed.

Lemma g_I_access s c i q : g_I s -> Core.cqueue (conns s c) = Core.QAccess i :: q -> g_I (fst (step s (Core.GrantConn upd c))).
Proof.
  intros HI Eq. g_task Eq.
  destruct (g_i_q _ HI c (Core.QAccess i)) as [Hi Ho]; [rewrite Eq; left; reflexivity|].
  match goal with |- context [g_k0 s ?x ?y] => set (k1 := g_k0 s x y) in * end.
  assert (Hq : forall it, In it (Core.cqueue (tx k1)) -> In it (Core.cqueue (conns s c))) by (intros it Hin; rewrite Eq; right; exact Hin).
  unfold Core.is_gone. destruct (sgone (csubs (cv s) i)) eqn:Eg.
  - cbn [fst]. apply (g_lift_k s c i k1); auto; [apply g_fr_refl|apply g_st_refl|].
    right. right. unfold k1. g_k. g_split; auto. intros Ec. apply (g_i_cur _ HI) in Ec. destruct Ec as (_&_&Ec). congruence.
  - pose proof (g_i_live _ HI i Hi Eg) as HV. rewrite Ho in HV.
    pose proof (g_v_cur _ _ _ _ _ _ _ HV) as Ec.
    assert (HT : g_T i false k1) by (split; [exact Eg|unfold k1; g_k; eapply g_V_x; eauto]).
    destruct (Core.ans (insts s i)) as [g|] eqn:Ea.
    + cbn [fst].
      assert (Hinf : Core.inflight (insts s i) = true) by (apply (g_v_ans _ _ _ _ _ _ _ HV); congruence).
      assert (Hne : Core.acb (insts s i) <> []) by (apply (g_v_infl _ _ _ _ _ _ _ HV), Hinf).
      apply (g_lift_k s c i k1); auto; [apply g_fr_refl| |].
      * eapply g_st_trans; [apply g_st_sety|apply g_st_batch].
      * destruct g.
        -- left. destruct (in_dec (fun a b : Core.acbk => ltac:(decide equality; apply Nat.eq_dec) : {a = b} + {a <> b}) g_AVal (Core.acb (insts s i))) as [Hin|Hnin].
           ++ destruct (g_acb_shape _ (g_v_tl _ _ _ _ _ _ _ HV) Hin) as (r&Er&Hr). rewrite Er. cbn [fold_left Core.run_cb].
              destruct (g_h_val c i k1 HT) as (A&B&C); [unfold k1; g_k; exact Hin|]. unfold k1 in A, B, C. cbn [Core.ty] in A, B, C.
              apply g_h_reqs; auto. destruct A as [A1 A2]. split; [exact A1|apply g_V_more, A2].
           ++ apply g_h_reqs; auto.
              ** destruct HT as [_ HV1]. split; [exact Eg|]. unfold k1 in *. g_k. apply g_V_granted; assumption.
              ** intros E. contradiction.
        -- right. left. split; [|exact Ec].
           destruct (in_dec (fun a b : Core.acbk => ltac:(decide equality; apply Nat.eq_dec) : {a = b} + {a <> b}) g_AVal (Core.acb (insts s i))) as [Hin|Hnin].
           ++ destruct (g_acb_shape _ (g_v_tl _ _ _ _ _ _ _ HV) Hin) as (r&Er&Hr). rewrite Er. cbn [fold_left].
              apply g_d_stable_l. apply g_d_val; unfold k1; g_k; auto. cbn [Core.direct]. apply (g_v_dir _ _ _ _ _ _ _ HV).
           ++ apply g_d_reqs; auto; unfold k1; g_k; cbn [Core.direct]; [apply (g_v_dir _ _ _ _ _ _ _ HV)|].
              destruct (g_v_acb _ _ _ _ _ _ _ HV Hne) as [_ Hacc]. destruct (g_v_cnt _ _ _ _ _ _ _ HV Hacc); [contradiction|assumption].
    + cbn [fst]. apply (g_lift_k s c i k1); auto; [apply g_fr_refl|apply g_st_refl].
Qed.

Lemma g_loaded_head σ i q : CInv σ -> scq (csubs σ i) = Conv.CLoaded upd :: q -> sloaded (csubs σ i) = false.
Proof.
  intros H E. pose proof (Conv.i4 _ _ _ _ H i) as H4. rewrite E, Conv.cnt_cons in H4. cbn [Conv.is_ld Conv.b2n] in H4.
  pose proof (Conv.b2n_le (Conv.mem i (Conv.rs_subs val upd σ) && Conv.rs_loaded val upd σ)).
  destruct (sloaded (csubs σ i)); [cbn in H4; lia|reflexivity].
Qed.

Lemma g_I_sub s c i q : g_I s -> Core.cqueue (conns s c) = Core.QSub i :: q -> g_I (fst (step s (Core.GrantConn upd c))).
Proof.
  intros HI Eq. g_task Eq.
  destruct (g_i_q _ HI c (Core.QSub i)) as [Hi Ho]; [rewrite Eq; left; reflexivity|].
  set (k0 := g_k0 s (Core.with_q (conns s c) q) (insts s i)) in *.
  set (k1 := act k0 (Conv.RunC upd i)) in *.
  assert (Hq : forall it, In it (Core.cqueue (tx k1)) -> In it (Core.cqueue (conns s c))) by (intros it Hin; rewrite Eq; right; exact Hin).
  destruct (g_runc (cv s) i) as (Hfr&_&Hgn). pose proof (g_runc_flags (cv s) i) as Hfl. cbn zeta in Hfl.
  assert (Hwf : ts k1 = fold_left cstep (ta k1) (cv s)) by reflexivity.
  assert (Hfr1 : g_fr i (cv s) (ts k1)) by exact Hfr.
  assert (Hoy : Core.owner (ty k1) = c) by exact Ho.
  assert (Hg1 : gone_ i k1 = sgone (csubs (cv s) i)) by exact Hgn.
  destruct (sgone (csubs (cv s) i)) eqn:Eg.
  - (* a disposed instance: the item is dropped *)
    assert (Hnc : Core.cur (conns s c) <> Some i).
    { intros Ec. apply (g_i_cur _ HI) in Ec. destruct Ec as (_&_&Ec). congruence. }
    assert (Hloc : forall k, gone_ i k = true -> tx k = tx k1 -> 
       g_T i false k \/ (g_D i k /\ Core.cur (conns s c) = Some i) \/
       (gone_ i k = true /\ Core.cur (tx k) = Core.cur (conns s c) /\ Core.direct (tx k) = Core.direct (conns s c) /\ Core.cur (conns s c) <> Some i)).
    { intros k A B. right. right. rewrite B. unfold k1, k0. g_k. auto. }
    destruct (scq (csubs (cv s) i)) as [|[|e|] r] eqn:Ecq; cbn [fst].
    + apply (g_lift_k s c i k1); auto; [apply g_st_refl].
    + apply (g_lift_k s c i k1); auto; [apply g_st_refl].
    + apply (g_lift_k s c i k1); auto; [apply g_st_emit].
    + unfold Core.reaccess. rewrite Hg1. apply (g_lift_k s c i k1); auto; [apply g_st_refl].
  - pose proof (g_i_live _ HI i Hi Eg) as HV. rewrite Ho in HV. pose proof (g_v_cur _ _ _ _ _ _ _ HV) as Ec.
    destruct (scq (csubs (cv s) i)) as [|[|e|] r] eqn:Ecq; cbn [fst].
    + destruct Hfl as (F1&F2&F3).
      apply (g_lift_k s c i k1); auto; [apply g_st_refl|]. left. split; [exact Hg1|]. unfold k1, k0. g_k. rewrite F1, F2, F3. eapply g_V_x; eauto.
    + destruct Hfl as (F1&F2&F3).
      pose proof (g_loaded_head _ _ _ (g_i_inv _ HI) Ecq) as Hl0. rewrite Hl0 in HV.
      apply (g_lift_k s c i k1); auto.
      * eapply g_st_trans; [|apply g_st_respond]. apply g_st_sety'; reflexivity.
      * left. destruct (Core.rcb (ty k1)) as [|id0 r0] eqn:Er.
        -- cbn [Core.respond]. split; [exact Hg1|]. unfold k1, k0 in *. g_k. rewrite F1, F2, F3. eapply g_V_x; [eapply g_V_loaded0; eauto|reflexivity|reflexivity].
        -- match goal with |- g_T i false (respond c i ?K ?IDS) => destruct (g_h_respond c i K IDS true) as (A&_); [| | | | |exact A] end.
           ++ exact Hg1.
           ++ unfold k1, k0. g_k. exact F1.
           ++ unfold k1, k0 in *. g_k. rewrite F2, F3. eapply g_V_x; [eapply g_V_loaded; eauto|reflexivity|reflexivity].
           ++ intros _. unfold k1, k0 in *. g_k. g_fields. apply (g_v_rcbn _ _ _ _ _ _ _ HV). rewrite Er. discriminate.
           ++ discriminate.
    + destruct Hfl as (F1&F2&F3).
      apply (g_lift_k s c i k1); auto; [apply g_st_emit|]. left. split; [exact Hg1|]. unfold k1, k0. g_k. rewrite F1, F2, F3. eapply g_V_x; eauto.
    + destruct Hfl as (F1&F2&F3).
      apply (g_lift_k s c i k1); auto; [apply g_st_reaccess|]. left. apply g_h_reaccess.
      split; [exact Hg1|]. unfold k1, k0. g_k. rewrite F1, F2, F3. eapply g_V_x; eauto.
Qed.

(* ---------------- the other Conv actions ---------------- *)
Definition g_svc (a : caction) : Prop :=
  match a with
  | Conv.SvcUpdate _ _ | Conv.SvcCustom _ | Conv.SvcAnswer _ | Conv.SvcNop _ _ | Conv.SvcReacc _ => True
  | _ => False
  end.
Definition g_notadd (it : Conv.eitem val upd) : Prop := match it with Conv.IAddSub _ _ _ => False | _ => True end.

Lemma g_svc_step σ a : g_svc a ->
  csubs (cstep σ a) = csubs σ /\ Conv.rs_subs val upd (cstep σ a) = Conv.rs_subs val upd σ /\
  Conv.rs_loaded val upd (cstep σ a) = Conv.rs_loaded val upd σ /\
  (exists r, cqe (cstep σ a) = cqe σ ++ r /\ Forall g_notadd r /\
     forall n, In (Conv.INop val upd n) r -> a = Conv.SvcNop upd n) /\
  (Conv.answered val upd σ = true -> Conv.answered val upd (cstep σ a) = true).
Proof.
  destruct a as [u| | |n| |j|j cl| |j|j n|j n|j]; cbn [g_svc]; try contradiction; intros _; cbn [Conv.step].
  - cbn. repeat split; auto. eexists [_]. split; [reflexivity|]. split; [repeat constructor|]. intros n [E|[]]. discriminate E.
  - cbn. repeat split; auto. eexists [_]. split; [reflexivity|]. split; [repeat constructor|]. intros n [E|[]]. discriminate E.
  - destruct (Conv.answered val upd σ) eqn:Ea.
    + repeat split; auto. exists []. rewrite app_nil_r. split; [reflexivity|]. split; [constructor|]. intros n [].
    + cbn. repeat split; auto. eexists [_]. split; [reflexivity|]. split; [repeat constructor|]. intros n' [E|[]]. discriminate E.
  - cbn. repeat split; auto. eexists [_]. split; [reflexivity|]. split; [repeat constructor|]. intros n' [E|[]]. injection E as ->. reflexivity.
  - cbn. repeat split; auto. eexists [_]. split; [reflexivity|]. split; [repeat constructor|]. intros n [E|[]]. discriminate E.
Qed.

(* the cache worker only appends to the connection queues *)
Lemma g_rune_fields σ j :
  let x := csubs σ j in let x' := csubs (cstep σ (Conv.RunE upd)) j in
  ssubscribed x' = ssubscribed x /\ sloaded x' = sloaded x /\ sflag x' = sflag x /\ ssent x' = ssent x /\ sgone x' = sgone x /\
  sclosed x' = sclosed x /\ (scq x' = scq x \/ exists it, scq x' = scq x ++ [it]).
Proof.
  cbn zeta. cbn [Conv.step].
  assert (PA : forall it, let x' := Conv.push_all val upd (csubs σ) (Conv.rs_subs val upd σ) it j in
    ssubscribed x' = ssubscribed (csubs σ j) /\ sloaded x' = sloaded (csubs σ j) /\ sflag x' = sflag (csubs σ j) /\
    ssent x' = ssent (csubs σ j) /\ sgone x' = sgone (csubs σ j) /\ sclosed x' = sclosed (csubs σ j) /\
    (scq x' = scq (csubs σ j) \/ exists it, scq x' = scq (csubs σ j) ++ [it])).
  { intros it. cbn zeta. unfold Conv.push_all. destruct (_ && _);
      cbn [Conv.push_c Conv.subscribed Conv.loaded Conv.sver Conv.sval Conv.flag Conv.eq Conv.sent Conv.gone Conv.closed Conv.cq];
      repeat split; [right; eexists; reflexivity|left; reflexivity]. }
  assert (ID : let x := csubs σ j in ssubscribed x = ssubscribed x /\ sloaded x = sloaded x /\ sflag x = sflag x /\
    ssent x = ssent x /\ sgone x = sgone x /\ sclosed x = sclosed x /\
    (scq x = scq x \/ exists it, scq x = scq x ++ [it])) by (cbn zeta; repeat split; left; reflexivity).
  destruct (cqe σ) as [|[u| |v|k|k| |n] q]; cbn [Conv.subs]; try exact ID.
  - destruct (Conv.rs_loaded val upd σ); [|exact ID]. destruct (norm u (Conv.rs_val val upd σ)); cbn [Conv.subs]; [apply PA|exact ID].
  - destruct (Conv.rs_loaded val upd σ); [apply PA|exact ID].
  - apply PA.
  - destruct (Conv.rs_loaded val upd σ && negb (sclosed (csubs σ k))); [|exact ID].
    unfold Conv.set_sub. destruct (Nat.eqb j k) eqn:E; [|exact ID]. apply Nat.eqb_eq in E. subst k.
    cbn [Conv.push_c Conv.subscribed Conv.loaded Conv.sver Conv.sval Conv.flag Conv.eq Conv.sent Conv.gone Conv.closed Conv.cq].
    repeat split. right. eexists; reflexivity.
  - apply PA.
Qed.

Lemma g_mem_false_fresh σ j : CInv σ -> ssubscribed (csubs σ j) = false -> Conv.mem j (Conv.rs_subs val upd σ) = false.
Proof.
  intros H Hs. pose proof (Conv.i3g _ _ _ _ H j) as H3. rewrite Hs in H3. cbn [Conv.b2n] in H3.
  destruct (Conv.mem j (Conv.rs_subs val upd σ)); [cbn in H3; lia|reflexivity].
Qed.

Lemma g_rune_fresh σ j : CInv σ -> ssubscribed (csubs σ j) = false -> csubs (cstep σ (Conv.RunE upd)) j = csubs σ j.
Proof.
  intros H Hs. pose proof (g_mem_false_fresh σ j H Hs) as Hm.
  assert (PA : forall it, Conv.push_all val upd (csubs σ) (Conv.rs_subs val upd σ) it j = csubs σ j).
  { intros it. unfold Conv.push_all. rewrite Hm. reflexivity. }
  cbn [Conv.step]. destruct (cqe σ) as [|[u| |v|k|k| |n] q] eqn:Eq; cbn [Conv.subs]; try reflexivity.
  - destruct (Conv.rs_loaded val upd σ); [|reflexivity]. destruct (norm u (Conv.rs_val val upd σ)); cbn [Conv.subs]; [apply PA|reflexivity].
  - destruct (Conv.rs_loaded val upd σ); [apply PA|reflexivity].
  - apply PA.
  - destruct (Conv.rs_loaded val upd σ && negb (sclosed (csubs σ k))); [|reflexivity].
    unfold Conv.set_sub. destruct (Nat.eqb_spec j k) as [->|Hne]; [|reflexivity]. exfalso.
    pose proof (Conv.i3g _ _ _ _ H k) as H3. rewrite Eq, Hs, Conv.cnt_cons in H3. cbn [Conv.is_add] in H3. rewrite Nat.eqb_refl in H3. cbn in H3. lia.
  - apply PA.
Qed.

(* what the cache worker leaves in the resource's queue: the tail and releases *)
Lemma g_rune_qe σ : exists r, cqe (cstep σ (Conv.RunE upd)) = tl (cqe σ) ++ r /\ Forall (fun it => exists j, it = Conv.IRemSub val upd j) r.
Proof.
  cbn [Conv.step].
  assert (N : forall q : list (Conv.eitem val upd), exists r, q = q ++ r /\ Forall (fun it => exists j, it = Conv.IRemSub val upd j) r).
  { intros q. exists []. rewrite app_nil_r. split; [reflexivity|constructor]. }
  destruct (cqe σ) as [|[u| |v|k|k| |n] q] eqn:Eq; cbn [Conv.qe tl]; try apply N.
  - rewrite Eq. apply N.
  - destruct (Conv.rs_loaded val upd σ); [destruct (norm u (Conv.rs_val val upd σ))|]; cbn [Conv.qe]; apply N.
  - eexists. split; [reflexivity|]. unfold Conv.refused. apply Forall_forall. intros it Hin. apply in_map_iff in Hin.
    destruct Hin as (j&<-&_). exists j. reflexivity.
  - destruct (Conv.rs_loaded val upd σ && sclosed (csubs σ k)); [|apply N].
    eexists. split; [reflexivity|]. constructor; [exists k; reflexivity|constructor].
Qed.

Lemma g_rune_nop σ n : In (Conv.INop val upd n) (cqe (cstep σ (Conv.RunE upd))) -> In (Conv.INop val upd n) (cqe σ).
Proof.
  destruct (g_rune_qe σ) as (r&E&Hr). rewrite E. intros Hin. apply in_app_or in Hin. destruct Hin as [Hin|Hin].
  - destruct (cqe σ); [destruct Hin|right; exact Hin].
  - rewrite Forall_forall in Hr. apply Hr in Hin. destruct Hin as (j&Hj). discriminate Hj.
Qed.

(* a fresh subscriber subscribes *)
Lemma g_subscribe_fresh σ i : csubs σ i = Conv.sub0 val upd d ->
  let σ' := cstep σ (Conv.Subscribe upd i) in
  (forall j, j <> i -> csubs σ' j = csubs σ j) /\
  sgone (csubs σ' i) = false /\ sloaded (csubs σ' i) = false /\ ssent (csubs σ' i) = false /\ sflag (csubs σ' i) = true /\
  ssubscribed (csubs σ' i) = true /\ scq (csubs σ' i) = [] /\
  cqe σ' = cqe σ ++ [Conv.IAddSub val upd i] /\ Conv.rs_subs val upd σ' = Conv.rs_subs val upd σ.
Proof.
  intros E. cbn zeta. cbn [Conv.step]. rewrite E. cbn [Conv.sub0 Conv.subscribed Conv.subs Conv.qe Conv.rs_subs].
  rewrite Conv.set_sub_eq. cbn. repeat split; auto. intros j Hj. apply Conv.set_sub_neq, Hj.
Qed.

(* the subscriptions of a closing connection are disposed *)
Lemma g_dispose_step σ j cl :
  let σ' := cstep σ (Conv.Dispose upd j cl) in
  (forall j', j' <> j -> csubs σ' j' = csubs σ j') /\ sgone (csubs σ' j) = true /\
  ssubscribed (csubs σ' j) = ssubscribed (csubs σ j) /\ scq (csubs σ' j) = scq (csubs σ j) /\
  Conv.rs_subs val upd σ' = Conv.rs_subs val upd σ /\
  exists r, cqe σ' = cqe σ ++ r /\ Forall (fun it => exists j, it = Conv.IRemSub val upd j) r.
Proof.
  cbn zeta. split; [|split; [apply g_e_dispose|]].
  - intros j' Hj. cbn [Conv.step]. destruct (sgone (csubs σ j)); [destruct cl|]; cbn [Conv.subs]; try reflexivity; apply Conv.set_sub_neq, Hj.
  - assert (N : forall q : list (Conv.eitem val upd), exists r, q = q ++ r /\ Forall (fun it => exists j, it = Conv.IRemSub val upd j) r).
    { intros q. exists []. rewrite app_nil_r. split; [reflexivity|constructor]. }
    cbn [Conv.step]. destruct (sgone (csubs σ j)) eqn:Eg; [destruct cl|]; cbn [Conv.subs Conv.qe Conv.rs_subs]; rewrite ?Conv.set_sub_eq; cbn [Conv.dispose Conv.subscribed Conv.cq];
      repeat split; auto.
    destruct (sloaded (csubs σ j)); [|apply N]. eexists. split; [reflexivity|]. constructor; [exists j; reflexivity|constructor].
Qed.

Lemma g_dispose_list cl l : forall σ,
  let σ' := fold_left cstep (map (fun j => Conv.Dispose upd j cl) l) σ in
  (forall j, ~ In j l -> csubs σ' j = csubs σ j) /\ (forall j, In j l -> sgone (csubs σ' j) = true) /\
  (forall j, ssubscribed (csubs σ' j) = ssubscribed (csubs σ j) /\ scq (csubs σ' j) = scq (csubs σ j)) /\
  Conv.rs_subs val upd σ' = Conv.rs_subs val upd σ /\
  exists r, cqe σ' = cqe σ ++ r /\ Forall (fun it => exists j, it = Conv.IRemSub val upd j) r.
Proof.
  induction l as [|a l IH]; intros σ; cbn [map fold_left]; cbn zeta.
  - repeat split; auto; try contradiction. exists []. rewrite app_nil_r. split; [reflexivity|constructor].
  - destruct (g_dispose_step σ a cl) as (A&B&C&D&E&(r1&F1&G1)). cbn zeta in *.
    destruct (IH (cstep σ (Conv.Dispose upd a cl))) as (A'&B'&C'&E'&(r2&F2&G2)). cbn zeta in *.
    split; [|split; [|split; [|split]]].
    + intros j Hn. rewrite A' by (intros Hin; apply Hn; right; exact Hin). apply A. intros ->. apply Hn. left. reflexivity.
    + intros j [->|Hin]; [|apply B', Hin].
      destruct (in_dec Nat.eq_dec j l) as [Hin|Hn]; [apply B', Hin|rewrite A' by exact Hn; exact B].
    + intros j. destruct (C' j) as [C1 C2]. rewrite C1, C2. destruct (Nat.eq_dec j a) as [->|Hne]; [auto|rewrite A by exact Hne; auto].
    + congruence.
    + exists (r1 ++ r2). rewrite F2, F1, app_assoc. split; [reflexivity|apply Forall_app; auto].
Qed.

Lemma g_fold_act l : forall k, let k' := fold_left act l k in
  ta k' = ta k ++ l /\ ts k' = fold_left cstep l (ts k) /\ tx k' = tx k /\ ty k' = ty k /\ to k' = to k.
Proof.
  induction l as [|a l IH]; intros k; cbn zeta; cbn [fold_left].
  - rewrite app_nil_r. auto.
  - destruct (IH (act k a)) as (A&B&C&D&E). cbn zeta in *. rewrite A, B, C, D, E. cbn [Core.act Core.ta Core.ts Core.tx Core.ty Core.to].
    rewrite <- app_assoc. auto.
Qed.

(* ---------------- steps that leave the instances alone ---------------- *)
Lemma g_I_env s σ' f' ms gr : g_I s -> CInv σ' ->
  (forall j, sgone (csubs σ' j) = sgone (csubs (cv s) j) /\ sloaded (csubs σ' j) = sloaded (csubs (cv s) j) /\
             ssent (csubs σ' j) = ssent (csubs (cv s) j) /\ sflag (csubs σ' j) = sflag (csubs (cv s) j)) ->
  (forall j, next s <= j -> csubs σ' j = Conv.sub0 val upd d) ->
  (forall n, In (Conv.INop val upd n) (cqe σ') -> n < next s) ->
  (forall c, Core.cur (f' c) = Core.cur (conns s c) /\ Core.direct (f' c) = Core.direct (conns s c) /\
             forall it, In it (Core.cqueue (f' c)) -> In it (Core.cqueue (conns s c)) \/ g_qok s c it) ->
  g_I {| Core.cv := σ'; Core.conns := f'; Core.insts := insts s; Core.next := next s; Core.mqsub := ms; Core.getreq := gr |}.
Proof.
  intros HI Hinv Hfl Hfr Hnop Hf. pose proof HI as [I1 I2 I3 I4 I5 I6 I7]. constructor; cbn [Core.cv Core.conns Core.insts Core.next]; auto.
  - intros j Hj. split; [apply I2, Hj|apply Hfr, Hj].
  - intros c j Hc. destruct (Hf c) as (A&_). rewrite A in Hc. destruct (Hfl j) as (G&_). rewrite G. apply I3, Hc.
  - intros c Hc. destruct (Hf c) as (A&B&_). rewrite A in Hc. rewrite B. apply I4, Hc.
  - intros j Hj Hg. destruct (Hfl j) as (G&L&S&F). rewrite G in Hg. rewrite L, S, F.
    destruct (Hf (Core.owner (insts s j))) as (A&B&_). eapply g_V_x; [apply I5; assumption|exact A|exact B].
  - intros c it Hin. destruct (Hf c) as (_&_&Q). destruct (Q it Hin) as [H|H]; [apply I6 in H|]; destruct it; cbn [g_qok Core.next Core.insts] in *; auto.
Qed.

Lemma g_flags_refl (σ : cst) j : sgone (csubs σ j) = sgone (csubs σ j) /\ sloaded (csubs σ j) = sloaded (csubs σ j) /\
             ssent (csubs σ j) = ssent (csubs σ j) /\ sflag (csubs σ j) = sflag (csubs σ j).
Proof. auto. Qed.

(* service actions followed, maybe, by a run of the cache worker *)
Definition g_env (n : nat) (σ σ' : cst) : Prop :=
  CInv σ' /\
  (forall j, sgone (csubs σ' j) = sgone (csubs σ j) /\ sloaded (csubs σ' j) = sloaded (csubs σ j) /\
             ssent (csubs σ' j) = ssent (csubs σ j) /\ sflag (csubs σ' j) = sflag (csubs σ j)) /\
  (forall j, csubs σ j = Conv.sub0 val upd d -> csubs σ' j = Conv.sub0 val upd d) /\
  (forall m, In (Conv.INop val upd m) (cqe σ') -> In (Conv.INop val upd m) (cqe σ) \/ m < n).

Lemma g_env_refl n σ : CInv σ -> g_env n σ σ.
Proof. intros H. split; [exact H|]. split; [intros j; apply g_flags_refl|]. auto. Qed.
Lemma g_env_trans n σ1 σ2 σ3 : g_env n σ1 σ2 -> g_env n σ2 σ3 -> g_env n σ1 σ3.
Proof.
  intros (A1&B1&C1&D1) (A2&B2&C2&D2). split; [exact A2|]. split; [|split].
  - intros j. destruct (B1 j) as (a&b&c&e). destruct (B2 j) as (a'&b'&c'&e'). repeat split; congruence.
  - auto.
  - intros m Hin. destruct (D2 m Hin) as [H|H]; [apply D1, H|right; exact H].
Qed.
Lemma g_env_svc n σ a : CInv σ -> g_svc a -> (forall m, a = Conv.SvcNop upd m -> m < n) -> g_env n σ (cstep σ a).
Proof.
  intros H Ha Hn. destruct (g_svc_step σ a Ha) as (A&_&_&(r&E&_&N)&_). split; [apply g_cstep_inv, H|]. rewrite A.
  split; [intros j; apply g_flags_refl|]. split; [auto|].
  intros m Hin. rewrite E in Hin. apply in_app_or in Hin. destruct Hin as [Hin|Hin]; [left; exact Hin|right; apply Hn, N, Hin].
Qed.
Lemma g_env_rune n σ : CInv σ -> g_env n σ (cstep σ (Conv.RunE upd)).
Proof.
  intros H. split; [apply g_cstep_inv, H|]. split; [|split].
  - intros j. destruct (g_rune_fields σ j) as (_&L&F&S&G&_). cbn zeta in *. auto.
  - intros j E. rewrite g_rune_fresh; [exact E|exact H|rewrite E; reflexivity].
  - intros m Hin. left. apply g_rune_nop, Hin.
Qed.

Lemma g_I_of_env s σ' f' ms gr : g_I s -> g_env (next s) (cv s) σ' ->
  (forall c, Core.cur (f' c) = Core.cur (conns s c) /\ Core.direct (f' c) = Core.direct (conns s c) /\
             forall it, In it (Core.cqueue (f' c)) -> In it (Core.cqueue (conns s c)) \/ g_qok s c it) ->
  g_I {| Core.cv := σ'; Core.conns := f'; Core.insts := insts s; Core.next := next s; Core.mqsub := ms; Core.getreq := gr |}.
Proof.
  intros HI (A&B&C&D) Hf. apply g_I_env; auto.
  - intros j Hj. apply C, (g_i_fresh _ HI), Hj.
  - intros m Hin. destruct (D m Hin) as [H|H]; [apply (g_i_nop _ HI), H|exact H].
Qed.

Lemma g_conns_same s : forall c, Core.cur (conns s c) = Core.cur (conns s c) /\ Core.direct (conns s c) = Core.direct (conns s c) /\
             forall it, In it (Core.cqueue (conns s c)) -> In it (Core.cqueue (conns s c)) \/ g_qok s c it.
Proof. intros c. auto. Qed.

(* ---------------- the two ways the cache worker reaches the connection queues ---------------- *)
Definition g_qsubs_for (σ σ' : cst) (own : nat -> nat) (c : nat) (l : list nat) : list Core.qitem :=
  map Core.QSub (filter (fun i => Core.grew val upd σ σ' i && Nat.eqb (own i) c) l).

Lemma g_fan_gen σ σ' own : forall l f c,
  let f' := fold_left (fun g i => if Core.grew val upd σ σ' i then Core.set_conn g (own i) (Core.push_q (g (own i)) (Core.QSub i)) else g) l f in
  Core.cqueue (f' c) = Core.cqueue (f c) ++ g_qsubs_for σ σ' own c l /\ Core.cur (f' c) = Core.cur (f c) /\ Core.direct (f' c) = Core.direct (f c).
Proof.
  induction l as [|a l IH]; intros f c; cbn [fold_left].
  - unfold g_qsubs_for. cbn. rewrite app_nil_r. auto.
  - cbn zeta in IH. destruct (IH (if Core.grew val upd σ σ' a then Core.set_conn f (own a) (Core.push_q (f (own a)) (Core.QSub a)) else f) c) as (A&B&C).
    rewrite A, B, C. unfold g_qsubs_for. cbn [filter]. destruct (Core.grew val upd σ σ' a); cbn [andb]; [|auto].
    unfold Core.set_conn. rewrite (Nat.eqb_sym (own a) c). destruct (Nat.eqb c (own a)) eqn:E; [|auto].
    apply Nat.eqb_eq in E. subst c. cbn [map Core.push_q Core.with_q Core.cqueue Core.cur Core.direct]. rewrite <- app_assoc. auto.
Qed.
Lemma g_fan_spec σ σ' own n f c :
  let f' := Core.fan val upd σ σ' own n f in
  Core.cqueue (f' c) = Core.cqueue (f c) ++ g_qsubs_for σ σ' own c (seq 0 n) /\ Core.cur (f' c) = Core.cur (f c) /\ Core.direct (f' c) = Core.direct (f c).
Proof. apply g_fan_gen. Qed.
Definition g_qacc_for (σ : cst) (own : nat -> nat) (c : nat) : list Core.qitem :=
  match Core.nop_head val upd σ with
  | Some i => if Core.is_closed val upd σ i then [] else if Nat.eqb c (own i) then [Core.QAccess i] else []
  | None => []
  end.
Lemma g_pass_spec σ own f c :
  let f' := Core.pass val upd σ own f in
  Core.cqueue (f' c) = Core.cqueue (f c) ++ g_qacc_for σ own c /\ Core.cur (f' c) = Core.cur (f c) /\ Core.direct (f' c) = Core.direct (f c).
Proof.
  cbn zeta. unfold Core.pass, g_qacc_for. destruct (Core.nop_head val upd σ) as [i|]; [|rewrite app_nil_r; auto].
  destruct (Core.is_closed val upd σ i); [rewrite app_nil_r; auto|].
  unfold Core.set_conn. destruct (Nat.eqb c (own i)) eqn:E; [|rewrite app_nil_r; auto].
  apply Nat.eqb_eq in E. subst c. cbn [Core.push_q Core.with_q Core.cqueue Core.cur Core.direct]. auto.
Qed.
Lemma g_grant_conns σ σ' own n f c :
  let f' := Core.pass val upd σ own (Core.fan val upd σ σ' own n f) in
  Core.cqueue (f' c) = (Core.cqueue (f c) ++ g_qsubs_for σ σ' own c (seq 0 n)) ++ g_qacc_for σ own c /\
  Core.cur (f' c) = Core.cur (f c) /\ Core.direct (f' c) = Core.direct (f c).
Proof.
  cbn zeta. destruct (g_pass_spec σ own (Core.fan val upd σ σ' own n f) c) as (A&B&C).
  destruct (g_fan_spec σ σ' own n f c) as (A'&B'&C'). rewrite A, B, C, A', B', C'. auto.
Qed.
Lemma g_in_qsubs_for σ σ' own c n it : In it (g_qsubs_for σ σ' own c (seq 0 n)) -> exists i, it = Core.QSub i /\ i < n /\ own i = c.
Proof.
  unfold g_qsubs_for. intros H. apply in_map_iff in H. destruct H as (i & <- & H). apply filter_In in H. destruct H as [H1 H2].
  apply in_seq in H1. apply andb_prop in H2. destruct H2 as [_ H2]. apply Nat.eqb_eq in H2. exists i. repeat split; [lia|exact H2].
Qed.
Lemma g_in_qacc_for σ own c it : In it (g_qacc_for σ own c) -> exists i, it = Core.QAccess i /\ own i = c /\ In (Conv.INop val upd i) (cqe σ).
Proof.
  unfold g_qacc_for, Core.nop_head. destruct (cqe σ) as [|[u| |v|k|k| |n] q]; try (intros []).
  destruct (Core.is_closed val upd σ n); [intros []|]. destruct (Nat.eqb_spec c (own n)) as [->|]; [|intros []].
  intros [<-|[]]. exists n. repeat split. left; reflexivity.
Qed.

Lemma g_la_eq_out c i k b : Core.inflight (ty k) = false ->
  load_access c i k b = emit (sety k (Core.upd_y (ty k) (Core.acb (ty k) ++ [b]) (Core.rcb (ty k)) (Core.acc (ty k)) true (Core.ans (ty k))
                                   (Core.reflag (ty k)) (Core.rq (ty k)) (Core.lost (ty k)))) [Core.OAccessReq val upd c i (Core.tok (tx k))].
Proof. intros H. unfold Core.load_access. rewrite H. reflexivity. Qed.

Lemma g_I_req_new s c id q : g_I s -> Core.cqueue (conns s c) = Core.QReq id :: q -> Core.cur (conns s c) = None ->
  g_I (fst (step s (Core.GrantConn upd c))).
Proof.
  intros HI Eq Ec. g_task Eq. rewrite Ec. cbv beta iota zeta. rewrite g_la_eq_out by reflexivity.
  cbn [fst Core.ta Core.ts Core.tx Core.ty Core.to Core.act Core.emit Core.setx Core.sety List.app fold_left].
  pose proof HI as [I1 I2 I3 I4 I5 I6 I7].
  destruct (I2 (next s) (le_n _)) as [Hy0 Hz0].
  destruct (g_subscribe_fresh (cv s) (next s) Hz0) as (S1&S2&S3&S4&S5&S6&S7&S8&S9). cbn zeta in *.
  constructor; cbn [Core.cv Core.conns Core.insts Core.next].
  - apply g_cstep_inv, I1.
  - intros j Hj. rewrite g_set_inst_neq by lia. rewrite S1 by lia. apply I2. lia.
  - intros c' j Hc. destruct (Nat.eq_dec c' c) as [->|Hne].
    + rewrite g_set_conn_eq in Hc. cbn [Core.with_cd Core.cur] in Hc. injection Hc as <-.
      rewrite g_set_inst_eq. cbn [Core.upd_y Core.owner]. auto.
    + rewrite g_set_conn_neq in Hc by exact Hne. destruct (I3 c' j Hc) as (A&B&C).
      rewrite g_set_inst_neq by lia. rewrite S1 by lia. auto.
  - intros c' Hc. destruct (Nat.eq_dec c' c) as [->|Hne].
    + rewrite g_set_conn_eq in Hc. discriminate Hc.
    + rewrite g_set_conn_neq in * by exact Hne. apply I4, Hc.
  - intros j Hj Hg. destruct (Nat.eq_dec j (next s)) as [->|Hne].
    + rewrite g_set_inst_eq. cbn [Core.upd_y Core.owner]. rewrite g_set_conn_eq, S3, S4, S5.
      apply (g_V_new (next s) (Core.with_q (conns s c) q)
               {| Core.owner := c; Core.acb := []; Core.rcb := []; Core.acc := None; Core.inflight := false; Core.ans := None;
                  Core.reflag := false; Core.rq := false; Core.lost := [] |} id []). reflexivity.
    + rewrite g_set_inst_neq by exact Hne. rewrite S1 in * by exact Hne. assert (Hj' : j < next s) by lia.
      pose proof (I5 j Hj' Hg) as HV. destruct (Nat.eq_dec (Core.owner (insts s j)) c) as [E|E].
      * rewrite E in HV. pose proof (g_v_cur _ _ _ _ _ _ _ HV). congruence.
      * rewrite g_set_conn_neq by exact E. exact HV.
  - intros c' it Hin. assert (Hin' : In it (Core.cqueue (conns s c'))).
    { destruct (Nat.eq_dec c' c) as [->|Hne]; [rewrite g_set_conn_eq in Hin; rewrite Eq; right; exact Hin|rewrite g_set_conn_neq in Hin by exact Hne; exact Hin]. }
    apply I6 in Hin'. destruct it; cbn [g_qok Core.next Core.insts] in *; auto; (destruct Hin' as [A B]; split; [lia|rewrite g_set_inst_neq by lia; exact B]).
  - intros n Hin. rewrite S8 in Hin. apply in_app_or in Hin. destruct Hin as [Hin|[E|[]]]; [apply I7 in Hin; lia|discriminate E].
Qed.

Lemma g_in_insts_of s c j : In j (Core.insts_of val upd s c) <-> j < next s /\ Core.owner (insts s j) = c.
Proof. unfold Core.insts_of. rewrite filter_In, in_seq, Nat.eqb_eq. split; intros [A B]; split; auto; lia. Qed.

Lemma g_I_dispose s c q : g_I s -> Core.cqueue (conns s c) = Core.QDispose :: q -> g_I (fst (step s (Core.GrantConn upd c))).
Proof.
  intros HI Eq. g_task Eq.
  match goal with |- context [fold_left act ?l ?k] => destruct (g_fold_act l k) as (A&B&C&D&E) end. cbn zeta in *.
  cbn [fst Core.ta Core.ts Core.tx Core.ty Core.to Core.act Core.emit Core.setx Core.sety List.app fold_left].
  rewrite A, C, D. cbn [Core.ta Core.ts Core.tx Core.ty List.app].
  pose proof HI as [I1 I2 I3 I4 I5 I6 I7].
  destruct (g_dispose_list true (Core.insts_of val upd s c) (cv s)) as (D1&D2&D3&D4&(r&D5&D6)). cbn zeta in *.
  set (σ' := fold_left cstep (map (fun j => Conv.Dispose upd j true) (Core.insts_of val upd s c)) (cv s)) in *.
  assert (Hown : forall j, Core.owner (match Core.cur (conns s c) with
       | Some i => Core.set_inst (insts s) i (Core.upd_y match Core.cur (conns s c) with Some i0 => insts s i0 | None => Core.inst0 end [] []
            (Core.acc match Core.cur (conns s c) with Some i0 => insts s i0 | None => Core.inst0 end)
            (Core.inflight match Core.cur (conns s c) with Some i0 => insts s i0 | None => Core.inst0 end)
            (Core.ans match Core.cur (conns s c) with Some i0 => insts s i0 | None => Core.inst0 end)
            (Core.reflag match Core.cur (conns s c) with Some i0 => insts s i0 | None => Core.inst0 end)
            (Core.rq match Core.cur (conns s c) with Some i0 => insts s i0 | None => Core.inst0 end)
            (Core.lost match Core.cur (conns s c) with Some i0 => insts s i0 | None => Core.inst0 end ++
             Core.ids_of (Core.acb match Core.cur (conns s c) with Some i0 => insts s i0 | None => Core.inst0 end) ++
             Core.rcb match Core.cur (conns s c) with Some i0 => insts s i0 | None => Core.inst0 end))
       | None => insts s end j) = Core.owner (insts s j)).
  { intros j. destruct (Core.cur (conns s c)) as [i|]; [|reflexivity].
    destruct (Nat.eq_dec j i) as [->|Hne]; [rewrite g_set_inst_eq; reflexivity|rewrite g_set_inst_neq by exact Hne; reflexivity]. }
  assert (Hfresh : forall j, next s <= j -> ~ In j (Core.insts_of val upd s c)) by (intros j Hj Hin; apply g_in_insts_of in Hin; lia).
  constructor; cbn [Core.cv Core.conns Core.insts Core.next].
  - apply g_acts_inv, I1.
  - intros j Hj. rewrite D1 by (apply Hfresh, Hj). split; [|apply I2, Hj].
    destruct (Core.cur (conns s c)) as [i|] eqn:Ec; [|apply I2, Hj].
    destruct (I3 c i Ec) as (Hi&_). rewrite g_set_inst_neq by lia. apply I2, Hj.
  - intros c' j Hc. rewrite Hown. destruct (Nat.eq_dec c' c) as [->|Hne].
    + rewrite g_set_conn_eq in Hc. discriminate Hc.
    + rewrite g_set_conn_neq in Hc by exact Hne. destruct (I3 c' j Hc) as (P&Q&R). rewrite D1; auto.
      intros Hin. apply g_in_insts_of in Hin. destruct Hin. congruence.
  - intros c' Hc. destruct (Nat.eq_dec c' c) as [->|Hne].
    + rewrite g_set_conn_eq. reflexivity.
    + rewrite g_set_conn_neq in * by exact Hne. apply I4, Hc.
  - intros j Hj Hg. rewrite Hown.
    assert (Hnin : ~ In j (Core.insts_of val upd s c)) by (intros Hin; rewrite (D2 j Hin) in Hg; discriminate Hg).
    assert (Ho : Core.owner (insts s j) <> c) by (intros Ho; apply Hnin, g_in_insts_of; auto).
    rewrite D1 in * by exact Hnin. rewrite g_set_conn_neq by exact Ho.
    assert (Ej : match Core.cur (conns s c) with
       | Some i => Core.set_inst (insts s) i (Core.upd_y match Core.cur (conns s c) with Some i0 => insts s i0 | None => Core.inst0 end [] []
            (Core.acc match Core.cur (conns s c) with Some i0 => insts s i0 | None => Core.inst0 end)
            (Core.inflight match Core.cur (conns s c) with Some i0 => insts s i0 | None => Core.inst0 end)
            (Core.ans match Core.cur (conns s c) with Some i0 => insts s i0 | None => Core.inst0 end)
            (Core.reflag match Core.cur (conns s c) with Some i0 => insts s i0 | None => Core.inst0 end)
            (Core.rq match Core.cur (conns s c) with Some i0 => insts s i0 | None => Core.inst0 end)
            (Core.lost match Core.cur (conns s c) with Some i0 => insts s i0 | None => Core.inst0 end ++
             Core.ids_of (Core.acb match Core.cur (conns s c) with Some i0 => insts s i0 | None => Core.inst0 end) ++
             Core.rcb match Core.cur (conns s c) with Some i0 => insts s i0 | None => Core.inst0 end))
       | None => insts s end j = insts s j).
    { destruct (Core.cur (conns s c)) as [i|] eqn:Ec; [|reflexivity]. destruct (I3 c i Ec) as (_&Q&_).
      rewrite g_set_inst_neq; [reflexivity|congruence]. }
    rewrite Ej. apply I5; assumption.
  - intros c' it Hin. assert (Hin' : In it (Core.cqueue (conns s c'))).
    { destruct (Nat.eq_dec c' c) as [->|Hne]; [rewrite g_set_conn_eq in Hin; rewrite Eq; right; exact Hin|rewrite g_set_conn_neq in Hin by exact Hne; exact Hin]. }
    apply I6 in Hin'. destruct it; cbn [g_qok Core.next Core.insts] in *; auto; rewrite Hown; exact Hin'.
  - intros n Hin. rewrite D5 in Hin. apply in_app_or in Hin. destruct Hin as [Hin|Hin]; [apply I7, Hin|].
    rewrite Forall_forall in D6. apply D6 in Hin. destruct Hin as (j&Hj). discriminate Hj.
Qed.

(* ---------------- every step ---------------- *)
Lemma g_I_answer s i g : g_I s -> i < next s -> Core.unanswered (insts s i) = true ->
  let y := insts s i in
  g_I {| Core.cv := cstep (cv s) (Conv.SvcNop upd i); Core.conns := conns s; Core.next := next s; Core.mqsub := Core.mqsub val upd s;
         Core.getreq := Core.getreq val upd s;
         Core.insts := Core.set_inst (insts s) i (Core.upd_y y (Core.acb y) (Core.rcb y) (Core.acc y) (Core.inflight y) (Some g)
                                                     (Core.reflag y) (Core.rq y) (Core.lost y)) |}.
Proof.
  intros HI Hi Hu. cbn zeta. pose proof HI as [I1 I2 I3 I4 I5 I6 I7].
  destruct (g_svc_step (cv s) (Conv.SvcNop upd i) I) as (A&_&_&(r&E&_&N)&_).
  assert (Hinf : Core.inflight (insts s i) = true) by (unfold Core.unanswered in Hu; apply andb_prop in Hu; tauto).
  assert (Hown : forall j, Core.owner (Core.set_inst (insts s) i (Core.upd_y (insts s i) (Core.acb (insts s i)) (Core.rcb (insts s i)) (Core.acc (insts s i))
                 (Core.inflight (insts s i)) (Some g) (Core.reflag (insts s i)) (Core.rq (insts s i)) (Core.lost (insts s i))) j) = Core.owner (insts s j)).
  { intros j. destruct (Nat.eq_dec j i) as [->|Hne]; [rewrite g_set_inst_eq; reflexivity|rewrite g_set_inst_neq by exact Hne; reflexivity]. }
  constructor; cbn [Core.cv Core.conns Core.insts Core.next]; rewrite ?A.
  - apply g_cstep_inv, I1.
  - intros j Hj. rewrite g_set_inst_neq by lia. apply I2, Hj.
  - intros c j Hc. rewrite Hown. apply I3, Hc.
  - exact I4.
  - intros j Hj Hg. rewrite Hown. pose proof (I5 j Hj Hg) as HV.
    destruct (Nat.eq_dec j i) as [->|Hne]; [rewrite g_set_inst_eq; apply g_V_answer; assumption|rewrite g_set_inst_neq by exact Hne; exact HV].
  - intros c it Hin. apply I6 in Hin. destruct it; cbn [g_qok Core.next Core.insts] in *; auto; rewrite Hown; exact Hin.
  - intros n Hin. rewrite E in Hin. apply in_app_or in Hin. destruct Hin as [Hin|Hin]; [apply I7, Hin|].
    apply N in Hin. injection Hin as ->. exact Hi.
Qed.

Lemma g_push_ok s c x it : (match it with Core.QAccess _ | Core.QSub _ => False | _ => True end) ->
  forall it', In it' (Core.cqueue (Core.push_q x it)) -> In it' (Core.cqueue x) \/ g_qok s c it'.
Proof.
  intros H it' Hin. cbn [Core.push_q Core.with_q Core.cqueue] in Hin. apply in_app_or in Hin. destruct Hin as [Hin|[<-|[]]]; [left; exact Hin|right].
  destruct it; cbn [g_qok]; auto; contradiction.
Qed.

Lemma g_I_push s c x' gr ms : g_I s -> Core.cur x' = Core.cur (conns s c) -> Core.direct x' = Core.direct (conns s c) ->
  (forall it, In it (Core.cqueue x') -> In it (Core.cqueue (conns s c)) \/ g_qok s c it) ->
  g_I {| Core.cv := fold_left cstep [] (cv s); Core.conns := Core.set_conn (conns s) c x'; Core.insts := insts s; Core.next := next s;
         Core.mqsub := ms; Core.getreq := gr |}.
Proof. intros HI E1 E2 Hq. cbn [fold_left]. apply g_I_conn; auto. Qed.

Lemma g_I_step s o : g_I s -> g_I (fst (step s o)).
Proof.
  intros HI. destruct o as [c id|c id cnt|c|c t|i g| |u| | | |c].
  - (* CSub *) unfold Core.step. cbn [Core.acts_of]. destruct (Core.disc (conns s c)); [exact HI|]. cbn [fst].
    apply g_I_push; auto. apply g_push_ok. exact I.
  - unfold Core.step. cbn [Core.acts_of]. destruct (Core.disc (conns s c)); [exact HI|]. cbn [fst].
    apply g_I_push; auto. apply g_push_ok. exact I.
  - (* Disc *) unfold Core.step. cbn [Core.acts_of]. destruct (Core.disc (conns s c)); [exact HI|]. cbn [fst].
    apply g_I_push; auto. cbn [Core.cqueue]. intros it Hin. apply in_app_or in Hin. destruct Hin as [Hin|[<-|[]]]; [left; exact Hin|right; exact I].
  - (* ConnToken *) unfold Core.step. cbn [Core.acts_of]. destruct (Core.is_done (conns s c)); [exact HI|]. cbn [fst].
    apply g_I_push; auto. apply g_push_ok. exact I.
  - (* MqAccess *) unfold Core.step. cbn [Core.acts_of]. destruct (Nat.ltb i (next s) && Core.unanswered (insts s i)) eqn:E; [|exact HI].
    cbn [fst fold_left]. apply andb_prop in E. destruct E as [E1 E2]. apply Nat.ltb_lt in E1. apply g_I_answer; assumption.
  - (* MqGet *) unfold Core.step. cbn [Core.acts_of fst]. apply g_I_of_env; [exact HI| |apply g_conns_same].
    destruct (_ && _); cbn [fold_left]; [apply g_env_svc; [apply (g_i_inv _ HI)|exact I|discriminate]|apply g_env_refl, (g_i_inv _ HI)].
  - (* MqEvent *) unfold Core.step. cbn [Core.acts_of fst]. apply g_I_of_env; [exact HI| |apply g_conns_same].
    assert (X : g_env (next s) (cv s) (cstep (cv s) (Conv.SvcUpdate upd u))) by (apply g_env_svc; [apply (g_i_inv _ HI)|exact I|discriminate]).
    destruct (Core.mqsub val upd s); cbn [fold_left]; [exact X|]. eapply g_env_trans; [exact X|apply g_env_rune]. destruct X as [X _]. exact X.
  - unfold Core.step. cbn [Core.acts_of fst]. apply g_I_of_env; [exact HI| |apply g_conns_same].
    assert (X : g_env (next s) (cv s) (cstep (cv s) (Conv.SvcCustom upd))) by (apply g_env_svc; [apply (g_i_inv _ HI)|exact I|discriminate]).
    destruct (Core.mqsub val upd s); cbn [fold_left]; [exact X|]. eapply g_env_trans; [exact X|apply g_env_rune]. destruct X as [X _]. exact X.
  - unfold Core.step. cbn [Core.acts_of fst]. apply g_I_of_env; [exact HI| |apply g_conns_same].
    assert (X : g_env (next s) (cv s) (cstep (cv s) (Conv.SvcReacc upd))) by (apply g_env_svc; [apply (g_i_inv _ HI)|exact I|discriminate]).
    destruct (Core.mqsub val upd s); cbn [fold_left]; [exact X|]. eapply g_env_trans; [exact X|apply g_env_rune]. destruct X as [X _]. exact X.
  - (* GrantEs *) unfold Core.step. cbn [Core.acts_of fst fold_left]. apply g_I_of_env; [exact HI|apply g_env_rune, (g_i_inv _ HI)|].
    intros c. match goal with |- context [Core.pass _ _ ?σ ?own (Core.fan _ _ _ ?σ' _ ?n ?f)] => destruct (g_grant_conns σ σ' own n f c) as (A&B&C) end.
    cbn zeta in *. rewrite A, B, C. split; [reflexivity|]. split; [reflexivity|].
    intros it Hin. apply in_app_or in Hin. destruct Hin as [Hin|Hin]; [apply in_app_or in Hin; destruct Hin as [Hin|Hin]|].
    + left. exact Hin.
    + right. apply g_in_qsubs_for in Hin. destruct Hin as (j & -> & Hj & Ho). cbn [g_qok]. auto.
    + right. apply g_in_qacc_for in Hin. destruct Hin as (j & -> & Ho & Hn). cbn [g_qok]. split; [apply (g_i_nop _ HI), Hn|exact Ho].
  - (* GrantConn *) destruct (Core.cqueue (conns s c)) as [|[id|id cnt|t|i|i|] q] eqn:Eq.
    + unfold Core.step. rewrite Eq. exact HI.
    + destruct (Core.cur (conns s c)) as [i|] eqn:Ec; [eapply g_I_req_cur; eauto|eapply g_I_req_new; eauto].
    + eapply g_I_unsub; eauto.
    + eapply g_I_token; eauto.
    + eapply g_I_access; eauto.
    + eapply g_I_sub; eauto.
    + eapply g_I_dispose; eauto.
Qed.

Lemma g_I_init t : g_I (Core.init val upd d t).
Proof.
  constructor; cbn; try discriminate; try contradiction; auto.
  - apply Conv.init_inv.
  - intros j Hj Hg. lia.
Qed.

Lemma g_I_exec t ops : g_I (fst (exec t ops)).
Proof.
  induction ops as [|o ops IH] using rev_ind; [apply g_I_init|].
  rewrite g_exec_snoc. destruct (exec t ops) as [s outs]. unfold Core.exec1. cbn [fst] in IH.
  pose proof (g_I_step s o IH) as H. destruct (step s o) as [s' o']. exact H.
Qed.

(* ---------------- G: re-validation of access ---------------- *)
Theorem core_revalidation_holds_events : forall t ops i,
  let s := fst (exec t ops) in
  Core.rq (insts s i) = true -> Conv.gone val upd (csubs (cv s) i) = false ->
  Conv.flag val upd (csubs (cv s) i) = true /\ In Core.AVal (Core.acb (insts s i)) /\ Core.acc (insts s i) = None /\
  Core.inflight (insts s i) = true.
Proof.
  intros t ops i s Hrq Hg. pose proof (g_I_exec t ops) as HI. fold s in HI.
  destruct (Nat.lt_ge_cases i (next s)) as [Hi|Hi].
  - destruct (g_v_rq _ _ _ _ _ _ _ (g_i_live _ HI i Hi Hg) Hrq) as (A&_&_&B&C&D). auto.
  - destruct (g_i_fresh _ HI i Hi) as [E _]. rewrite E in Hrq. discriminate Hrq.
Qed.

Lemma g_st_ts i k1 k σ : ta k1 = [] -> ts k1 = σ -> g_st i k1 k -> fold_left cstep (ta k) σ = ts k.
Proof. intros A B [(l&C&D&_) _ _ _]. rewrite C, A, D, B. reflexivity. Qed.

Theorem core_token_triggers_revalidation : forall t ops c tk q i,
  let s := fst (exec t ops) in
  Core.cqueue (conns s c) = Core.QToken tk :: q -> Core.tokset (conns s c) = true ->
  Core.cur (conns s c) = Some i -> 0 < Core.direct (conns s c) ->
  let s' := fst (Core.step val upd app norm s (Core.GrantConn upd c)) in
  Core.tok (conns s' c) = tk /\
  (Core.rq (insts s' i) = true \/ Core.reflag (insts s' i) = true) /\
  Conv.flag val upd (csubs (cv s') i) = true.
Proof.
  intros t ops c tk q i s Eq Et Ec Hd s'. pose proof (g_I_exec t ops) as HI. fold s in HI.
  unfold s'. g_task Eq. rewrite Ec, Et. cbn [fst Core.cv Core.conns Core.insts].
  match goal with |- context [g_k0 s ?x ?y] => destruct (g_start s c i x HI Ec) as (Hi&Ho&HT); [cbn [Core.cur]; congruence|reflexivity|set (k1 := g_k0 s x y) in *] end.
  destruct (g_h_reaccess c i k1 HT) as (A&B&C&D). cbn zeta in *.
  rewrite (g_st_ts i k1 _ (cv s) eq_refl eq_refl (g_st_reaccess c i k1)).
  rewrite g_set_conn_eq, g_set_inst_eq, D. split; [reflexivity|]. split; [exact C|exact B].
Qed.

Lemma g_count_app (f : out_ -> bool) l1 l2 : Core.count_out val upd f (l1 ++ l2) = Core.count_out val upd f l1 + Core.count_out val upd f l2.
Proof. unfold Core.count_out. rewrite filter_app, app_length. reflexivity. Qed.

Theorem core_denied_revalidation_revokes : forall t ops c i q,
  let s := fst (exec t ops) in
  Core.cqueue (conns s c) = Core.QAccess i :: q ->
  Conv.gone val upd (csubs (cv s) i) = false -> Core.ans (insts s i) = Some false -> In Core.AVal (Core.acb (insts s i)) ->
  let '(s', o) := Core.step val upd app norm s (Core.GrantConn upd c) in
  Core.cur (conns s' c) = None /\ Core.direct (conns s' c) = 0 /\ Conv.gone val upd (csubs (cv s') i) = true /\
  (0 < Core.direct (conns s c) -> Core.count_out val upd (fun o => match o with Core.OUnsubEv _ _ c' => Nat.eqb c' c | _ => false end) o = 1) /\
  (forall o', In o' o -> match o' with Core.OEvent _ _ _ _ | Core.OCustom _ _ _ => False | _ => True end).
Proof.
  intros t ops c i q s Eq Eg Ea Hin. pose proof (g_I_exec t ops) as HI. fold s in HI.
  destruct (g_i_q _ HI c (Core.QAccess i)) as [Hi Ho]; [rewrite Eq; left; reflexivity|].
  pose proof (g_i_live _ HI i Hi Eg) as HV. rewrite Ho in HV.
  g_task Eq. unfold Core.is_gone. rewrite Eg, Ea.
  destruct (g_acb_shape _ (g_v_tl _ _ _ _ _ _ _ HV) Hin) as (r&Er&Hr). rewrite Er. cbn [fold_left].
  match goal with |- context [run_cb c i false ?K Core.AVal] => set (k2 := K) in * end.
  destruct (g_d_val c i k2) as [D1 O1]; [exact Eg|apply (g_v_dir _ _ _ _ _ _ _ HV)|].
  destruct (g_d_stable_l c i r _ D1) as [(G2&C2&D2) (o2&O2&E2)].
  set (k := fold_left (run_cb c i false) r (run_cb c i false k2 Core.AVal)) in *.
  assert (Hst : g_st i k2 k) by (eapply g_st_trans; [apply g_st_run_cb|apply g_st_batch]).
  rewrite (g_st_ts i k2 k (cv s) eq_refl eq_refl Hst). cbn [Core.cv Core.conns].
  rewrite g_set_conn_eq. split; [exact C2|]. split; [exact D2|]. split; [exact G2|].
  rewrite O2, O1. change (to k2) with (@nil out_). cbn [List.app].
  assert (Herr : forall o', In o' o2 -> exists id e, o' = Core.OErr val upd c id e) by (apply Forall_forall, E2).
  split.
  - intros _. change (Core.OUnsubEv val upd c :: o2) with ([Core.OUnsubEv val upd c] ++ o2). rewrite g_count_app.
    unfold Core.count_out at 1. cbn [filter]. rewrite Nat.eqb_refl. cbn [length].
    assert (Z : forall l, (forall o', In o' l -> exists id e, o' = Core.OErr val upd c id e) ->
              Core.count_out val upd (fun o => match o with Core.OUnsubEv _ _ c' => Nat.eqb c' c | _ => false end) l = 0).
    { induction l as [|a l IH]; intros Hl; [reflexivity|]. unfold Core.count_out in *. cbn [filter].
      destruct (Hl a (or_introl eq_refl)) as (id&e&->). apply IH. intros o' Ho'. apply Hl. right. exact Ho'. }
    rewrite (Z o2 Herr). reflexivity.
  - intros o' [<-|Ho']; [exact I|]. destruct (Herr o' Ho') as (id&e&->). exact I.
Qed.

(* ---------------- what quiescence needs: everybody subscribed is loaded in the end ---------------- *)
Definition g_isq (i : nat) (it : Core.qitem) : bool := match it with Core.QSub j => Nat.eqb j i | _ => false end.
Definition g_cntq (i : nat) (q : list Core.qitem) : nat := length (filter (g_isq i) q).
Lemma g_cntq_app i q1 q2 : g_cntq i (q1 ++ q2) = g_cntq i q1 + g_cntq i q2.
Proof. unfold g_cntq. rewrite filter_app, app_length. reflexivity. Qed.
Lemma g_cntq_in i q : In (Core.QSub i) q -> 1 <= g_cntq i q.
Proof.
  induction q as [|a q IH]; [intros []|]. intros [->|H]; unfold g_cntq in *; cbn [filter g_isq].
  - rewrite Nat.eqb_refl. cbn. lia.
  - destruct (g_isq i a); cbn [length]; specialize (IH H); lia.
Qed.
Lemma g_cntq_cons i it q : g_cntq i (it :: q) = (if g_isq i it then 1 else 0) + g_cntq i q.
Proof. unfold g_cntq. cbn [filter]. destruct (g_isq i it); reflexivity. Qed.

Record g_J (s : st_) : Prop := {
  g_j_sd : forall i, i < next s -> ssubscribed (csubs (cv s) i) = true;
  g_j_m : Core.mqsub val upd s = false -> Forall g_notadd (cqe (cv s)) /\ Core.getreq val upd s = false;
  g_j_g : Core.getreq val upd s = false -> Conv.rs_subs val upd (cv s) = [];
  g_j_ql : forall i, i < next s -> length (scq (csubs (cv s) i)) <= g_cntq i (Core.cqueue (conns s (Core.owner (insts s i)))) }.

(* effects on what g_J speaks about *)
Record g_jf (σ σ' : cst) : Prop := {
  g_jf_sd : forall j, ssubscribed (csubs σ' j) = ssubscribed (csubs σ j);
  g_jf_rs : Conv.rs_subs val upd σ' = Conv.rs_subs val upd σ;
  g_jf_qe : Forall g_notadd (cqe σ) -> Forall g_notadd (cqe σ') }.

Lemma g_isrem_notadd i r : Forall (g_isrem i) r -> Forall g_notadd r.
Proof. intros H. eapply Forall_impl; [|exact H]. intros a ->. exact I. Qed.
Lemma g_isrem'_notadd r : Forall (fun it => exists j, it = Conv.IRemSub val upd j) r -> Forall g_notadd r.
Proof. intros H. eapply Forall_impl; [|exact H]. intros a (j&->). exact I. Qed.

Lemma g_jf_of_fr i σ σ' : g_fr i σ σ' -> g_jf σ σ'.
Proof.
  intros [A (r&B&C) D _ _ F _]. constructor; auto.
  - intros j. destruct (Nat.eq_dec j i) as [->|Hne]; [exact F|rewrite A by exact Hne; reflexivity].
  - intros H. rewrite B. apply Forall_app. split; [exact H|apply (g_isrem_notadd i), C].
Qed.

(* the cache worker with nobody subscribed and no subscriber waiting at the head of the queue *)
Lemma g_rune_idle σ : Conv.rs_subs val upd σ = [] -> (forall it q, cqe σ = it :: q -> g_notadd it) ->
  (forall j, csubs (cstep σ (Conv.RunE upd)) j = csubs σ j) /\ Conv.rs_subs val upd (cstep σ (Conv.RunE upd)) = [].
Proof.
  intros Hr Hh. cbn [Conv.step].
  assert (PA : forall it j, Conv.push_all val upd (csubs σ) (Conv.rs_subs val upd σ) it j = csubs σ j).
  { intros it j. unfold Conv.push_all. rewrite Hr. reflexivity. }
  destruct (cqe σ) as [|[u| |v|k|k| |n] q] eqn:Eq; cbn [Conv.subs Conv.rs_subs]; auto.
  - destruct (Conv.rs_loaded val upd σ); [|auto]. destruct (norm u (Conv.rs_val val upd σ)); cbn [Conv.subs Conv.rs_subs]; auto.
  - destruct (Conv.rs_loaded val upd σ); auto.
  - exfalso. exact (Hh _ _ eq_refl).
  - rewrite Hr. auto.
Qed.

Lemma g_notadd_head (σ : cst) : Forall g_notadd (cqe σ) -> forall it q, cqe σ = it :: q -> g_notadd it.
Proof. intros H it q E. rewrite E in H. inversion H; assumption. Qed.
Lemma g_notadd_is_add_head (σ : cst) : Forall g_notadd (cqe σ) -> Core.is_add_head val upd σ = false.
Proof. intros H. unfold Core.is_add_head. destruct (cqe σ) as [|[u| |v|k|k| |n] q] eqn:E; auto. inversion H as [|? ? X]; destruct X. Qed.
Lemma g_is_add_head_false (σ : cst) : Core.is_add_head val upd σ = false -> forall it q, cqe σ = it :: q -> g_notadd it.
Proof. unfold Core.is_add_head. intros H it q E. rewrite E in H. destruct it; try exact I. discriminate H. Qed.

(* the shape of a connection task *)
Lemma g_st_acts i k1 k : ta k1 = [] -> g_st i k1 k -> Forall (g_tact0 i) (ta k) /\ Core.owner (ty k) = Core.owner (ty k1) /\ Core.cqueue (tx k) = Core.cqueue (tx k1).
Proof. intros A [(l&B&_&C) D E _]. rewrite B, A. auto. Qed.

Definition g_shape (s : st_) (c : nat) (it : Core.qitem) (r : tk_ * option nat * nat * bool) : Prop :=
  let '(k, oi, nx, ms) := r in
  match it with
  | Core.QSub i => oi = Some i /\ nx = next s /\ ms = Core.mqsub val upd s /\ Core.owner (ty k) = Core.owner (insts s i) /\
                   exists l, ta k = Conv.RunC upd i :: l /\ Forall (g_tact0 i) l
  | Core.QDispose => nx = next s /\ ms = Core.mqsub val upd s /\ ta k = map (fun j => Conv.Dispose upd j true) (Core.insts_of val upd s c) /\
                     (forall i, oi = Some i -> Core.owner (ty k) = Core.owner (insts s i))
  | Core.QReq _ => (oi = Some (next s) /\ nx = S (next s) /\ ms = true /\ ta k = [Conv.Subscribe upd (next s)] /\ Core.owner (ty k) = c) \/
                   (exists i, oi = Some i /\ nx = next s /\ ms = Core.mqsub val upd s /\ Core.owner (ty k) = Core.owner (insts s i) /\ Forall (g_tact0 i) (ta k))
  | _ => nx = next s /\ ms = Core.mqsub val upd s /\
         ((oi = None /\ ta k = []) \/ exists i, oi = Some i /\ Core.owner (ty k) = Core.owner (insts s i) /\ Forall (g_tact0 i) (ta k))
  end.

Lemma g_task_shape s c it q : Core.cqueue (conns s c) = it :: q ->
  Core.cqueue (tx (fst (fst (fst (conn_task s c))))) = q /\ g_shape s c it (conn_task s c).
Proof.
  intros Eq. unfold Core.conn_task. rewrite Eq. cbv beta iota zeta. cbn [Core.with_q Core.cur Core.direct Core.cqueue Core.tokset Core.tok Core.disc].
  destruct it as [id|id cnt|t|i|i|].
  - destruct (Core.cur (conns s c)) as [i|] eqn:Ec; cbn [fst g_shape].
    + match goal with |- context [g_k0 s ?x ?y] => set (k1 := g_k0 s x y) in * end.
      assert (X : forall k, g_st i k1 k -> Core.cqueue (tx k) = q /\ Forall (g_tact0 i) (ta k) /\ Core.owner (ty k) = Core.owner (insts s i)).
      { intros k Hst. destruct (g_st_acts i k1 k eq_refl Hst) as (A&B&C). auto. }
      destruct (Core.acc (ty k1)) as [[|]|].
      * destruct (X _ (g_st_on_ready c i k1 id)) as (A&B&C). split; [exact A|]. right. exists i. auto.
      * destruct (X (remove_direct i (emit k1 [Core.OErr val upd c id Core.EDenied]) 1)) as (A&B&C).
        { eapply g_st_trans; [apply g_st_emit|apply g_st_remove_direct]. }
        split; [exact A|]. right. exists i. auto.
      * destruct (X _ (g_st_load_access c i k1 (Core.AReq id))) as (A&B&C). split; [exact A|]. right. exists i. auto.
    + rewrite g_la_eq_out by reflexivity. cbn [Core.ta Core.ts Core.tx Core.ty Core.to Core.act Core.emit Core.setx Core.sety List.app Core.with_cd Core.cqueue].
      split; [reflexivity|]. left. cbn [Core.upd_y Core.owner]. auto.
  - destruct (Core.cur (conns s c)) as [i|] eqn:Ec; cbn [fst g_shape].
    + match goal with |- context [g_k0 s ?x ?y] => set (k1 := g_k0 s x y) in * end.
      assert (X : forall k, g_st i k1 k -> Core.cqueue (tx k) = q /\ Forall (g_tact0 i) (ta k) /\ Core.owner (ty k) = Core.owner (insts s i)).
      { intros k Hst. destruct (g_st_acts i k1 k eq_refl Hst) as (A&B&C). auto. }
      match goal with |- Core.cqueue (tx ?K) = _ /\ _ => destruct (X K) as (A&B&C) end.
      { destruct (Nat.eqb cnt 0); [apply g_st_emit|]. destruct (Nat.leb cnt (Core.direct (conns s c))); [|apply g_st_emit].
        eapply g_st_trans; [|apply g_st_remove_direct]. destruct (Nat.eqb (Core.direct (conns s c) - cnt) 0); [|apply g_st_emit].
        eapply g_st_trans; [apply g_st_emit|apply g_st_sety'; reflexivity]. }
      split; [exact A|]. repeat split; auto. right. exists i. auto.
    + cbn [Core.emit Core.tx Core.ta Core.with_q Core.cqueue]. repeat split; auto.
  - destruct (Core.cur (conns s c)) as [i|] eqn:Ec; cbn [fst g_shape].
    + match goal with |- context [g_k0 s ?x ?y] => set (k1 := g_k0 s x y) in * end.
      assert (X : forall k, g_st i k1 k -> Core.cqueue (tx k) = q /\ Forall (g_tact0 i) (ta k) /\ Core.owner (ty k) = Core.owner (insts s i)).
      { intros k Hst. destruct (g_st_acts i k1 k eq_refl Hst) as (A&B&C). auto. }
      match goal with |- Core.cqueue (tx ?K) = _ /\ _ => destruct (X K) as (A&B&C) end.
      { destruct (Core.tokset (conns s c)); [apply g_st_reaccess|apply g_st_refl]. }
      split; [exact A|]. repeat split; auto. right. exists i. auto.
    + cbn [Core.tx Core.ta Core.cqueue]. repeat split; auto.
  - cbn [fst g_shape].
    match goal with |- context [g_k0 s ?x ?y] => set (k1 := g_k0 s x y) in * end.
    assert (X : forall k, g_st i k1 k -> Core.cqueue (tx k) = q /\ Forall (g_tact0 i) (ta k) /\ Core.owner (ty k) = Core.owner (insts s i)).
    { intros k Hst. destruct (g_st_acts i k1 k eq_refl Hst) as (A&B&C). auto. }
    match goal with |- Core.cqueue (tx ?K) = _ /\ _ => destruct (X K) as (A&B&C) end.
    { destruct (Core.is_gone val upd (cv s) i); [apply g_st_refl|]. destruct (Core.ans (insts s i)); [|apply g_st_refl].
      eapply g_st_trans; [|apply g_st_batch]. apply g_st_sety'. reflexivity. }
    split; [exact A|]. repeat split; auto. right. exists i. auto.
  - cbn [fst g_shape].
    set (k0 := g_k0 s (Core.with_q (conns s c) q) (insts s i)) in *.
    set (k1 := act k0 (Conv.RunC upd i)) in *.
    assert (X : forall k, g_st i k1 k -> Core.cqueue (tx k) = q /\ (exists l, ta k = Conv.RunC upd i :: l /\ Forall (g_tact0 i) l) /\
                                         Core.owner (ty k) = Core.owner (insts s i)).
    { intros k [(l&A&_&B) C D _]. split; [rewrite D; reflexivity|]. split; [exists l; rewrite A; auto|rewrite C; reflexivity]. }
    match goal with |- Core.cqueue (tx ?K) = _ /\ _ => destruct (X K) as (A&B&C) end.
    { destruct (scq (csubs (cv s) i)) as [|[|e|] r]; [apply g_st_refl| |apply g_st_emit|apply g_st_reaccess].
      destruct (sgone (csubs (cv s) i)); [apply g_st_refl|]. eapply g_st_trans; [|apply g_st_respond]. apply g_st_sety'. reflexivity. }
    split; [exact A|]. repeat split; auto.
  - cbn [fst g_shape].
    match goal with |- context [fold_left act ?l ?k] => destruct (g_fold_act l k) as (A&B&C&D&E) end. cbn zeta in *.
    cbn [Core.ta Core.ts Core.tx Core.ty Core.to Core.emit Core.sety]. rewrite A, C, D. cbn [Core.ta Core.tx Core.ty Core.with_cd Core.cqueue Core.upd_y Core.owner List.app].
    split; [reflexivity|]. repeat split; auto. intros i Ei. rewrite Ei. reflexivity.
Qed.

Lemma g_jf_refl σ : g_jf σ σ.
Proof. constructor; auto. Qed.
Lemma g_jf_trans σ1 σ2 σ3 : g_jf σ1 σ2 -> g_jf σ2 σ3 -> g_jf σ1 σ3.
Proof. intros [A B C] [A' B' C']. constructor; auto; try congruence; try (intros j; rewrite A', A; reflexivity). Qed.

Lemma g_jf_tacts i l σ : Forall (g_tact0 i) l ->
  g_jf σ (fold_left cstep l σ) /\ forall j, scq (csubs (fold_left cstep l σ) j) = scq (csubs σ j).
Proof.
  intros H. destruct (g_fr_list i l σ H) as [A B]. split; [eapply g_jf_of_fr, A|].
  intros j. destruct (Nat.eq_dec j i) as [->|Hne]; [exact B|rewrite (g_fr_other _ _ _ A) by exact Hne; reflexivity].
Qed.
Lemma g_jf_runc i l σ : Forall (g_tact0 i) l ->
  let σ' := fold_left cstep (Conv.RunC upd i :: l) σ in
  g_jf σ σ' /\ (forall j, j <> i -> scq (csubs σ' j) = scq (csubs σ j)) /\ scq (csubs σ' i) = tl (scq (csubs σ i)).
Proof.
  intros H. cbn zeta. cbn [fold_left]. destruct (g_runc σ i) as (A&B&_).
  destruct (g_jf_tacts i l (cstep σ (Conv.RunC upd i)) H) as [C D].
  split; [eapply g_jf_trans; [eapply g_jf_of_fr, A|exact C]|]. split.
  - intros j Hj. rewrite D. rewrite (g_fr_other _ _ _ A) by exact Hj. reflexivity.
  - rewrite D. exact B.
Qed.
Lemma g_jf_disp l σ :
  let σ' := fold_left cstep (map (fun j => Conv.Dispose upd j true) l) σ in
  g_jf σ σ' /\ forall j, scq (csubs σ' j) = scq (csubs σ j).
Proof.
  cbn zeta. destruct (g_dispose_list true l σ) as (_&_&C&D&(r&E&F)). cbn zeta in *. split.
  - constructor; auto. + intros j. apply C. + intros H. rewrite E. apply Forall_app. split; [exact H|apply g_isrem'_notadd, F].
  - intros j. apply C.
Qed.
Lemma g_jf_svc σ a : g_svc a -> g_jf σ (cstep σ a) /\ forall j, scq (csubs (cstep σ a) j) = scq (csubs σ j).
Proof.
  intros H. destruct (g_svc_step σ a H) as (A&B&_&(r&E&F&_)&_). rewrite A. split; [|auto].
  constructor; auto. - rewrite A. auto. - intros X. rewrite E. apply Forall_app. auto.
Qed.

(* a step that does not create an instance *)
Lemma g_J_keep s σ' f' insts' it0 c0 : g_J s -> g_jf (cv s) σ' ->
  (forall j, j < next s -> Core.owner (insts' j) = Core.owner (insts s j)) ->
  (forall j, j < next s -> length (scq (csubs σ' j)) <= length (scq (csubs (cv s) j)) - (if Nat.eqb (Core.owner (insts s j)) c0 && g_isq j it0 then 1 else 0)) ->
  (forall c j, g_cntq j (Core.cqueue (conns s c)) <= g_cntq j (Core.cqueue (f' c)) + (if Nat.eqb c c0 && g_isq j it0 then 1 else 0)) ->
  g_J {| Core.cv := σ'; Core.conns := f'; Core.insts := insts'; Core.next := next s; Core.mqsub := Core.mqsub val upd s; Core.getreq := Core.getreq val upd s |}.
Proof.
  intros [J1 J2 J3 J4] [F1 F2 F3] Ho Hcq Hq. constructor; cbn [Core.cv Core.conns Core.insts Core.next Core.mqsub Core.getreq].
  - intros i Hi. rewrite F1. apply J1, Hi.
  - intros Hm. destruct (J2 Hm). auto.
  - intros Hg. rewrite F2. apply J3, Hg.
  - intros i Hi. rewrite (Ho i Hi). specialize (Hcq i Hi). specialize (J4 i Hi). specialize (Hq (Core.owner (insts s i)) i).
    destruct (Nat.eqb (Core.owner (insts s i)) c0 && g_isq i it0); lia.
Qed.

Lemma g_eqb_false_r (b : bool) : b && false = false. Proof. apply andb_false_r. Qed.

Lemma g_J_grant s c : g_I s -> g_J s -> g_J (fst (step s (Core.GrantConn upd c))).
Proof.
  intros HI HJ. destruct (Core.cqueue (conns s c)) as [|it q] eqn:Eq; [unfold Core.step; rewrite Eq; exact HJ|].
  rewrite g_step_grant by (rewrite Eq; discriminate). destruct (g_task_shape s c it q Eq) as [Hq Hsh].
  destruct (conn_task s c) as [[[k oi] nx] ms]. cbn [fst] in *.
  assert (Hcn : forall x' c' j, Core.cqueue x' = q ->
     g_cntq j (Core.cqueue (conns s c')) <= g_cntq j (Core.cqueue (Core.set_conn (conns s) c x' c')) + (if Nat.eqb c' c && g_isq j it then 1 else 0)).
  { intros x' c' j Hx. destruct (Nat.eqb_spec c' c) as [->|Hne]; [rewrite g_set_conn_eq, Eq, Hx, g_cntq_cons; cbn [andb]; destruct (g_isq j it); lia|].
    rewrite g_set_conn_neq by exact Hne. cbn [andb]. lia. }
  assert (Hos : forall i y j, Core.owner y = Core.owner (insts s i) -> Core.owner (Core.set_inst (insts s) i y j) = Core.owner (insts s j)).
  { intros i y j Hy. destruct (Nat.eq_dec j i) as [->|Hne]; [rewrite g_set_inst_eq; exact Hy|rewrite g_set_inst_neq by exact Hne; reflexivity]. }
  assert (Hnq : forall j, (forall i, it <> Core.QSub i) -> g_isq j it = false) by (intros j H; destruct it; try reflexivity; exfalso; eapply H; reflexivity).
  assert (Hplain : forall i, Forall (g_tact0 i) (ta k) -> (forall i', it <> Core.QSub i') -> Core.owner (ty k) = Core.owner (insts s i) -> nx = next s -> ms = Core.mqsub val upd s ->
     g_J {| Core.cv := fold_left cstep (ta k) (cv s); Core.conns := Core.set_conn (conns s) c (tx k); Core.insts := Core.set_inst (insts s) i (ty k);
            Core.next := nx; Core.mqsub := ms; Core.getreq := Core.getreq val upd s |}).
  { intros i Hl Hns Hoy -> ->. destruct (g_jf_tacts i (ta k) (cv s) Hl) as [A B].
    apply (g_J_keep s _ _ _ it c); auto.
    - intros j Hj. rewrite B. rewrite (Hnq j Hns), andb_false_r. lia. }
  assert (Hnone : ta k = [] -> (forall i', it <> Core.QSub i') -> nx = next s -> ms = Core.mqsub val upd s ->
     g_J {| Core.cv := fold_left cstep (ta k) (cv s); Core.conns := Core.set_conn (conns s) c (tx k); Core.insts := insts s;
            Core.next := nx; Core.mqsub := ms; Core.getreq := Core.getreq val upd s |}).
  { intros -> Hns -> ->. cbn [fold_left]. apply (g_J_keep s _ _ _ it c); auto; [apply g_jf_refl|].
    intros j Hj. rewrite (Hnq j Hns), andb_false_r. lia. }
  destruct it as [id|id cnt|t|i|i|]; cbn [g_shape] in Hsh.
  - destruct Hsh as [(->&->&->&Ht&Hoy)|(i&->&A&B&C&D)]; [|apply Hplain; auto; discriminate].
    (* a new instance *)
    rewrite Ht. cbn [fold_left]. destruct (g_i_fresh _ HI (next s) (le_n _)) as [_ Hz0].
    destruct (g_subscribe_fresh (cv s) (next s) Hz0) as (S1&S2&S3&S4&S5&S6&S7&S8&S9). cbn zeta in *.
    destruct HJ as [J1 J2 J3 J4]. constructor; cbn [Core.cv Core.conns Core.insts Core.next Core.mqsub Core.getreq].
    + intros j Hj. destruct (Nat.eq_dec j (next s)) as [->|Hne]; [exact S6|rewrite S1 by exact Hne; apply J1; lia].
    + discriminate.
    + intros Hg. rewrite S9. apply J3, Hg.
    + intros j Hj. destruct (Nat.eq_dec j (next s)) as [->|Hne]; [rewrite S7; cbn; lia|].
      rewrite g_set_inst_neq by exact Hne. rewrite S1 by exact Hne. assert (Hj' : j < next s) by lia. specialize (J4 j Hj').
      pose proof (Hcn (tx k) (Core.owner (insts s j)) j Hq) as X. cbn [g_isq] in X. rewrite andb_false_r in X. lia.
  - destruct Hsh as (A&B&[(->&Ht)|(i&->&C&D)]); [apply Hnone; auto; discriminate|apply Hplain; auto; discriminate].
  - destruct Hsh as (A&B&[(->&Ht)|(i&->&C&D)]); [apply Hnone; auto; discriminate|apply Hplain; auto; discriminate].
  - destruct Hsh as (A&B&[(->&Ht)|(i'&->&C&D)]); [apply Hnone; auto; discriminate|apply Hplain; auto; discriminate].
  - destruct Hsh as (->&->&->&Hoy&(l&Ht&Hl)). rewrite Ht.
    destruct (g_jf_runc i l (cv s) Hl) as (A&B&C). cbn zeta in *.
    destruct (g_i_q _ HI c (Core.QSub i)) as [Hi Ho]; [rewrite Eq; left; reflexivity|].
    apply (g_J_keep s _ _ _ (Core.QSub i) c); auto.
    intros j Hj. cbn [g_isq]. destruct (Nat.eqb_spec i j) as [<-|Hne].
    + rewrite C, Ho, !Nat.eqb_refl. cbn [andb]. destruct (scq (csubs (cv s) i)); cbn; lia.
    + rewrite B by congruence. rewrite andb_false_r. lia.
  - destruct Hsh as (->&->&Ht&Hoy). rewrite Ht. destruct (g_jf_disp (Core.insts_of val upd s c) (cv s)) as [A B]. cbn zeta in *.
    apply (g_J_keep s _ _ _ Core.QDispose c); auto.
    + intros j Hj. destruct oi as [i|]; [apply Hos, Hoy; reflexivity|reflexivity].
    + intros j Hj. rewrite B. cbn [g_isq]. rewrite andb_false_r. lia.
Qed.

Lemma g_cntq_push c j x it : g_cntq j (Core.cqueue x) <= g_cntq j (Core.cqueue (Core.push_q x it)) + (if Nat.eqb c c && false then 1 else 0).
Proof. cbn [Core.push_q Core.with_q Core.cqueue]. rewrite g_cntq_app. lia. Qed.

Lemma g_J_env s σ' f' insts' : g_J s -> g_jf (cv s) σ' ->
  (forall j, j < next s -> Core.owner (insts' j) = Core.owner (insts s j)) ->
  (forall j, length (scq (csubs σ' j)) <= length (scq (csubs (cv s) j))) ->
  (forall c j, g_cntq j (Core.cqueue (conns s c)) <= g_cntq j (Core.cqueue (f' c))) ->
  g_J {| Core.cv := σ'; Core.conns := f'; Core.insts := insts'; Core.next := next s; Core.mqsub := Core.mqsub val upd s; Core.getreq := Core.getreq val upd s |}.
Proof.
  intros HJ Hf Ho Hcq Hq. apply (g_J_keep s σ' f' insts' Core.QDispose 0); auto.
  - intros j Hj. cbn [g_isq]. rewrite andb_false_r. specialize (Hcq j). lia.
  - intros c j. cbn [g_isq]. rewrite andb_false_r. specialize (Hq c j). lia.
Qed.

Lemma g_J_push s c x' : g_J s -> (forall j, g_cntq j (Core.cqueue (conns s c)) <= g_cntq j (Core.cqueue x')) ->
  g_J {| Core.cv := fold_left cstep [] (cv s); Core.conns := Core.set_conn (conns s) c x'; Core.insts := insts s; Core.next := next s;
         Core.mqsub := Core.mqsub val upd s; Core.getreq := Core.getreq val upd s |}.
Proof.
  intros HJ Hq. cbn [fold_left]. apply g_J_env; auto; [apply g_jf_refl|].
  intros c' j. destruct (Nat.eq_dec c' c) as [->|Hne]; [rewrite g_set_conn_eq; apply Hq|rewrite g_set_conn_neq by exact Hne; lia].
Qed.

(* service events while nobody has subscribed at the messaging system *)
Lemma g_jf_idle σ a : g_svc a -> Forall g_notadd (cqe σ) -> Conv.rs_subs val upd σ = [] ->
  let σ' := cstep (cstep σ a) (Conv.RunE upd) in
  g_jf σ σ' /\ forall j, scq (csubs σ' j) = scq (csubs σ j).
Proof.
  intros Ha Hn Hr. cbn zeta. destruct (g_svc_step σ a Ha) as (A&B&_&(r&E&F&_)&_).
  assert (Hn1 : Forall g_notadd (cqe (cstep σ a))) by (rewrite E; apply Forall_app; auto).
  destruct (g_rune_idle (cstep σ a)) as [C D]; [congruence|apply g_notadd_head, Hn1|].
  split.
  - constructor.
    + intros j. rewrite C, A. reflexivity.
    + congruence.
    + intros _. destruct (g_rune_qe (cstep σ a)) as (r2&E2&F2). rewrite E2. apply Forall_app. split; [|apply g_isrem'_notadd, F2].
      destruct (cqe (cstep σ a)); [constructor|]. inversion Hn1; assumption.
  - intros j. rewrite C, A. reflexivity.
Qed.

Lemma g_J_svc_maybe_rune s a : g_J s -> g_svc a ->
  g_J {| Core.cv := fold_left cstep (if Core.mqsub val upd s then [a] else [a; Conv.RunE upd]) (cv s); Core.conns := conns s; Core.insts := insts s;
         Core.next := next s; Core.mqsub := Core.mqsub val upd s; Core.getreq := Core.getreq val upd s |}.
Proof.
  intros HJ Ha. destruct (Core.mqsub val upd s) eqn:Em; cbn [fold_left].
  - destruct (g_jf_svc (cv s) a Ha) as [A B]. rewrite <- Em. apply g_J_env; auto. intros j. rewrite B. lia.
  - destruct (g_j_m _ HJ Em) as [N G]. destruct (g_jf_idle (cv s) a Ha N (g_j_g _ HJ G)) as [A B]. cbn zeta in *.
    rewrite <- Em. apply g_J_env; auto. intros j. rewrite B. lia.
Qed.

Lemma g_J_step s o : g_I s -> g_J s -> g_J (fst (step s o)).
Proof.
  intros HI HJ. destruct o as [c id|c id cnt|c|c t|i g| |u| | | |c].
  - unfold Core.step. cbn [Core.acts_of]. destruct (Core.disc (conns s c)); [exact HJ|]. cbn [fst].
    apply g_J_push; auto. intros j. cbn [Core.push_q Core.with_q Core.cqueue]. rewrite g_cntq_app. lia.
  - unfold Core.step. cbn [Core.acts_of]. destruct (Core.disc (conns s c)); [exact HJ|]. cbn [fst].
    apply g_J_push; auto. intros j. cbn [Core.push_q Core.with_q Core.cqueue]. rewrite g_cntq_app. lia.
  - unfold Core.step. cbn [Core.acts_of]. destruct (Core.disc (conns s c)); [exact HJ|]. cbn [fst].
    apply g_J_push; auto. intros j. cbn [Core.cqueue]. rewrite g_cntq_app. lia.
  - unfold Core.step. cbn [Core.acts_of]. destruct (Core.is_done (conns s c)); [exact HJ|]. cbn [fst].
    apply g_J_push; auto. intros j. cbn [Core.push_q Core.with_q Core.cqueue]. rewrite g_cntq_app. lia.
  - unfold Core.step. cbn [Core.acts_of]. destruct (Nat.ltb i (next s) && Core.unanswered (insts s i)) eqn:E; [|exact HJ].
    cbn [fst fold_left]. destruct (g_jf_svc (cv s) (Conv.SvcNop upd i) I) as [A B]. apply g_J_env; auto.
    intros j Hj. destruct (Nat.eq_dec j i) as [->|Hne]; [rewrite g_set_inst_eq; reflexivity|rewrite g_set_inst_neq by exact Hne; reflexivity].
  - unfold Core.step. cbn [Core.acts_of fst]. destruct (_ && _); cbn [fold_left].
    + destruct (g_jf_svc (cv s) (Conv.SvcAnswer upd) I) as [A B]. apply g_J_env; auto. intros j. rewrite B. lia.
    + apply g_J_env; auto. apply g_jf_refl.
  - unfold Core.step. cbn [Core.acts_of fst]. apply g_J_svc_maybe_rune; [exact HJ|exact I].
  - unfold Core.step. cbn [Core.acts_of fst]. apply g_J_svc_maybe_rune; [exact HJ|exact I].
  - unfold Core.step. cbn [Core.acts_of fst]. apply g_J_svc_maybe_rune; [exact HJ|exact I].
  - (* GrantEs *)
    unfold Core.step. cbn [Core.acts_of fst fold_left]. pose proof HJ as [J1 J2 J3 J4].
    constructor; cbn [Core.cv Core.conns Core.insts Core.next Core.mqsub Core.getreq].
    + intros j Hj. destruct (g_rune_fields (cv s) j) as (A&_). cbn zeta in A. rewrite A. apply J1, Hj.
    + intros Hm. destruct (J2 Hm) as [N G]. split.
      * destruct (g_rune_qe (cv s)) as (r&E&F). rewrite E. apply Forall_app. split; [|apply g_isrem'_notadd, F].
        destruct (cqe (cv s)); [constructor|]. inversion N; assumption.
      * rewrite G, (g_notadd_is_add_head _ N). reflexivity.
    + intros Hg. apply orb_false_elim in Hg. destruct Hg as [G H].
      destruct (g_rune_idle (cv s) (J3 G) (g_is_add_head_false _ H)) as [_ R]. exact R.
    + intros j Hj.
      match goal with |- context [Core.pass _ _ ?σ ?own (Core.fan _ _ _ ?σ' _ ?n ?f)] => destruct (g_grant_conns σ σ' own n f (Core.owner (insts s j))) as (A&_) end.
      cbn zeta in A. rewrite A, !g_cntq_app. specialize (J4 j Hj).
      destruct (g_rune_fields (cv s) j) as (_&_&_&_&_&_&[E|(it&E)]); cbn zeta in E; rewrite E; [lia|].
      rewrite app_length. cbn [length].
      assert (X : 1 <= g_cntq j (g_qsubs_for (cv s) (cstep (cv s) (Conv.RunE upd)) (fun i => Core.owner (insts s i)) (Core.owner (insts s j)) (seq 0 (next s)))).
      { apply g_cntq_in. unfold g_qsubs_for. apply in_map. apply filter_In. split; [apply in_seq; lia|].
        rewrite Nat.eqb_refl, andb_true_r. unfold Core.grew. rewrite E, app_length. cbn [length]. apply Nat.ltb_lt. lia. }
      lia.
  - apply g_J_grant; assumption.
Qed.

Lemma g_J_init t : g_J (Core.init val upd d t).
Proof. constructor; cbn; auto; intros; try lia. Qed.

Lemma g_IJ_exec t ops : g_I (fst (exec t ops)) /\ g_J (fst (exec t ops)).
Proof.
  induction ops as [|o ops IH] using rev_ind; [split; [apply g_I_init|apply g_J_init]|].
  rewrite g_exec_snoc. destruct (exec t ops) as [s outs]. unfold Core.exec1. cbn [fst] in IH. destruct IH as [HI HJ].
  pose proof (g_I_step s o HI) as H1. pose proof (g_J_step s o HI HJ) as H2. destruct (step s o) as [s' o']. auto.
Qed.

Theorem core_quiescent_validated : forall t ops c i,
  let s := fst (exec t ops) in
  quiescent s -> Core.cur (conns s c) = Some i ->
  Core.rq (insts s i) = false /\ Core.reflag (insts s i) = false /\ Core.acb (insts s i) = [] /\
  (0 < Core.direct (conns s c) -> Core.acc (insts s i) = Some true).
Proof.
  intros t ops c i s (Hqe&Hcq&Hget&Hinf) Ec. destruct (g_IJ_exec t ops) as [HI HJ]. fold s in HI, HJ.
  destruct (g_i_cur _ HI c i Ec) as (Hi&Ho&Hg). pose proof (g_i_live _ HI i Hi Hg) as HV. rewrite Ho in HV.
  specialize (Hinf i Hi).
  assert (Hacb : Core.acb (insts s i) = []).
  { destruct (Core.acb (insts s i)) eqn:E; [reflexivity|]. destruct (g_v_acb _ _ _ _ _ _ _ HV) as [X _]; [rewrite E; discriminate|congruence]. }
  assert (Hrq : Core.rq (insts s i) = false).
  { destruct (Core.rq (insts s i)) eqn:E; [|reflexivity]. destruct (g_v_rq _ _ _ _ _ _ _ HV E) as (_&_&_&_&_&X). congruence. }
  assert (Hacc : Core.acc (insts s i) = Some true).
  { destruct (Core.acc (insts s i)) as [[|]|] eqn:E; [reflexivity| |].
    - exfalso. exact (g_v_accf _ _ _ _ _ _ _ HV E).
    - pose proof (g_v_accn _ _ _ _ _ _ _ HV E). congruence. }
  (* the subscriber is loaded *)
  pose proof (g_i_inv _ HI) as Hinv.
  assert (Hmem : Conv.mem i (Conv.rs_subs val upd (cv s)) = true).
  { pose proof (Conv.i3 _ _ _ _ Hinv i Hg) as H3. rewrite Hqe, (g_j_sd _ HJ i Hi) in H3. cbn in H3.
    destruct (Conv.mem i (Conv.rs_subs val upd (cv s))); [reflexivity|cbn in H3; lia]. }
  assert (Hgr : Core.getreq val upd s = true).
  { destruct (Core.getreq val upd s) eqn:E; [reflexivity|]. rewrite (g_j_g _ HJ E) in Hmem. discriminate Hmem. }
  assert (Hrl : Conv.rs_loaded val upd (cv s) = true).
  { pose proof (Conv.i2 _ _ _ _ Hinv) as H2. rewrite Hqe, (Hget Hgr) in H2. cbn in H2.
    destruct (Conv.rs_loaded val upd (cv s)); [reflexivity|cbn in H2; lia]. }
  assert (Hcq0 : scq (csubs (cv s) i) = []).
  { pose proof (g_j_ql _ HJ i Hi) as X. rewrite Ho, Hcq in X. cbn in X. destruct (scq (csubs (cv s) i)); [reflexivity|cbn in X; lia]. }
  assert (Hld : sloaded (csubs (cv s) i) = true).
  { pose proof (Conv.i4 _ _ _ _ Hinv i) as H4. rewrite Hcq0, Hqe, Hmem, Hrl in H4. cbn in H4.
    destruct (sloaded (csubs (cv s) i)); [reflexivity|cbn in H4; lia]. }
  assert (Hsn : ssent (csubs (cv s) i) = true).
  { destruct (ssent (csubs (cv s) i)) eqn:E; [reflexivity|]. rewrite Hld in HV. pose proof (g_v_sent _ _ _ _ _ _ _ HV eq_refl eq_refl Hacc) as X. discriminate X. }
  assert (Hfl : sflag (csubs (cv s) i) = false).
  { rewrite Hld, Hsn in HV. exact (g_v_flag _ _ _ _ _ _ _ HV eq_refl eq_refl Hrq). }
  split; [exact Hrq|]. split; [|split; [exact Hacb|intros _; exact Hacc]].
  destruct (Core.reflag (insts s i)) eqn:E; [|reflexivity]. pose proof (g_v_refl _ _ _ _ _ _ _ HV E). congruence.
Qed.
End CoreProofs.

Print Assumptions core_revalidation_holds_events.
Print Assumptions core_token_triggers_revalidation.
Print Assumptions core_denied_revalidation_revokes.
Print Assumptions core_quiescent_validated.
