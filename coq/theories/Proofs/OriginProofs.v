(* Proofs about Pure/Origin.v: config.matchesOrigins / toLowerASCII, byte level.
   No axioms; every theorem is closed under the global context (see the end of the file). *)
From Coq Require Import List Ascii NArith Bool Arith String.
From RG Require Import Pure.Origin.
Import ListNotations.

(* O1 *)
Definition is_lower (s : list ascii) : Prop := to_lower s = s.

Lemma lower_idem : forall c, lower (lower c) = lower c.
Proof. intros c. destruct c as [[] [] [] [] [] [] [] []]; vm_compute; reflexivity. Qed.

Lemma to_lower_idem : forall s, to_lower (to_lower s) = to_lower s.
Proof.
  intros s. unfold to_lower. induction s as [|c s IH]; cbn [map].
  - reflexivity.
  - rewrite lower_idem, IH. reflexivity.
Qed.

Lemma to_lower_is_lower : forall s, is_lower (to_lower s).
Proof. intros s. unfold is_lower. apply to_lower_idem. Qed.

Lemma to_lower_length : forall s, List.length (to_lower s) = List.length s.
Proof. intros s. unfold to_lower. apply map_length. Qed.

(* one allow-list entry, already lower-case, against an arbitrary byte string *)
Lemma match_one_spec : forall s t, is_lower s -> (match_one s t = true <-> s = to_lower t).
Proof.
  unfold is_lower, to_lower.
  induction s as [|c s IH]; intros [|d t] Hl; cbn [match_one map]; split; intros H;
    try reflexivity; try discriminate H.
  - cbn [map] in Hl. injection Hl as Hc Hs.
    apply andb_true_iff in H. destruct H as [H1 H2].
    apply (IH t Hs) in H2.
    apply orb_true_iff in H1. destruct H1 as [H1|H1]; apply Ascii.eqb_eq in H1.
    + subst d. rewrite Hc. rewrite <- H2. reflexivity.
    + rewrite <- H1, <- H2. reflexivity.
  - cbn [map] in Hl. injection Hl as Hc Hs.
    injection H as H1 H2.
    apply andb_true_iff. split.
    + apply orb_true_iff. right. apply Ascii.eqb_eq. exact H1.
    + apply (IH t Hs). exact H2.
Qed.

(* O2 *)
Theorem origin_match_spec : forall os o, Forall is_lower os ->
  (matches_origins os o = true <-> In (to_lower o) os).
Proof.
  intros os o Hos. unfold matches_origins. rewrite existsb_exists.
  rewrite Forall_forall in Hos. split.
  - intros [s [Hin Hm]]. apply match_one_spec in Hm; [|apply Hos; exact Hin].
    subst s. exact Hin.
  - intros Hin. exists (to_lower o). split; [exact Hin|].
    apply match_one_spec; [apply Hos; exact Hin | reflexivity].
Qed.

(* the decision only depends on the origin up to ASCII case *)
Corollary origin_match_case_insensitive : forall os o1 o2, Forall is_lower os ->
  to_lower o1 = to_lower o2 -> matches_origins os o1 = matches_origins os o2.
Proof.
  intros os o1 o2 Hos Heq.
  destruct (matches_origins os o1) eqn:E1; destruct (matches_origins os o2) eqn:E2; try reflexivity.
  - apply (origin_match_spec os o1 Hos) in E1. rewrite Heq in E1.
    apply (origin_match_spec os o2 Hos) in E1. rewrite E1 in E2. discriminate E2.
  - apply (origin_match_spec os o2 Hos) in E2. rewrite <- Heq in E2.
    apply (origin_match_spec os o1 Hos) in E2. rewrite E2 in E1. discriminate E1.
Qed.

(* an accepted origin has the length of some listed origin *)
Corollary origin_match_length : forall os o, Forall is_lower os ->
  matches_origins os o = true -> exists s, In s os /\ List.length s = List.length o.
Proof.
  intros os o Hos Hm. apply (origin_match_spec os o Hos) in Hm.
  exists (to_lower o). split; [exact Hm | apply to_lower_length].
Qed.

(* ---------- examples ---------- *)

Definition l (s : string) : list ascii := list_ascii_of_string s.

Example ex_allow_is_lower : Forall is_lower [l "http://a.com"].
Proof. constructor; [vm_compute; reflexivity | constructor]. Qed.

Example ex_upper_accepted : matches_origins [l "http://a.com"] (l "HTTP://A.COM") = true.
Proof. vm_compute. reflexivity. Qed.

Example ex_prefix_rejected : matches_origins [l "http://a.com"] (l "http://a.co") = false.
Proof. vm_compute. reflexivity. Qed.

Example ex_longer_rejected : matches_origins [l "http://a.com"] (l "http://a.com.evil") = false.
Proof. vm_compute. reflexivity. Qed.

(* the hypothesis of origin_match_spec matters: an upper-case allow-list entry only matches itself *)
Example ex_upper_entry : matches_origins [l "HTTP://A.COM"] (l "http://a.com") = false
                         /\ matches_origins [l "HTTP://A.COM"] (l "HTTP://A.COM") = true.
Proof. vm_compute. split; reflexivity. Qed.

Print Assumptions lower_idem.
Print Assumptions to_lower_idem.
Print Assumptions match_one_spec.
Print Assumptions origin_match_spec.
Print Assumptions origin_match_case_insensitive.
Print Assumptions origin_match_length.
