(* Sanity lemmas about the reference client (Spec/Client.v). *)
From Coq Require Import List Arith Bool Lia.
From RG Require Import Spec.Trace Spec.Client.
Import ListNotations.

Lemma lookup_set_k_same {A} k (v : A) m : lookup k (set_k k v m) = Some v.
Proof. unfold set_k. cbn. rewrite Nat.eqb_refl. reflexivity. Qed.

Lemma lookup_remove_k_other {A} k k' (m : list (nat * A)) : k <> k' -> lookup k (remove_k k' m) = lookup k m.
Proof.
  intros Hne. induction m as [|[k0 v0] m IH]; cbn; [reflexivity|].
  destruct (Nat.eqb_spec k' k0) as [->|Hk].
  - destruct (Nat.eqb_spec k k0); [contradiction|exact IH].
  - cbn. destruct (Nat.eqb k k0); [reflexivity|exact IH].
Qed.

Lemma lookup_set_k_other {A} k k' (v : A) m : k <> k' -> lookup k (set_k k' v m) = lookup k m.
Proof.
  intros Hne. unfold set_k. cbn. destruct (Nat.eqb_spec k k'); [contradiction|].
  apply lookup_remove_k_other. exact Hne.
Qed.

Definition mstep (acc : list (rid * rdata)) (x : rid * rdata) : list (rid * rdata) :=
  match snd x, lookup (fst x) acc with
  | RErr _, Some (RModel _ | RColl _) => acc
  | _, _ => set_k (fst x) (snd x) acc
  end.

Lemma merge_set_fold rs h : merge_set rs h = fold_left mstep rs h.
Proof. reflexivity. Qed.

Lemma mstep_other acc x r : r <> fst x -> lookup r (mstep acc x) = lookup r acc.
Proof.
  destruct x as [r0 d0]. cbn [fst]. intros Hne. unfold mstep. cbn [fst snd].
  destruct d0 as [m|l|code]; try (apply lookup_set_k_other; exact Hne).
  destruct (lookup r0 acc) as [[m0|l0|c0]|]; try reflexivity; apply lookup_set_k_other; exact Hne.
Qed.

Lemma mstep_same acc x : exists d, lookup (fst x) (mstep acc x) = Some d.
Proof.
  destruct x as [r0 d0]. unfold mstep. cbn [fst snd].
  destruct d0 as [m|l|code]; try (eexists; apply lookup_set_k_same).
  destruct (lookup r0 acc) as [[m0|l0|c0]|] eqn:L; try (eexists; apply lookup_set_k_same); eexists; exact L.
Qed.

Lemma fold_merge_other : forall (l : rset) h r,
  ~ In r (map fst l) -> lookup r (fold_left mstep l h) = lookup r h.
Proof.
  induction l as [|x l IH]; intros h r Hn; cbn [fold_left]; [reflexivity|].
  rewrite IH; [|intros H; apply Hn; right; exact H].
  apply mstep_other. intros ->. apply Hn. left. reflexivity.
Qed.

(* every resource delivered in a message's resource set resolves afterwards *)
Theorem merged_resolves : forall (rs : rset) h r,
  In r (map fst rs) -> exists d, lookup r (merge_set rs h) = Some d.
Proof.
  intros rs h r. rewrite merge_set_fold. revert h.
  induction rs as [|x rs IH]; intros h Hin; [destruct Hin|].
  cbn [fold_left]. destruct (in_dec Nat.eq_dec r (map fst rs)) as [Hl|Hn].
  - apply IH. exact Hl.
  - cbn in Hin. destruct Hin as [<-|Hin]; [|contradiction].
    rewrite fold_merge_other by exact Hn. apply mstep_same.
Qed.

(* resources outside the set are untouched by the merge *)
Theorem merge_keeps_others : forall (rs : rset) h r,
  ~ In r (map fst rs) -> lookup r (merge_set rs h) = lookup r h.
Proof. intros. rewrite merge_set_fold. apply fold_merge_other. assumption. Qed.

(* data the client holds is never replaced by an error entry *)
Theorem error_entry_keeps_data : forall h r code d,
  lookup r h = Some d -> (match d with RErr _ => False | _ => True end) ->
  lookup r (merge_set [(r, RErr code)] h) = Some d.
Proof.
  intros h r code d L Hd. rewrite merge_set_fold. cbn [fold_left]. unfold mstep. cbn [fst snd]. rewrite L.
  destruct d as [m|l|c]; [exact L|exact L|destruct Hd].
Qed.
