(* Sanity lemmas about the reference client (Spec/Client.v). *)
From Coq Require Import List Arith Bool Lia.
From RG Require Import Spec.Trace Spec.Client.
Import ListNotations.

Lemma lookup_set_k_same {A} k (v : A) m : lookup k (set_k k v m) = Some v.
Proof. unfold set_k. cbn. rewrite Nat.eqb_refl. reflexivity. Qed.

Lemma lookup_remove_k_other {A} k k' (m : list (nat * A)) : k <> k' -> lookup k (remove_k k' m) = lookup k m.
Proof.
  intros Hne. induction m as [|[k0 v0] m IH]; cbn; [reflexivity|].
  destruct (Nat.eqb_spec k' k0) as [->|Hk].
  - destruct (Nat.eqb_spec k k0); [contradiction|exact IH].
  - cbn. destruct (Nat.eqb k k0); [reflexivity|exact IH].
Qed.

Lemma lookup_set_k_other {A} k k' (v : A) m : k <> k' -> lookup k (set_k k' v m) = lookup k m.
Proof.
  intros Hne. unfold set_k. cbn. destruct (Nat.eqb_spec k k'); [contradiction|].
  apply lookup_remove_k_other. exact Hne.
Qed.

Lemma fold_merge_other : forall (l : rset) h r,
  ~ In r (map fst l) ->
  lookup r (fold_left (fun acc x => set_k (fst x) (snd x) acc) l h) = lookup r h.
Proof.
  induction l as [|[r1 d1] l IH]; intros h r Hn; cbn [fold_left fst snd]; [reflexivity|].
  rewrite IH; [|intros H; apply Hn; right; exact H].
  apply lookup_set_k_other. intros ->. apply Hn. left. reflexivity.
Qed.

(* every resource delivered in a message's resource set resolves afterwards (the later entry wins on duplicates) *)
Theorem merged_resolves : forall (rs : rset) h r,
  In r (map fst rs) -> exists d, lookup r (merge_set rs h) = Some d.
Proof.
  unfold merge_set. induction rs as [|[r0 d0] rs IH]; intros h r Hin; [destruct Hin|].
  cbn [fold_left fst snd]. destruct (in_dec Nat.eq_dec r (map fst rs)) as [Hl|Hn].
  - apply IH. exact Hl.
  - cbn in Hin. destruct Hin as [->|Hin]; [|contradiction].
    exists d0. rewrite fold_merge_other by exact Hn. apply lookup_set_k_same.
Qed.

(* resources outside the set are untouched by the merge *)
Theorem merge_keeps_others : forall (rs : rset) h r,
  ~ In r (map fst rs) -> lookup r (merge_set rs h) = lookup r h.
Proof. intros. apply fold_merge_other. assumption. Qed.
