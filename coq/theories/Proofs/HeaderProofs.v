(* Proofs about Pure/Header.v: codec.Meta.Canonicalize followed by codec.MergeHeader.
   No axioms; every theorem is closed under the global context (see the end of the file). *)
From Coq Require Import List Ascii NArith Bool Arith String Lia.
From RG Require Import Pure.Header.
Import ListNotations.

(* ---------- H1: leqb is equality ---------- *)

Lemma leqb_eq : forall a b, leqb a b = true <-> a = b.
Proof.
  induction a as [|x a IH]; intros [|y b]; cbn [leqb]; split; intros H;
    try reflexivity; try discriminate H.
  - apply andb_true_iff in H. destruct H as [H1 H2].
    apply Ascii.eqb_eq in H1. apply IH in H2. subst. reflexivity.
  - inversion H; subst. apply andb_true_iff. split.
    + apply Ascii.eqb_refl.
    + apply IH. reflexivity.
Qed.

Lemma leqb_refl : forall a, leqb a a = true.
Proof. intros a. apply leqb_eq. reflexivity. Qed.

Lemma leqb_neq : forall a b, leqb a b = false <-> a <> b.
Proof.
  intros a b. split.
  - intros H Heq. apply leqb_eq in Heq. rewrite Heq in H. discriminate H.
  - intros H. destruct (leqb a b) eqn:E.
    + apply leqb_eq in E. contradiction.
    + reflexivity.
Qed.

(* ---------- hget / hdel / hset ---------- *)

Lemma hget_hdel_same : forall k h, hget k (hdel k h) = None.
Proof.
  intros k h. induction h as [|[k2 v2] h IH]; cbn [hget hdel].
  - reflexivity.
  - destruct (leqb k k2) eqn:E.
    + exact IH.
    + cbn [hget]. rewrite E. exact IH.
Qed.

Lemma hget_hdel_other : forall k k' h, k <> k' -> hget k (hdel k' h) = hget k h.
Proof.
  intros k k' h Hne. induction h as [|[k2 v2] h IH]; cbn [hget hdel].
  - reflexivity.
  - destruct (leqb k' k2) eqn:E1.
    + apply leqb_eq in E1. subst k2.
      destruct (leqb k k') eqn:E2.
      * apply leqb_eq in E2. contradiction.
      * exact IH.
    + cbn [hget]. destruct (leqb k k2).
      * reflexivity.
      * exact IH.
Qed.

Lemma hget_hset_same : forall k v h, hget k (hset k v h) = Some v.
Proof. intros k v h. unfold hset. cbn [hget]. rewrite leqb_refl. reflexivity. Qed.

Lemma hget_hset_other : forall k k' v h, k <> k' -> hget k (hset k' v h) = hget k h.
Proof.
  intros k k' v h Hne. unfold hset. cbn [hget].
  rewrite (proj2 (leqb_neq k k') Hne). apply hget_hdel_other. exact Hne.
Qed.

Lemma hget_notin : forall k h, ~ In k (map fst h) -> hget k h = None.
Proof.
  intros k h. induction h as [|[k2 v2] h IH]; intros Hni; cbn [hget].
  - reflexivity.
  - cbn [map fst In] in Hni. destruct (leqb k k2) eqn:E.
    + apply leqb_eq in E. exfalso. apply Hni. left. symmetry. exact E.
    + apply IH. intros Hin. apply Hni. right. exact Hin.
Qed.

Lemma In_hdel : forall k v k' h, In (k, v) (hdel k' h) -> In (k, v) h /\ k <> k'.
Proof.
  intros k v k' h. induction h as [|[k2 v2] h IH]; intros Hin; cbn [hdel] in Hin.
  - destruct Hin.
  - destruct (leqb k' k2) eqn:E.
    + destruct (IH Hin) as [H1 H2]. split; [right; exact H1 | exact H2].
    + destruct Hin as [Hin|Hin].
      * inversion Hin; subst. split.
        -- left. reflexivity.
        -- intros Heq. subst k'. rewrite leqb_refl in E. discriminate E.
      * destruct (IH Hin) as [H1 H2]. split; [right; exact H1 | exact H2].
Qed.

Lemma In_keys_hdel : forall k k' h, In k (map fst (hdel k' h)) -> In k (map fst h) /\ k <> k'.
Proof.
  intros k k' h. induction h as [|[k2 v2] h IH]; intros Hin; cbn [hdel] in Hin.
  - destruct Hin.
  - cbn [map fst In]. destruct (leqb k' k2) eqn:E.
    + destruct (IH Hin) as [H1 H2]. split; [right; exact H1 | exact H2].
    + cbn [map fst In] in Hin. destruct Hin as [Hin|Hin].
      * subst k2. split.
        -- left. reflexivity.
        -- intros Heq. subst k'. rewrite leqb_refl in E. discriminate E.
      * destruct (IH Hin) as [H1 H2]. split; [right; exact H1 | exact H2].
Qed.

Lemma In_hset : forall k v k' w h, In (k, v) (hset k' w h) -> k = k' \/ In (k, v) h.
Proof.
  intros k v k' w h Hin. unfold hset in Hin. destruct Hin as [Hin|Hin].
  - inversion Hin; subst. left. reflexivity.
  - right. apply In_hdel in Hin. destruct Hin as [H1 _]. exact H1.
Qed.

(* ---------- canon is idempotent ---------- *)

Lemma up_up : forall c, up (up c) = up c.
Proof. intros c. destruct c as [[] [] [] [] [] [] [] []]; vm_compute; reflexivity. Qed.

Lemma low_low : forall c, low (low c) = low c.
Proof. intros c. destruct c as [[] [] [] [] [] [] [] []]; vm_compute; reflexivity. Qed.

Lemma up_dash : forall c, Ascii.eqb (up c) dash = Ascii.eqb c dash.
Proof. intros c. destruct c as [[] [] [] [] [] [] [] []]; vm_compute; reflexivity. Qed.

Lemma low_dash : forall c, Ascii.eqb (low c) dash = Ascii.eqb c dash.
Proof. intros c. destruct c as [[] [] [] [] [] [] [] []]; vm_compute; reflexivity. Qed.

Lemma canon_from_idem : forall k b, canon_from b (canon_from b k) = canon_from b k.
Proof.
  induction k as [|c k IH]; intros b; cbn [canon_from].
  - reflexivity.
  - destruct b.
    + rewrite up_up, up_dash, IH. reflexivity.
    + rewrite low_low, low_dash, IH. reflexivity.
Qed.

Lemma canon_idem : forall k, canon (canon k) = canon k.
Proof. intros k. unfold canon. apply canon_from_idem. Qed.

(* ---------- every key of (canonicalize meta) is canonical (no NoDup hypothesis needed) ---------- *)

Lemma canonicalize_go_keys : forall todo h,
  (forall k, In k (map fst h) -> canon k = k \/ In k (map fst todo)) ->
  forall k, In k (map fst (canonicalize_go todo h)) -> canon k = k.
Proof.
  induction todo as [|[k0 v0] todo IH]; intros h Hinv k Hin; cbn [canonicalize_go] in Hin.
  - destruct (Hinv k Hin) as [H|H]; [exact H | destruct H].
  - destruct (leqb (canon k0) k0) eqn:E.
    + apply (IH h); [|exact Hin].
      intros k1 H1. destruct (Hinv k1 H1) as [H|H].
      * left. exact H.
      * cbn [map fst In] in H. destruct H as [H|H].
        -- left. subst k1. apply leqb_eq. exact E.
        -- right. exact H.
    + refine (IH _ _ k Hin).
      intros k1 H1. apply In_keys_hdel in H1. destruct H1 as [H1 Hne].
      unfold hset in H1. cbn [map fst In] in H1. destruct H1 as [H1|H1].
      * left. subst k1. apply canon_idem.
      * apply In_keys_hdel in H1. destruct H1 as [H1 _].
        destruct (Hinv k1 H1) as [H|H].
        -- left. exact H.
        -- cbn [map fst In] in H. destruct H as [H|H].
           ++ exfalso. apply Hne. symmetry. exact H.
           ++ right. exact H.
Qed.

Theorem canonicalize_keys : forall meta k, In k (map fst (canonicalize meta)) -> canon k = k.
Proof.
  intros meta k Hin. unfold canonicalize in Hin.
  apply (canonicalize_go_keys meta meta); [|exact Hin].
  intros k1 H1. right. exact H1.
Qed.

(* ---------- merge ---------- *)

Lemma merge_notin : forall b a k, ~ In k (map fst b) -> hget k (merge a b) = hget k a.
Proof.
  induction b as [|[k' v'] b IH]; intros a k Hni; cbn [merge].
  - reflexivity.
  - cbn [map fst In] in Hni.
    assert (Hne : k <> k') by (intros Heq; apply Hni; left; symmetry; exact Heq).
    assert (Hni' : ~ In k (map fst b)) by (intros Hin; apply Hni; right; exact Hin).
    destruct (is_protected k').
    + apply IH. exact Hni'.
    + destruct (leqb k' set_cookie); rewrite IH by exact Hni'; apply hget_hset_other; exact Hne.
Qed.

Lemma merge_protected : forall b a k, is_protected k = true -> hget k (merge a b) = hget k a.
Proof.
  induction b as [|[k' v'] b IH]; intros a k Hp; cbn [merge].
  - reflexivity.
  - destruct (is_protected k') eqn:Ep.
    + apply IH. exact Hp.
    + assert (Hne : k <> k') by (intros Heq; subst k'; rewrite Hp in Ep; discriminate Ep).
      destruct (leqb k' set_cookie); rewrite IH by exact Hp; apply hget_hset_other; exact Hne.
Qed.

(* H2 *)
Theorem protected_never_replaced : forall resp meta k,
  is_protected k = true -> hget k (apply_meta resp meta) = hget k resp.
Proof. intros resp meta k Hp. unfold apply_meta. apply merge_protected. exact Hp. Qed.

Corollary protected_not_created : forall resp meta k,
  is_protected k = true -> hget k resp = None -> hget k (apply_meta resp meta) = None.
Proof. intros resp meta k Hp Hn. rewrite protected_never_replaced by exact Hp. exact Hn. Qed.

Lemma merge_keys : forall b a k v,
  In (k, v) (merge a b) ->
  (exists v', In (k, v') a) \/ (In k (map fst b) /\ is_protected k = false).
Proof.
  induction b as [|[k' v'] b IH]; intros a k v Hin; cbn [merge] in Hin.
  - left. exists v. exact Hin.
  - cbn [map fst].
    destruct (is_protected k') eqn:Ep.
    + destruct (IH _ _ _ Hin) as [H1|[H1 H2]].
      * left. exact H1.
      * right. split; [right; exact H1 | exact H2].
    + assert (Hstep : forall w, In (k, v) (merge (hset k' w a) b) ->
                (exists v'0, In (k, v'0) a) \/ (In k (k' :: map fst b) /\ is_protected k = false)).
      { intros w Hw. destruct (IH _ _ _ Hw) as [[v1 H1]|[H1 H2]].
        - apply In_hset in H1. destruct H1 as [H1|H1].
          + right. subst k. split; [left; reflexivity | exact Ep].
          + left. exists v1. exact H1.
        - right. split; [right; exact H1 | exact H2]. }
      destruct (leqb k' set_cookie); apply Hstep in Hin; exact Hin.
Qed.

(* H3: no NoDup hypothesis on meta is needed *)
Theorem merged_keys_canonical : forall resp meta k v,
  In (k, v) (apply_meta resp meta) ->
  (exists v', In (k, v') resp) \/ (canon k = k /\ is_protected k = false).
Proof.
  intros resp meta k v Hin. unfold apply_meta in Hin.
  apply merge_keys in Hin. destruct Hin as [H|[H1 H2]].
  - left. exact H.
  - right. split; [|exact H2]. apply (canonicalize_keys meta). exact H1.
Qed.

Lemma set_cookie_unprotected : is_protected set_cookie = false.
Proof. vm_compute. reflexivity. Qed.

(* H4 *)
Theorem set_cookie_accumulates : forall resp b,
  NoDup (map fst b) ->
  hget set_cookie (merge resp b) =
    match hget set_cookie b with
    | Some v => Some ((match hget set_cookie resp with Some w => w | None => [] end) ++ v)
    | None => hget set_cookie resp
    end.
Proof.
  intros resp b. revert resp.
  induction b as [|[k' v'] b IH]; intros resp Hnd; cbn [merge hget].
  - reflexivity.
  - cbn [map fst] in Hnd. inversion Hnd as [|x l Hni Hnd']; subst.
    destruct (is_protected k') eqn:Ep.
    + assert (Hs : leqb set_cookie k' = false).
      { apply leqb_neq. intros Heq. subst k'. rewrite set_cookie_unprotected in Ep. discriminate Ep. }
      rewrite Hs. apply IH. exact Hnd'.
    + destruct (leqb k' set_cookie) eqn:Es.
      * apply leqb_eq in Es. subst k'. rewrite leqb_refl.
        rewrite merge_notin by exact Hni. apply hget_hset_same.
      * apply leqb_neq in Es.
        assert (Hs : leqb set_cookie k' = false).
        { apply leqb_neq. intros Heq. apply Es. symmetry. exact Heq. }
        rewrite Hs. rewrite IH by exact Hnd'.
        rewrite hget_hset_other by (intros Heq; apply Es; symmetry; exact Heq).
        reflexivity.
Qed.

(* H5 *)
Theorem non_protected_replaced : forall resp b k v,
  NoDup (map fst b) -> is_protected k = false -> leqb k set_cookie = false -> hget k b = Some v ->
  hget k (merge resp b) = Some v.
Proof.
  intros resp b. revert resp.
  induction b as [|[k' v'] b IH]; intros resp k v Hnd Hp Hs Hg; cbn [hget] in Hg.
  - discriminate Hg.
  - cbn [map fst] in Hnd. inversion Hnd as [|x l Hni Hnd']; subst.
    cbn [merge]. destruct (leqb k k') eqn:E.
    + apply leqb_eq in E. subst k'. injection Hg as Hg. subst v'.
      rewrite Hp, Hs. rewrite merge_notin by exact Hni. apply hget_hset_same.
    + destruct (is_protected k'); [|destruct (leqb k' set_cookie)]; apply IH; assumption.
Qed.

(* The same two facts for the composite apply_meta, when the canonicalised meta has unique keys *)
Corollary apply_meta_replaces : forall resp meta k v,
  NoDup (map fst (canonicalize meta)) -> is_protected k = false -> leqb k set_cookie = false ->
  hget k (canonicalize meta) = Some v -> hget k (apply_meta resp meta) = Some v.
Proof. intros resp meta k v Hnd Hp Hs Hg. unfold apply_meta. apply non_protected_replaced; assumption. Qed.

(* ---------- examples ---------- *)

Definition ex_resp : hmap := [(s2l "Content-Type", [1]); (s2l "Set-Cookie", [7])].
Definition ex_meta : hmap := [(s2l "content-type", [2]); (s2l "X-Custom", [3])].

Example ex_content_type_untouched :
  hget (s2l "Content-Type") (apply_meta ex_resp ex_meta) = Some [1].
Proof. vm_compute. reflexivity. Qed.

Example ex_no_second_spelling :
  hget (s2l "content-type") (apply_meta ex_resp ex_meta) = None.
Proof. vm_compute. reflexivity. Qed.

Example ex_custom_set :
  hget (s2l "X-Custom") (apply_meta ex_resp ex_meta) = Some [3].
Proof. vm_compute. reflexivity. Qed.

Example ex_lowercase_custom_canonicalised :
  hget (s2l "X-Custom") (apply_meta ex_resp [(s2l "x-cUSTOM", [4])]) = Some [4]
  /\ hget (s2l "x-cUSTOM") (apply_meta ex_resp [(s2l "x-cUSTOM", [4])]) = None.
Proof. vm_compute. split; reflexivity. Qed.

Example ex_set_cookie_appended :
  hget set_cookie (apply_meta ex_resp [(s2l "set-cookie", [8]); (s2l "Set-Cookie", [9])]) = Some [7; 9; 8].
Proof. vm_compute. reflexivity. Qed.

Example ex_protected_not_created :
  hget (s2l "Access-Control-Allow-Origin")
       (apply_meta ex_resp [(s2l "access-control-allow-origin", [5])]) = None.
Proof. vm_compute. reflexivity. Qed.

Print Assumptions leqb_eq.
Print Assumptions canon_idem.
Print Assumptions canonicalize_keys.
Print Assumptions protected_never_replaced.
Print Assumptions protected_not_created.
Print Assumptions merged_keys_canonical.
Print Assumptions set_cookie_accumulates.
Print Assumptions non_protected_replaced.
Print Assumptions apply_meta_replaces.
