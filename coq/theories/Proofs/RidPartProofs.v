(* C14: proofs about the models of codec.IsValidRIDPart and the method split of rpc.HandleRequest
   (theories/Pure/RidPart.v), on top of theories/Pure/Rid.v. *)
From Coq Require Import List Ascii NArith Bool Arith Lia String.
From RG Require Import Pure.Rid Pure.RidPart.
Import ListNotations.

(* ------------------------------------------------------------------ *)
(* R1: an accepted rid part is a clean subject token                   *)

Lemma not_bad_part_okc : forall c, negb (bad_part c) = true -> Rid.okc c = true.
Proof.
  intros c H.
  destruct c as [[] [] [] [] [] [] [] []]; vm_compute in H; try discriminate H; vm_compute; reflexivity.
Qed.

Lemma not_bad_part_all : forall p,
  forallb (fun c => negb (bad_part c)) p = true -> forallb Rid.okc p = true.
Proof.
  induction p as [|c p IH]; intros H.
  - reflexivity.
  - cbn [forallb] in *. apply andb_prop in H as [Hc Hp].
    rewrite (not_bad_part_okc c Hc), (IH Hp). reflexivity.
Qed.

Theorem valid_part_clean : forall p, is_valid_part p = true -> Rid.tok_ok p.
Proof.
  intros p H. unfold Rid.tok_ok. destruct p as [|c p].
  - cbn in H. discriminate H.
  - split.
    + intros E. discriminate E.
    + unfold is_valid_part in H. apply not_bad_part_all. exact H.
Qed.

(* ------------------------------------------------------------------ *)
(* R2: the two splits                                                  *)

Lemma split_first_dot_spec : forall m a r, split_first_dot m = Some (a, r) ->
  m = a ++ Rid.dot :: r /\ forallb (fun c => negb (Rid.is c Rid.dot)) a = true.
Proof.
  induction m as [|c m IH]; intros a r H.
  - cbn in H. discriminate H.
  - cbn [split_first_dot] in H. destruct (Rid.is c Rid.dot) eqn:Ed.
    + injection H as Ha Hr. subst a r. split; [|reflexivity].
      unfold Rid.is in Ed. apply Ascii.eqb_eq in Ed. subst c. reflexivity.
    + destruct (split_first_dot m) as [[a' r']|] eqn:Es; [|discriminate H].
      injection H as Ha Hr. subst a r.
      destruct (IH a' r' eq_refl) as [Hm Hall]. split.
      * cbn [List.app]. rewrite <- Hm. reflexivity.
      * cbn [forallb]. rewrite Ed, Hall. reflexivity.
Qed.

Lemma split_last_dot_none : forall m, split_last_dot m = None ->
  forallb (fun c => negb (Rid.is c Rid.dot)) m = true.
Proof.
  induction m as [|c m IH]; intros H.
  - reflexivity.
  - cbn [split_last_dot] in H. destruct (split_last_dot m) as [[a' r']|] eqn:Es; [discriminate H|].
    destruct (Rid.is c Rid.dot) eqn:Ed; [discriminate H|].
    cbn [forallb]. rewrite Ed, (IH eq_refl). reflexivity.
Qed.

Lemma split_last_dot_spec : forall m a r, split_last_dot m = Some (a, r) ->
  m = a ++ Rid.dot :: r /\ forallb (fun c => negb (Rid.is c Rid.dot)) r = true.
Proof.
  induction m as [|c m IH]; intros a r H.
  - cbn in H. discriminate H.
  - cbn [split_last_dot] in H. destruct (split_last_dot m) as [[a' r']|] eqn:Es.
    + injection H as Ha Hr. subst a r.
      destruct (IH a' r' eq_refl) as [Hm Hall]. split; [|exact Hall].
      cbn [List.app]. rewrite <- Hm. reflexivity.
    + destruct (Rid.is c Rid.dot) eqn:Ed; [|discriminate H].
      injection H as Ha Hr. subst a r. split.
      * unfold Rid.is in Ed. apply Ascii.eqb_eq in Ed. subst c. reflexivity.
      * apply split_last_dot_none. exact Es.
Qed.

(* ------------------------------------------------------------------ *)
(* leqb is list equality                                               *)

Lemma leqb_eq : forall a b, leqb a b = true <-> a = b.
Proof.
  induction a as [|x a IH]; intros b; destruct b as [|y b]; cbn [leqb]; split; intros H;
    try reflexivity; try discriminate H.
  - apply andb_prop in H as [Hx Ha]. apply Ascii.eqb_eq in Hx. apply IH in Ha. subst. reflexivity.
  - injection H as Hx Ha. subst. rewrite Ascii.eqb_refl. apply IH. reflexivity.
Qed.

Lemma call_auth_known : forall a, leqb a s_call || leqb a s_auth = true -> known_action a = true.
Proof.
  intros a H. unfold known_action. apply orb_prop in H as [H|H]; rewrite H; rewrite ?orb_true_r; reflexivity.
Qed.

(* ------------------------------------------------------------------ *)
(* R3: whatever the dispatcher forwards is subject-clean and re-assembles to the request method *)

Theorem dispatch_forwards_clean : forall m a rid meth,
  dispatch_method m = DAction a rid meth ->
  known_action a = true /\
  is_valid_rid rid true = true /\
  Rid.clean (Rid.name_of rid) /\
  (meth = [] \/ Rid.tok_ok meth) /\
  m = a ++ Rid.dot :: rid ++ (match meth with [] => [] | _ => Rid.dot :: meth end).
Proof.
  intros m a rid meth H. unfold dispatch_method in H.
  destruct (split_first_dot m) as [[action rid0]|] eqn:Ef.
  - destruct (split_first_dot_spec m action rid0 Ef) as [Hm _].
    destruct (leqb action s_call || leqb action s_auth) eqn:Eca.
    + destruct (split_last_dot rid0) as [[rid' meth']|] eqn:El; [|discriminate H].
      destruct (split_last_dot_spec rid0 rid' meth' El) as [Hr _].
      destruct (is_valid_part meth') eqn:Evp; cbn [negb] in H; [|discriminate H].
      destruct (is_valid_rid rid' true) eqn:Evr; cbn [negb] in H; [|discriminate H].
      injection H as Ha Hrid Hmeth. subst action rid' meth'.
      split; [apply call_auth_known; exact Eca|].
      split; [exact Evr|].
      split; [apply (valid_rid_subject_clean rid true); exact Evr|].
      split; [right; apply valid_part_clean; exact Evp|].
      destruct meth as [|c meth]; [cbn in Evp; discriminate Evp|].
      rewrite Hm, Hr. reflexivity.
    + destruct (is_valid_rid rid0 true) eqn:Evr; cbn [negb] in H; [|discriminate H].
      destruct (known_action action) eqn:Ek; [|discriminate H].
      injection H as Ha Hrid Hmeth. subst action rid0 meth.
      split; [exact Ek|].
      split; [exact Evr|].
      split; [apply (valid_rid_subject_clean rid true); exact Evr|].
      split; [left; reflexivity|].
      rewrite app_nil_r. exact Hm.
  - destruct (leqb m s_version); discriminate H.
Qed.

(* ------------------------------------------------------------------ *)
(* R4: `version` is the only dot-free method accepted                  *)

Theorem dispatch_total : forall m, exists d, dispatch_method m = d /\
  match d with DVersion => m = s_version | _ => True end.
Proof.
  intros m. exists (dispatch_method m). split; [reflexivity|].
  unfold dispatch_method.
  destruct (split_first_dot m) as [[action rid0]|] eqn:Ef.
  - destruct (leqb action s_call || leqb action s_auth).
    + destruct (split_last_dot rid0) as [[rid' meth']|]; [|exact I].
      destruct (negb (is_valid_part meth')); [exact I|].
      destruct (negb (is_valid_rid rid' true)); exact I.
    + destruct (negb (is_valid_rid rid0 true)); [exact I|].
      destruct (known_action action); exact I.
  - destruct (leqb m s_version) eqn:Ev; [|exact I].
    apply leqb_eq. exact Ev.
Qed.

(* a dot-free method is never forwarded *)
Corollary dispatch_nodot_not_forwarded : forall m a rid meth,
  split_first_dot m = None -> dispatch_method m <> DAction a rid meth.
Proof.
  intros m a rid meth Hn H. unfold dispatch_method in H. rewrite Hn in H.
  destruct (leqb m s_version); discriminate H.
Qed.

(* ------------------------------------------------------------------ *)
(* Examples                                                            *)

Definition s2l (s : string) := list_ascii_of_string s.

Example d_call : dispatch_method (s2l "call.a.b.m") = DAction (s2l "call") (s2l "a.b") (s2l "m").
Proof. reflexivity. Qed.
Example d_get_wild : dispatch_method (s2l "get.a.*") = DInvalid.
Proof. reflexivity. Qed.
Example d_call_short : dispatch_method (s2l "call.a") = DInvalid.
Proof. reflexivity. Qed.
Example d_version : dispatch_method (s2l "version") = DVersion.
Proof. reflexivity. Qed.
Example d_get : dispatch_method (s2l "get.a.b?q=1") = DAction (s2l "get") (s2l "a.b?q=1") [].
Proof. reflexivity. Qed.
(* the "last dot" rule: the method is whatever follows the LAST dot, even when that dot is inside the query
   (values obtained with Eval vm_compute and recorded) *)
Example d_auth_query : dispatch_method (s2l "auth.a.b?q=x.y.m") = DAction (s2l "auth") (s2l "a.b?q=x.y") (s2l "m").
Proof. reflexivity. Qed.
Example d_call_query : dispatch_method (s2l "call.a.b?q=x.m") = DAction (s2l "call") (s2l "a.b?q=x") (s2l "m").
Proof. reflexivity. Qed.
(* a dot inside the query value is taken as the method separator: query "q=x.y" is cut to "q=x", method "y" *)
Example d_call_query_cut : dispatch_method (s2l "call.a.b?q=x.y") = DAction (s2l "call") (s2l "a.b?q=x") (s2l "y").
Proof. reflexivity. Qed.
(* no resource name at all before the method dot *)
Example d_call_noname : dispatch_method (s2l "call..m") = DInvalid.
Proof. reflexivity. Qed.
Example d_unknown_action : dispatch_method (s2l "foo.a.b") = DInvalid.
Proof. reflexivity. Qed.

Print Assumptions valid_part_clean.
Print Assumptions split_first_dot_spec.
Print Assumptions split_last_dot_spec.
Print Assumptions leqb_eq.
Print Assumptions dispatch_forwards_clean.
Print Assumptions dispatch_total.
Print Assumptions dispatch_nodot_not_forwarded.
